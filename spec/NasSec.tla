------------------------------- MODULE NasSec -------------------------------
(***************************************************************************)
(* Layer 3: NAS COUNT and the NAS security envelope (TS 24.501 4.4.3-4.4.5,*)
(* 9.1-9.3; TS 33.501 6.4).  Functional core, used                         *)
(*   - by MCNasSec (exhaustive TLC model checking, symbolic cryptography,  *)
(*     small counter widths so that both wraps happen in a few steps),     *)
(*   - by TraceNasSec (binding to tglib.NASEncode / NASDecode with the     *)
(*     real algorithms of module NasAlg and the real widths 256 / 65536),  *)
(*   - by Stg (per-UE security state of the system specification).         *)
(*                                                                         *)
(* A security state is a record                                            *)
(*   [ul, dl: NAS COUNTs; kEnc, kInt: keys; encAlg, intAlg: identifiers]   *)
(* ul is the COUNT the next uplink message will use, dl the COUNT of the   *)
(* last downlink message accepted (both 0 when a context is taken in use). *)
(* A protected PDU is [hdr, mac, sqn, body]; a plain one is [hdr |-> 0,    *)
(* body].  On the wire: 0x7E, hdr, mac(4), sqn, body.                      *)
(***************************************************************************)
EXTENDS Integers, Sequences
CONSTANTS SqnMod, OvfMod,                 \* 256 and 65536 in reality
          Cipher(_, _, _, _, _, _),        \* Cipher(alg, key, count, bearer, dir, msg): an involution for fixed parameters
          Mac(_, _, _, _, _, _)            \* Mac(alg, key, count, bearer, dir, <<sqn, body>>)

CountMod == SqnMod * OvfMod
Bearer3gpp == 1
DirUp == 0
DirDown == 1
Ciphered(hdr) == hdr \in {2, 4}
NewCtxHdr(hdr) == hdr \in {3, 4}
Sqn(c) == c % SqnMod
Ovf(c) == c \div SqnMod
AddOne(c) == (c + 1) % CountMod
MkCount(ovf, sqn) == (ovf % OvfMod) * SqnMod + sqn

(* Sender side.  new = TRUE takes a new security context into use: both     *)
(* counters restart at zero (TS 24.501 4.4.3.1).                            *)
Protect(sec, plain, hdr, new, dir) ==
   LET mine == IF dir = DirUp THEN sec.ul ELSE sec.dl
       count == IF new THEN 0 ELSE mine
       body == IF Ciphered(hdr) THEN Cipher(sec.encAlg, sec.kEnc, count, Bearer3gpp, dir, plain) ELSE plain
       pdu == [hdr |-> hdr, sqn |-> Sqn(count), body |-> body,
               mac |-> Mac(sec.intAlg, sec.kInt, count, Bearer3gpp, dir, <<Sqn(count), body>>)]
       other == IF new THEN 0 ELSE (IF dir = DirUp THEN sec.dl ELSE sec.ul)
   IN [pdu |-> pdu, count |-> count,
       sec |-> IF dir = DirUp THEN [sec EXCEPT !.ul = AddOne(count), !.dl = other]
                              ELSE [sec EXCEPT !.dl = AddOne(count), !.ul = other]]

(* Receiver side estimate (TS 24.501 4.4.3.1): same overflow as the last    *)
(* accepted message unless the sequence number went backwards, in which    *)
(* case the overflow counter is incremented.                               *)
Estimate(last, sqn) == MkCount(IF sqn < Sqn(last) THEN Ovf(last) + 1 ELSE Ovf(last), sqn)

(* UE receiving a downlink PDU: `last` semantics (dl = COUNT of the last    *)
(* accepted message).                                                      *)
Unprotect(sec, pdu, dir) ==
   IF pdu.hdr = 0 THEN [plain |-> pdu.body, macOk |-> TRUE, count |-> -1, sec |-> sec]
   ELSE LET last == IF dir = DirDown THEN sec.dl ELSE sec.ul
            base == IF NewCtxHdr(pdu.hdr) THEN 0 ELSE last
            count == Estimate(base, pdu.sqn)
            plain == IF Ciphered(pdu.hdr) THEN Cipher(sec.encAlg, sec.kEnc, count, Bearer3gpp, dir, pdu.body) ELSE pdu.body
        IN [plain |-> plain, count |-> count,
            macOk |-> pdu.mac = Mac(sec.intAlg, sec.kInt, count, Bearer3gpp, dir, <<pdu.sqn, pdu.body>>),
            sec |-> IF dir = DirDown THEN [sec EXCEPT !.dl = count] ELSE [sec EXCEPT !.ul = count]]
=============================================================================
