-------------------------------- MODULE Per --------------------------------
(***************************************************************************)
(* Layer 2a: ITU-T X.691 (02/2021) ALIGNED variant of BASIC-PER, encoder   *)
(* and decoder, over "typed trees".                                        *)
(*                                                                         *)
(* A type node is a record with field k (kind) and the constraints:        *)
(*   [k |-> "int",    lb, ub: Bound, ext: BOOLEAN]                          *)
(*   [k |-> "enum",   ub: Bound (largest root index), ext]                  *)
(*   [k |-> "bool"]                                                        *)
(*   [k |-> "bitstr" | "octstr", lb, ub: Bound (size), ext]                 *)
(*   [k |-> "seq",    ext, fields: Seq([name, opt, t])]                     *)
(*   [k |-> "seqof",  lb, ub, ext, t]                                       *)
(*   [k |-> "choice", ub: Bound (largest root index), ext, alts: Seq([name, t])] *)
(*   [k |-> "open",   ref: field name, alts: Seq([ref: Int, name, t])]      *)
(*   [k |-> "ref",    name]    (named type, resolved in a type dictionary)  *)
(* Bound == [has |-> FALSE] | [has |-> TRUE, n |-> Int] | [has |-> TRUE, big |-> BigNat]   *)
(* A value node repeats the constraints of its type and adds the value:    *)
(*   int:    v: [n: Int] | [big: BigNat]        enum: v: Nat (index)        *)
(*   bool:   v: BOOLEAN                         octstr: v: octets           *)
(*   bitstr: v: octets, nbits: Nat              seqof: v: Seq(value)        *)
(*   seq:    fields: Seq([name, opt, present, v])                           *)
(*   choice: idx: Nat (0-based), v: value       open: ref: Int, v: value    *)
(*   invalid: why  (a Go value that denotes no ASN.1 value: unset CHOICE,   *)
(*                  nil mandatory component, open type of another id)       *)
(* An encoder state is [b: octets so far, o: bits used in the last octet   *)
(* (0 = octet aligned)]; a decoder state is [bs: octets, p: bit position]. *)
(***************************************************************************)
EXTENDS Bytes, TLC

PerEmpty == [b |-> <<>>, o |-> 0]
PutBit(s, bit) == IF s.o = 0 THEN [b |-> Append(s.b, bit * 128), o |-> 1]
                  ELSE [b |-> [s.b EXCEPT ![Len(s.b)] = @ + bit * 2^(7 - s.o)], o |-> (s.o + 1) % 8]
RECURSIVE PutBits(_, _, _)
\* the n low-order bits of v (v < 2^31), most significant first
PutBits(s, v, n) == IF n = 0 THEN s ELSE PutBits(PutBit(s, (v \div 2^(n - 1)) % 2), v % 2^(n - 1), n - 1)
PerAlign(s) == [s EXCEPT !.o = 0]
RECURSIVE PutOctetsU(_, _)
PutOctetsU(s, bs) == IF Len(bs) = 0 THEN s ELSE PutOctetsU(PutBits(s, Head(bs), 8), Tail(bs))
PutOctets(s, bs) == IF s.o = 0 THEN [b |-> s.b \o bs, o |-> 0] ELSE PutOctetsU(s, bs)
RECURSIVE BitsFor(_)
\* number of bits of the constrained whole number bit-field for a range of r values (r <= 256): smallest n with 2^n >= r
BitsFor(r) == IF r <= 1 THEN 0 ELSE 1 + BitsFor((r + 1) \div 2)
\* the first nbits bits of bytes, appended most significant first
PutBitString(s, bytes, nbits) ==
   LET full == nbits \div 8  rem == nbits % 8 IN
   IF s.o = 0 THEN
      IF rem = 0 THEN [b |-> s.b \o SubSeq(bytes, 1, full), o |-> 0]
      ELSE [b |-> s.b \o SubSeq(bytes, 1, full) \o <<(bytes[full + 1] \div 2^(8 - rem)) * 2^(8 - rem)>>, o |-> rem]
   ELSE LET s1 == PutOctetsU(s, SubSeq(bytes, 1, full))
        IN IF rem = 0 THEN s1 ELSE PutBits(s1, bytes[full + 1] \div 2^(8 - rem), rem)

IsBig(x) == "big" \in DOMAIN x
Lim == 1073741824                                     \* 2^30: below this Int arithmetic cannot overflow
SmallNum(x) == ~IsBig(x) /\ x.n > -Lim /\ x.n < Lim
BN(x) == IF IsBig(x) THEN StripZ(x.big) ELSE NatBytes(x.n)      \* for x >= 0
NumGE(a, b) == IF SmallNum(a) /\ SmallNum(b) THEN a.n >= b.n    \* a >= b  (big numbers are non-negative)
               ELSE IF ~IsBig(b) /\ b.n < 0 THEN TRUE
               ELSE IF ~IsBig(a) /\ a.n < 0 THEN FALSE
               ELSE BigCmp(BN(a), BN(b)) >= 0
BoundN(bd) == bd.n                                    \* size bounds are always small

(***************************************************************************)
(* 10.5 constrained whole number (offset v in a range of r values),        *)
(* r <= 65536; 10.9 length determinants.                                   *)
(***************************************************************************)
PutCW(s, v, r) == IF r = 1 THEN s
                  ELSE IF r <= 255 THEN PutBits(s, v, BitsFor(r))
                  ELSE IF r = 256 THEN PutOctets(PerAlign(s), <<v>>)
                  ELSE PutOctets(PerAlign(s), <<v \div 256, v % 256>>)
\* 10.9.3.6-8: unconstrained length below 16384
PutULen(s, n) == IF n < 128 THEN PutOctets(PerAlign(s), <<n>>)
                 ELSE PutOctets(PerAlign(s), <<128 + (n \div 256), n % 256>>)
\* twos-complement minimal octets of a small integer
NatBytesTopClear(u) == LET b == NatBytes(u) IN IF b[1] >= 128 THEN <<0>> \o b ELSE b
TwosBytes(v) == IF v >= 0 THEN NatBytesTopClear(v)
                ELSE LET b == NatBytesTopClear(-v - 1) IN Tup([i \in 1..Len(b) |-> 255 - b[i]])
TwosOfNum(x) == IF IsBig(x) THEN (LET b == StripZ(x.big) IN IF b[1] >= 128 THEN <<0>> \o b ELSE b) ELSE TwosBytes(x.n)

(***************************************************************************)
(* Fragmentation (10.9.3.8): content given as a sequence of units; each    *)
(* unit is written by PutUnit.  Used for strings, SEQUENCE OF and open     *)
(* types whose length is 16384 or more.                                    *)
(***************************************************************************)
FragCount(n) == IF n >= 65536 THEN 4 ELSE n \div 16384          \* number of 16K blocks in the next fragment

(***************************************************************************)
(* Validity of a value tree (the value satisfies its constraints)          *)
(***************************************************************************)
InSize(n, t) == (~t.lb.has \/ n >= t.lb.n) /\ (~t.ub.has \/ n <= t.ub.n)
RECURSIVE PerValid(_)
PerValidAll(vs) == \A i \in 1..Len(vs) : PerValid(vs[i])
PerValid(t) ==
   CASE t.k = "int" -> LET inRoot == (~t.lb.has \/ NumGE(t.v, t.lb)) /\ (~t.ub.has \/ NumGE(t.ub, t.v))
                       IN inRoot \/ (t.ext /\ t.lb.has /\ t.ub.has)
     [] t.k = "enum" -> t.v >= 0 /\ t.v <= t.ub.n
     [] t.k = "bool" -> TRUE
     [] t.k = "octstr" -> InSize(Len(t.v), t) \/ (t.ext /\ t.ub.has)
     [] t.k = "bitstr" -> (InSize(t.nbits, t) \/ (t.ext /\ t.ub.has)) /\ Len(t.v) * 8 >= t.nbits
     [] t.k = "seq" -> \A i \in 1..Len(t.fields) : ~t.fields[i].present \/ PerValid(t.fields[i].v)
     [] t.k = "seqof" -> (InSize(Len(t.v), t) \/ (t.ext /\ t.ub.has)) /\ PerValidAll(t.v)
     [] t.k = "choice" -> t.idx >= 0 /\ t.idx <= t.ub.n /\ PerValid(t.v)
     [] t.k = "open" -> t.ref = t.altref /\ PerValid(t.v)
     [] t.k = "invalid" -> FALSE
     [] OTHER -> FALSE

(* PerInRoot: every component lies inside the root of its constraint (no    *)
(* extension values).  A sender implementing exactly this version of the   *)
(* schema only ever produces such values.                                  *)
RECURSIVE PerInRoot(_)
PerInRoot(t) ==
   CASE t.k = "int" -> (~t.lb.has \/ NumGE(t.v, t.lb)) /\ (~t.ub.has \/ NumGE(t.ub, t.v))
     [] t.k = "octstr" -> InSize(Len(t.v), t)
     [] t.k = "bitstr" -> InSize(t.nbits, t)
     [] t.k = "seq" -> \A i \in 1..Len(t.fields) : ~t.fields[i].present \/ PerInRoot(t.fields[i].v)
     [] t.k = "seqof" -> InSize(Len(t.v), t) /\ \A i \in 1..Len(t.v) : PerInRoot(t.v[i])
     [] t.k = "choice" -> PerInRoot(t.v)
     [] t.k = "open" -> PerInRoot(t.v)
     [] OTHER -> TRUE

(***************************************************************************)
(* Encoder                                                                 *)
(***************************************************************************)
\* 12 INTEGER
EncIntRoot(s, t) ==
   IF t.lb.has /\ t.ub.has THEN
      IF SmallNum(t.lb) /\ SmallNum(t.ub) /\ (t.ub.n - t.lb.n) < 65536
      THEN PutCW(s, t.v.n - t.lb.n, t.ub.n - t.lb.n + 1)
      ELSE \* 10.5.7.4 indefinite length case: length of the value in octets, in a bit-field, then the aligned value
           LET d  == IF SmallNum(t.lb) /\ SmallNum(t.ub) THEN NatBytes(t.ub.n - t.lb.n) ELSE BigSub(BN(t.ub), BN(t.lb))
               vb == IF SmallNum(t.lb) /\ SmallNum(t.v) THEN NatBytes(t.v.n - t.lb.n) ELSE BigSub(BN(t.v), BN(t.lb))
               s1 == PutCW(s, Len(vb) - 1, Len(d))
           IN PutOctets(PerAlign(s1), vb)
   ELSE IF t.lb.has THEN   \* semi-constrained: offset from lb as a non-negative binary integer, unconstrained length
      LET vb == IF SmallNum(t.lb) /\ SmallNum(t.v) THEN NatBytes(t.v.n - t.lb.n) ELSE BigSub(BN(t.v), BN(t.lb))
      IN PutOctets(PutULen(s, Len(vb)), vb)
   ELSE LET vb == TwosOfNum(t.v) IN PutOctets(PutULen(s, Len(vb)), vb)
EncInt(s, t) ==
   IF t.ext /\ t.lb.has /\ t.ub.has THEN
      IF NumGE(t.v, t.lb) /\ NumGE(t.ub, t.v) THEN EncIntRoot(PutBit(s, 0), t)
      ELSE LET vb == TwosOfNum(t.v) IN PutOctets(PutULen(PutBit(s, 1), Len(vb)), vb)
   ELSE EncIntRoot(s, t)

\* length determinant for a size n under size constraint (lb, ub) when not fixed; FALSE if fragmented
SizeIsCW(t) == t.ub.has /\ t.ub.n < 65536
PutSizeCW(s, n, t) == LET lb == IF t.lb.has THEN t.lb.n ELSE 0 IN PutCW(s, n - lb, t.ub.n - lb + 1)
FixedSize(t) == t.lb.has /\ t.ub.has /\ t.lb.n = t.ub.n /\ t.ub.n < 65536

RECURSIVE PerEnc(_, _)
RECURSIVE EncElems(_, _, _, _)
EncElems(s, els, i, j) == IF i > j THEN s ELSE EncElems(PerEnc(s, els[i]), els, i + 1, j)
\* units i..j of a content: octets ("oct"), bits of a left-justified octet string ("bit": fragments are
\* multiples of 16384 bits so they start on octet boundaries of the data), or list elements ("elem")
PutUnits(s, kind, data, i, j) ==
   CASE kind = "oct" -> PutOctets(s, SubSeq(data, i, j))
     [] kind = "bit" -> PutBitString(s, SubSeq(data, ((i - 1) \div 8) + 1, Len(data)), j - i + 1)
     [] kind = "elem" -> EncElems(s, data, i, j)
\* 10.9.3.5-8: unconstrained length with fragmentation, content of n units written from unit i on
RECURSIVE EncFragments(_, _, _, _, _)
EncFragments(s, n, i, kind, data) ==
   IF n - i + 1 < 16384 THEN
      LET m == n - i + 1 s1 == PutULen(s, m) IN IF m = 0 THEN s1 ELSE PutUnits(PerAlign(s1), kind, data, i, n)
   ELSE LET f == FragCount(n - i + 1)
            s1 == PutOctets(PerAlign(s), <<192 + f>>)
        IN EncFragments(PutUnits(PerAlign(s1), kind, data, i, i + f * 16384 - 1), n, i + f * 16384, kind, data)
RECURSIVE EncSeqFields(_, _)
EncSeqFields(s, fs) == IF Len(fs) = 0 THEN s
                       ELSE EncSeqFields(IF Head(fs).present THEN PerEnc(s, Head(fs).v) ELSE s, Tail(fs))
RECURSIVE EncPreamble(_, _)
EncPreamble(s, fs) == IF Len(fs) = 0 THEN s
                      ELSE EncPreamble(IF Head(fs).opt THEN PutBit(s, IF Head(fs).present THEN 1 ELSE 0) ELSE s, Tail(fs))
\* 10.1 complete encoding: at least one octet
PerComplete(s) == IF Len(s.b) = 0 THEN <<0>> ELSE s.b

EncOctStr(s, t) ==
   LET n == Len(t.v)
       inRoot == InSize(n, t) \/ ("forceRoot" \in DOMAIN t /\ t.forceRoot)      \* (forceRoot: the fault model's over-long values in root form)
       s0 == IF t.ext THEN PutBit(s, IF inRoot THEN 0 ELSE 1) ELSE s
   IN IF t.ext /\ ~inRoot THEN EncFragments(s0, n, 1, "oct", t.v)
      ELSE IF FixedSize(t) THEN (IF n = 0 THEN s0 ELSE IF n <= 2 THEN PutOctets(s0, t.v) ELSE PutOctets(PerAlign(s0), t.v))
      ELSE IF SizeIsCW(t) THEN LET s1 == PutSizeCW(s0, n, t) IN IF n = 0 THEN s1 ELSE PutOctets(PerAlign(s1), t.v)
      ELSE EncFragments(s0, n, 1, "oct", t.v)
EncBitStr(s, t) ==
   LET n == t.nbits
       inRoot == InSize(n, t) \/ ("forceRoot" \in DOMAIN t /\ t.forceRoot)      \* (forceRoot: the fault model's over-long values in root form)
       s0 == IF t.ext THEN PutBit(s, IF inRoot THEN 0 ELSE 1) ELSE s
   IN IF t.ext /\ ~inRoot THEN EncFragments(s0, n, 1, "bit", t.v)
      ELSE IF FixedSize(t) THEN (IF n = 0 THEN s0 ELSE IF n <= 16 THEN PutBitString(s0, t.v, n) ELSE PutBitString(PerAlign(s0), t.v, n))
      ELSE IF SizeIsCW(t) THEN LET s1 == PutSizeCW(s0, n, t) IN IF n = 0 THEN s1 ELSE PutBitString(PerAlign(s1), t.v, n)
      ELSE EncFragments(s0, n, 1, "bit", t.v)
EncSeqOf(s, t) ==
   LET n == Len(t.v)
       inRoot == InSize(n, t) \/ ("forceRoot" \in DOMAIN t /\ t.forceRoot)      \* (forceRoot: the fault model's over-long values in root form)
       s0 == IF t.ext THEN PutBit(s, IF inRoot THEN 0 ELSE 1) ELSE s
   IN IF t.ext /\ ~inRoot THEN EncFragments(s0, n, 1, "elem", t.v)
      ELSE IF FixedSize(t) THEN EncElems(s0, t.v, 1, n)
      ELSE IF SizeIsCW(t) THEN EncElems(PutSizeCW(s0, n, t), t.v, 1, n)
      ELSE EncFragments(s0, n, 1, "elem", t.v)
\* an open type node may carry its contents as given octets (raw) instead of a value: used by the fault model to corrupt the contents
\* of a container while every enclosing length stays consistent
EncOpen(s, t) ==
   LET inner == IF "raw" \in DOMAIN t THEN t.raw ELSE PerComplete(PerEnc(PerEmpty, t.v))
   IN PerAlign(EncFragments(s, Len(inner), 1, "oct", inner))
PerEnc(s, t) ==
   CASE t.k = "int" -> EncInt(s, t)
     [] t.k = "enum" -> LET s0 == IF t.ext THEN PutBit(s, 0) ELSE s IN PutCW(s0, t.v, t.ub.n + 1)
     [] t.k = "bool" -> PutBit(s, IF t.v THEN 1 ELSE 0)
     [] t.k = "octstr" -> EncOctStr(s, t)
     [] t.k = "bitstr" -> EncBitStr(s, t)
     [] t.k = "seq" -> LET s0 == IF t.ext THEN PutBit(s, 0) ELSE s IN EncSeqFields(EncPreamble(s0, t.fields), t.fields)
     [] t.k = "seqof" -> EncSeqOf(s, t)
     [] t.k = "choice" -> LET s0 == IF t.ext THEN PutBit(s, 0) ELSE s IN PerEnc(PutCW(s0, t.idx, t.ub.n + 1), t.v)
     [] t.k = "open" -> EncOpen(s, t)
PerEncode(t) == PerComplete(PerEnc(PerEmpty, t))

(* Field positions (used by the fault model of C14, PerFault.tla): PerMarks(s, t, base) encodes t from state s like PerEnc and     *)
(* also returns the set of absolute bit positions (base = position of the current buffer in the outermost one) at which the     *)
(* encoding of some node of t begins, i.e. where its extension bit / presence bitmap / choice index / length determinant / first  *)
(* content bit is, plus the first octet of every length determinant of an open type.  Contents of 16384 units or more are not      *)
(* descended into.                                                                                                             *)
PerPos(s) == IF s.o = 0 THEN 8 * Len(s.b) ELSE 8 * (Len(s.b) - 1) + s.o
\* results: [s: encoder state after t, m: field start positions, ln: positions of the octet-aligned length determinants]
RECURSIVE PerMarks(_, _, _)
RECURSIVE MarksFields(_, _, _, _, _, _)
MarksFields(s, fs, base, m, ln, ol) ==
   IF Len(fs) = 0 THEN [s |-> s, m |-> m, ln |-> ln, ol |-> ol]
   ELSE IF Head(fs).present THEN LET r == PerMarks(s, Head(fs).v, base) IN MarksFields(r.s, Tail(fs), base, m \cup r.m, ln \cup r.ln, ol \cup r.ol)
   ELSE MarksFields(s, Tail(fs), base, m, ln, ol)
RECURSIVE MarksElems(_, _, _, _, _, _, _)
MarksElems(s, els, i, base, m, ln, ol) ==
   IF i > Len(els) THEN [s |-> s, m |-> m, ln |-> ln, ol |-> ol]
   ELSE LET r == PerMarks(s, els[i], base) IN MarksElems(r.s, els, i + 1, base, m \cup r.m, ln \cup r.ln, ol \cup r.ol)
\* ol: positions of the length determinants of open types only (an information element's value, a message's value)
PerMarks(s, t, base) ==
   LET here == {base + PerPos(s)} IN
   CASE t.k = "seq" -> LET s0 == IF t.ext THEN PutBit(s, 0) ELSE s IN MarksFields(EncPreamble(s0, t.fields), t.fields, base, here, {}, {})
     [] t.k = "seqof" ->
          LET n == Len(t.v)
              inRoot == InSize(n, t) \/ ("forceRoot" \in DOMAIN t /\ t.forceRoot)      \* (forceRoot: the fault model's over-long values in root form)
              s0 == IF t.ext THEN PutBit(s, IF inRoot THEN 0 ELSE 1) ELSE s
          IN IF n >= 16384 THEN [s |-> PerEnc(s, t), m |-> here, ln |-> {}, ol |-> {}]
             ELSE IF (t.ext /\ ~inRoot) \/ ~(FixedSize(t) \/ SizeIsCW(t))
                  THEN LET s1 == PutULen(s0, n) lp == {base + PerPos(PerAlign(s0))} IN
                       IF n = 0 THEN [s |-> s1, m |-> here \cup lp, ln |-> lp, ol |-> {}]
                       ELSE MarksElems(PerAlign(s1), t.v, 1, base, here \cup lp, lp, {})
             ELSE IF FixedSize(t) THEN MarksElems(s0, t.v, 1, base, here, {}, {})
             ELSE MarksElems(PutSizeCW(s0, n, t), t.v, 1, base, here, {}, {})
     [] t.k = "choice" -> LET s0 == IF t.ext THEN PutBit(s, 0) ELSE s
                              r == PerMarks(PutCW(s0, t.idx, t.ub.n + 1), t.v, base)
                          IN [s |-> r.s, m |-> here \cup r.m, ln |-> r.ln, ol |-> r.ol]
     [] t.k = "open" -> LET inner == PerComplete(PerEnc(PerEmpty, t.v))
                            lp == {base + PerPos(PerAlign(s))}
                        IN IF Len(inner) >= 16384 THEN [s |-> EncOpen(s, t), m |-> here, ln |-> {}, ol |-> {}]
                           ELSE LET sL == PerAlign(PutULen(s, Len(inner)))
                                    r == PerMarks(PerEmpty, t.v, base + PerPos(sL))
                                IN [s |-> EncOpen(s, t), m |-> here \cup lp \cup r.m, ln |-> lp \cup r.ln, ol |-> lp \cup r.ol]
     [] t.k \in {"octstr", "bitstr"} ->
          \* the length determinant of a variable-size string (aligned when the size range needs an octet or more)
          LET s0 == IF t.ext THEN PutBit(s, 0) ELSE s IN
          [s |-> PerEnc(s, t), m |-> here, ln |-> IF FixedSize(t) THEN {} ELSE {base + PerPos(PerAlign(s0))}, ol |-> {}]
     [] t.k = "int" ->
          \* the length of a length-prefixed INTEGER: a bit-field in front of a constrained value whose range exceeds 64K (the octet holding
          \* it is marked), an aligned octet in front of a semi-constrained / unconstrained / extension value
          LET wide == t.lb.has /\ t.ub.has /\ ~(SmallNum(t.lb) /\ SmallNum(t.ub) /\ (t.ub.n - t.lb.n) < 65536)
              inRoot == (~t.lb.has \/ NumGE(t.v, t.lb)) /\ (~t.ub.has \/ NumGE(t.ub, t.v))
              s0 == IF t.ext /\ t.lb.has /\ t.ub.has THEN PutBit(s, 0) ELSE s
              lp == IF ~(t.lb.has /\ t.ub.has) \/ ~inRoot THEN {base + PerPos(PerAlign(s0))}
                    ELSE IF wide THEN {base + PerPos(s0) - (PerPos(s0) % 8)} ELSE {}
          IN [s |-> PerEnc(s, t), m |-> here, ln |-> lp, ol |-> {}]
     [] OTHER -> [s |-> PerEnc(s, t), m |-> here, ln |-> {}, ol |-> {}]
PerFieldStarts(t) == PerMarks(PerEmpty, t, 0).m
\* paths to the open type nodes of a value tree (a path: field index / element index / 0 for the value of a CHOICE or open type)
RECURSIVE OpenPaths(_, _)
RECURSIVE OpenPathsSeq(_, _, _, _)
OpenPathsSeq(vs, p, i, isFields) ==
   IF i > Len(vs) THEN <<>>
   ELSE (IF isFields THEN (IF vs[i].present THEN OpenPaths(vs[i].v, Append(p, i)) ELSE <<>>) ELSE OpenPaths(vs[i], Append(p, i)))
        \o OpenPathsSeq(vs, p, i + 1, isFields)
OpenPaths(t, p) ==
   CASE t.k = "open" -> <<p>> \o OpenPaths(t.v, Append(p, 0))
     [] t.k = "choice" -> OpenPaths(t.v, Append(p, 0))
     [] t.k = "seq" -> OpenPathsSeq(t.fields, p, 1, TRUE)
     [] t.k = "seqof" -> OpenPathsSeq(t.v, p, 1, FALSE)
     [] OTHER -> <<>>
RECURSIVE NodeAt(_, _)
NodeAt(t, p) == IF Len(p) = 0 THEN t
                ELSE CASE t.k \in {"open", "choice"} -> NodeAt(t.v, Tail(p))
                       [] t.k = "seq" -> NodeAt(t.fields[Head(p)].v, Tail(p))
                       [] t.k = "seqof" -> NodeAt(t.v[Head(p)], Tail(p))
RECURSIVE SetRawAt(_, _, _)
SetRawAt(t, p, raw) ==
   IF Len(p) = 0 THEN [k |-> "open", raw |-> raw]
   ELSE CASE t.k \in {"open", "choice"} -> [t EXCEPT !.v = SetRawAt(t.v, Tail(p), raw)]
          [] t.k = "seq" -> [t EXCEPT !.fields[Head(p)].v = SetRawAt(t.fields[Head(p)].v, Tail(p), raw)]
          [] t.k = "seqof" -> [t EXCEPT !.v[Head(p)] = SetRawAt(t.v[Head(p)], Tail(p), raw)]
PerLengthPositions(t) == PerMarks(PerEmpty, t, 0).ln
PerOpenLengthPositions(t) == PerMarks(PerEmpty, t, 0).ol

(* A BIT STRING value is its first nbits bits: the unused low-order bits of the last octet (and octets beyond it) of the Go   *)
(* representation carry no information.  PerNorm clears them, so that values can be compared as ASN.1 values.                *)
RECURSIVE PerNorm(_)
NormBits(v, n) == LET full == n \div 8 rem == n % 8 IN
                  IF rem = 0 THEN SubSeq(v, 1, full) ELSE SubSeq(v, 1, full) \o <<(v[full + 1] \div 2^(8 - rem)) * 2^(8 - rem)>>
PerNorm(t) ==
   CASE t.k = "bitstr" -> IF Len(t.v) * 8 >= t.nbits THEN [t EXCEPT !.v = NormBits(t.v, t.nbits)] ELSE t
     [] t.k = "seq" -> [t EXCEPT !.fields = Tup([i \in 1..Len(t.fields) |-> IF t.fields[i].present THEN [t.fields[i] EXCEPT !.v = PerNorm(@)] ELSE t.fields[i]])]
     [] t.k = "seqof" -> [t EXCEPT !.v = Tup([i \in 1..Len(t.v) |-> PerNorm(t.v[i])])]
     [] t.k \in {"choice", "open"} -> [t EXCEPT !.v = PerNorm(@)]
     [] OTHER -> t

(***************************************************************************)
(* Decoder.  Results: [ok |-> TRUE, v |-> value tree, p |-> next bit] or   *)
(* [ok |-> FALSE, why |-> reason, p |-> position].                         *)
(***************************************************************************)
DErr(why, p) == [ok |-> FALSE, why |-> why, p |-> p]
DOk(v, p) == [ok |-> TRUE, v |-> v, p |-> p]
NBits(bs) == Len(bs) * 8
BitAt(bs, p) == (bs[(p \div 8) + 1] \div 2^(7 - (p % 8))) % 2
RECURSIVE GetBitsR(_, _, _, _)
GetBitsR(bs, p, n, acc) == IF n = 0 THEN acc ELSE GetBitsR(bs, p + 1, n - 1, acc * 2 + BitAt(bs, p))
\* n <= 30 bits starting at p (caller checks bounds)
GetBits(bs, p, n) == GetBitsR(bs, p, n, 0)
AlignP(p) == ((p + 7) \div 8) * 8
\* n whole octets starting at bit p (not necessarily aligned)
GetOctets(bs, p, n) == IF p % 8 = 0 THEN SubSeq(bs, (p \div 8) + 1, (p \div 8) + n)
                       ELSE Tup([i \in 1..n |-> GetBits(bs, p + 8 * (i - 1), 8)])
\* nbits bits starting at p as left-justified octets with zero padding
GetBitStr(bs, p, nbits) ==
   LET full == nbits \div 8 rem == nbits % 8
       body == GetOctets(bs, p, full)
   IN IF rem = 0 THEN body ELSE body \o <<GetBits(bs, p + 8 * full, rem) * 2^(8 - rem)>>
Avail(bs, p, n) == p + n <= NBits(bs)
\* padding bits skipped by alignment must be zero (10.7: the pad bits are zero; a canonical decoder checks them)
PadZero(bs, p) == LET q == AlignP(p) IN q <= NBits(bs) /\ (q = p \/ GetBits(bs, p, q - p) = 0)

\* constrained whole number: returns [ok, v: Int offset, p]
GetCW(bs, p, r) ==
   IF r = 1 THEN DOk(0, p)
   ELSE IF r <= 255 THEN (LET n == BitsFor(r) IN
        IF ~Avail(bs, p, n) THEN DErr("truncated", p)
        ELSE LET x == GetBits(bs, p, n) IN IF x >= r THEN DErr("constrained value out of range", p) ELSE DOk(x, p + n))
   ELSE LET q == AlignP(p) n == IF r = 256 THEN 8 ELSE 16 IN
        IF ~PadZero(bs, p) THEN DErr("non-zero padding or truncated", p)
        ELSE IF ~Avail(bs, q, n) THEN DErr("truncated", q)
        ELSE LET x == GetBits(bs, q, n) IN IF x >= r THEN DErr("constrained value out of range", q) ELSE DOk(x, q + n)
\* unconstrained length: returns [ok, v: length or fragment marker, frag: BOOLEAN, p]
GetULen(bs, p) ==
   LET q == AlignP(p) IN
   IF ~PadZero(bs, p) THEN [ok |-> FALSE, why |-> "non-zero padding or truncated", p |-> p]
   ELSE IF ~Avail(bs, q, 8) THEN [ok |-> FALSE, why |-> "truncated", p |-> q]
   ELSE LET b0 == GetBits(bs, q, 8) IN
        IF b0 < 128 THEN [ok |-> TRUE, v |-> b0, frag |-> FALSE, p |-> q + 8]
        ELSE IF b0 < 192 THEN
             (IF ~Avail(bs, q, 16) THEN [ok |-> FALSE, why |-> "truncated", p |-> q]
              ELSE LET n == (b0 - 128) * 256 + GetBits(bs, q + 8, 8) IN
                   IF n < 128 THEN [ok |-> FALSE, why |-> "non-minimal length determinant", p |-> q]
                   ELSE [ok |-> TRUE, v |-> n, frag |-> FALSE, p |-> q + 16])
        ELSE IF b0 >= 193 /\ b0 <= 196 THEN [ok |-> TRUE, v |-> (b0 - 192) * 16384, frag |-> TRUE, p |-> q + 8]
        ELSE [ok |-> FALSE, why |-> "illegal fragment length octet", p |-> q]

\* numeric value node from minimal octets plus small offset or big lower bound
\* same normal form as the exporter: below 2^30 a small number, otherwise minimal octets
NumOfBytes(vb) == IF BigIsSmall(vb) /\ BigToNat(vb) < Lim THEN [n |-> BigToNat(vb)] ELSE [big |-> StripZ(vb)]
NumAdd(vb, lb) == \* value = offset octets + lb
   IF BigIsSmall(vb) /\ SmallNum(lb) /\ BigToNat(vb) < Lim /\ BigToNat(vb) + lb.n < Lim THEN [n |-> BigToNat(vb) + lb.n]
   ELSE NumOfBytes(BigAdd(vb, BN(lb)))
NumEq(a, b) == NumGE(a, b) /\ NumGE(b, a)
TwosVal(vb) == \* small twos-complement values only (up to 4 octets)
   IF vb[1] < 128 THEN NumOfBytes(vb)
   ELSE [n |-> -(BigToNat(Tup([i \in 1..Len(vb) |-> 255 - vb[i]]))) - 1]

\* collect fragmented content: units of `unit` bits each; returns [ok, n: unit count, segs: seq of [p, n], p]
RECURSIVE GetFrags(_, _, _, _, _)
GetFrags(bs, p, unit, total, segs) ==
   LET l == GetULen(bs, p) IN
   IF ~l.ok THEN [ok |-> FALSE, why |-> l.why, p |-> l.p]
   ELSE LET q == IF l.v = 0 THEN l.p ELSE AlignP(l.p) IN
        IF l.v > 0 /\ ~PadZero(bs, l.p) THEN [ok |-> FALSE, why |-> "non-zero padding or truncated", p |-> l.p]
        ELSE IF ~Avail(bs, q, l.v * unit) THEN [ok |-> FALSE, why |-> "truncated content", p |-> q]
        ELSE IF l.frag THEN GetFrags(bs, q + l.v * unit, unit, total + l.v, Append(segs, [p |-> q, n |-> l.v]))
        ELSE [ok |-> TRUE, n |-> total + l.v, segs |-> (IF l.v = 0 THEN segs ELSE Append(segs, [p |-> q, n |-> l.v])), p |-> q + l.v * unit]
RECURSIVE SegOctets(_, _)
SegOctets(bs, segs) == IF Len(segs) = 0 THEN <<>> ELSE GetOctets(bs, Head(segs).p, Head(segs).n) \o SegOctets(bs, Tail(segs))

DecIntRoot(bs, p, ty) ==
   IF ty.lb.has /\ ty.ub.has THEN
      IF SmallNum(ty.lb) /\ SmallNum(ty.ub) /\ (ty.ub.n - ty.lb.n) < 65536 THEN
         LET c == GetCW(bs, p, ty.ub.n - ty.lb.n + 1) IN IF ~c.ok THEN c ELSE DOk([n |-> c.v + ty.lb.n], c.p)
      ELSE LET d == IF SmallNum(ty.lb) /\ SmallNum(ty.ub) THEN NatBytes(ty.ub.n - ty.lb.n) ELSE BigSub(BN(ty.ub), BN(ty.lb))
               c == GetCW(bs, p, Len(d)) IN
           IF ~c.ok THEN c
           ELSE LET n == c.v + 1 q == AlignP(c.p) IN
                IF ~PadZero(bs, c.p) THEN DErr("non-zero padding or truncated", c.p)
                ELSE IF ~Avail(bs, q, 8 * n) THEN DErr("truncated integer", q)
                ELSE LET vb == GetOctets(bs, q, n) IN
                     IF n > 1 /\ vb[1] = 0 THEN DErr("non-minimal integer octets", q)
                     ELSE IF BigCmp(vb, d) > 0 THEN DErr("integer above upper bound", q)
                     ELSE DOk(NumAdd(vb, ty.lb), q + 8 * n)
   ELSE LET l == GetULen(bs, p) IN
        IF ~l.ok THEN DErr(l.why, l.p)
        ELSE IF l.frag \/ l.v = 0 THEN DErr("illegal integer length", l.p)
        ELSE IF ~Avail(bs, l.p, 8 * l.v) THEN DErr("truncated integer", l.p)
        ELSE LET vb == GetOctets(bs, l.p, l.v) IN
             IF ty.lb.has THEN (IF l.v > 1 /\ vb[1] = 0 THEN DErr("non-minimal integer octets", l.p) ELSE DOk(NumAdd(vb, ty.lb), l.p + 8 * l.v))
             ELSE IF l.v > 1 /\ ((vb[1] = 0 /\ vb[2] < 128) \/ (vb[1] = 255 /\ vb[2] >= 128)) THEN DErr("non-minimal integer octets", l.p)
             ELSE IF l.v > 4 /\ vb[1] >= 128 THEN DErr("negative integer too large for the model", l.p)
             ELSE DOk(TwosVal(vb), l.p + 8 * l.v)
DecInt(bs, p, ty) ==
   LET mk(r) == IF r.ok THEN DOk([k |-> "int", lb |-> ty.lb, ub |-> ty.ub, ext |-> ty.ext, v |-> r.v], r.p) ELSE r IN
   IF ty.ext /\ ty.lb.has /\ ty.ub.has THEN
      IF ~Avail(bs, p, 1) THEN DErr("truncated", p)
      ELSE IF BitAt(bs, p) = 0 THEN mk(DecIntRoot(bs, p + 1, ty))
      ELSE LET r == DecIntRoot(bs, p + 1, [ty EXCEPT !.lb = [has |-> FALSE], !.ub = [has |-> FALSE]]) IN
           IF r.ok /\ NumGE(r.v, ty.lb) /\ NumGE(ty.ub, r.v) THEN DErr("extension bit set for a value inside the root", p) ELSE mk(r)
   ELSE mk(DecIntRoot(bs, p, ty))

\* size of a string / list: returns [ok, fixed|cw: n, p] or frag marker "general"
DecSizeHdr(bs, p, ty) ==
   IF ty.ext THEN (IF ~Avail(bs, p, 1) THEN [ok |-> FALSE, why |-> "truncated", p |-> p]
                   ELSE [ok |-> TRUE, extbit |-> BitAt(bs, p), p |-> p + 1])
   ELSE [ok |-> TRUE, extbit |-> 0, p |-> p]

DecOctStr(bs, p0, ty) ==
   LET h == DecSizeHdr(bs, p0, ty) mk(v, p) == DOk([k |-> "octstr", lb |-> ty.lb, ub |-> ty.ub, ext |-> ty.ext, v |-> v], p) IN
   IF ~h.ok THEN DErr(h.why, h.p)
   ELSE IF h.extbit = 0 /\ FixedSize(ty) THEN
        LET n == ty.ub.n q == IF n <= 2 THEN h.p ELSE AlignP(h.p) IN
        IF n > 2 /\ ~PadZero(bs, h.p) THEN DErr("non-zero padding or truncated", h.p)
        ELSE IF ~Avail(bs, q, 8 * n) THEN DErr("truncated string", q) ELSE mk(GetOctets(bs, q, n), q + 8 * n)
   ELSE IF h.extbit = 0 /\ SizeIsCW(ty) THEN
        LET lb == IF ty.lb.has THEN ty.lb.n ELSE 0
            c == GetCW(bs, h.p, ty.ub.n - lb + 1) IN
        IF ~c.ok THEN c
        ELSE LET n == c.v + lb q == IF n = 0 THEN c.p ELSE AlignP(c.p) IN
             IF n > 0 /\ ~PadZero(bs, c.p) THEN DErr("non-zero padding or truncated", c.p)
             ELSE IF ~Avail(bs, q, 8 * n) THEN DErr("truncated string", q) ELSE mk(GetOctets(bs, q, n), q + 8 * n)
   ELSE LET f == GetFrags(bs, h.p, 8, 0, <<>>) IN
        IF ~f.ok THEN DErr(f.why, f.p)
        ELSE IF h.extbit = 1 /\ InSize(f.n, ty) THEN DErr("extension bit set for a size inside the root", p0)
        ELSE IF h.extbit = 0 /\ ~InSize(f.n, ty) THEN DErr("size outside the constraint", p0)
        ELSE mk(SegOctets(bs, f.segs), f.p)
DecBitStr(bs, p0, ty) ==
   LET h == DecSizeHdr(bs, p0, ty)
       mk(v, n, p) == DOk([k |-> "bitstr", lb |-> ty.lb, ub |-> ty.ub, ext |-> ty.ext, v |-> v, nbits |-> n], p) IN
   IF ~h.ok THEN DErr(h.why, h.p)
   ELSE IF h.extbit = 0 /\ FixedSize(ty) THEN
        LET n == ty.ub.n q == IF n <= 16 THEN h.p ELSE AlignP(h.p) IN
        IF n > 16 /\ ~PadZero(bs, h.p) THEN DErr("non-zero padding or truncated", h.p)
        ELSE IF ~Avail(bs, q, n) THEN DErr("truncated string", q) ELSE mk(GetBitStr(bs, q, n), n, q + n)
   ELSE IF h.extbit = 0 /\ SizeIsCW(ty) THEN
        LET lb == IF ty.lb.has THEN ty.lb.n ELSE 0
            c == GetCW(bs, h.p, ty.ub.n - lb + 1) IN
        IF ~c.ok THEN c
        ELSE LET n == c.v + lb q == IF n = 0 THEN c.p ELSE AlignP(c.p) IN
             IF n > 0 /\ ~PadZero(bs, c.p) THEN DErr("non-zero padding or truncated", c.p)
             ELSE IF ~Avail(bs, q, n) THEN DErr("truncated string", q) ELSE mk(GetBitStr(bs, q, n), n, q + n)
   ELSE LET f == GetFrags(bs, h.p, 1, 0, <<>>) IN
        IF ~f.ok THEN DErr(f.why, f.p)
        ELSE IF Len(f.segs) > 1 THEN DErr("fragmented bit strings are outside the modelled domain", p0)
        ELSE IF h.extbit = 1 /\ InSize(f.n, ty) THEN DErr("extension bit set for a size inside the root", p0)
        ELSE IF h.extbit = 0 /\ ~InSize(f.n, ty) THEN DErr("size outside the constraint", p0)
        ELSE mk(IF f.n = 0 THEN <<>> ELSE GetBitStr(bs, f.segs[1].p, f.n), f.n, f.p)

Resolve(types, ty) == IF ty.k = "ref" THEN types[ty.name] ELSE ty
\* the integer a reference field (a SEQUENCE wrapping an INTEGER) denotes
RECURSIVE RefInt(_)
RefInt(v) == IF v.k = "int" THEN v.v.n ELSE IF v.k = "enum" THEN v.v ELSE IF v.k = "seq" THEN RefInt(v.fields[1].v) ELSE -1
RECURSIVE FindField(_, _)
FindField(fs, name) == IF Len(fs) = 0 THEN [present |-> FALSE] ELSE IF Head(fs).name = name THEN Head(fs) ELSE FindField(Tail(fs), name)
RECURSIVE FindAlt(_, _)
FindAlt(alts, ref) == IF Len(alts) = 0 THEN [found |-> FALSE] ELSE IF Head(alts).ref = ref THEN [found |-> TRUE, a |-> Head(alts)] ELSE FindAlt(Tail(alts), ref)

RECURSIVE PerDec(_, _, _, _)
RECURSIVE DecFields(_, _, _, _, _, _)
\* fs: remaining field types; pres: remaining presence bits (for optional fields); done: decoded fields so far
DecFields(types, bs, p, fs, pres, done) ==
   IF Len(fs) = 0 THEN DOk(done, p)
   ELSE LET f == Head(fs)
            present == IF f.opt THEN Head(pres) = 1 ELSE TRUE
            pres2 == IF f.opt THEN Tail(pres) ELSE pres IN
        IF ~present THEN DecFields(types, bs, p, Tail(fs), pres2, Append(done, [name |-> f.name, opt |-> f.opt, present |-> FALSE]))
        ELSE LET fty == Resolve(types, f.t)
                 r == IF fty.k = "open"
                      THEN LET rf == FindField(done, fty.ref) IN
                           IF ~rf.present THEN DErr("open type without its reference field", p)
                           ELSE PerDec(types, bs, p, [fty EXCEPT !.ref = RefInt(rf.v)])
                      ELSE PerDec(types, bs, p, fty) IN
             IF ~r.ok THEN r
             ELSE DecFields(types, bs, r.p, Tail(fs), pres2, Append(done, [name |-> f.name, opt |-> f.opt, present |-> TRUE, v |-> r.v]))
RECURSIVE DecElems(_, _, _, _, _, _)
DecElems(types, bs, p, ety, n, done) ==
   IF n = 0 THEN DOk(done, p)
   ELSE LET r == PerDec(types, bs, p, ety) IN IF ~r.ok THEN r ELSE DecElems(types, bs, r.p, ety, n - 1, Append(done, r.v))
NOpt(fs) == Len(SelectSeq(fs, LAMBDA f : f.opt))
PerDec(types, bs, p0, ty0) ==
   LET ty == Resolve(types, ty0) IN
   CASE ty.k = "int" -> DecInt(bs, p0, ty)
     [] ty.k = "enum" ->
          LET h == IF ty.ext THEN (IF ~Avail(bs, p0, 1) THEN DErr("truncated", p0)
                                   ELSE IF BitAt(bs, p0) = 1 THEN DErr("enumeration extension values are not supported", p0) ELSE DOk(0, p0 + 1))
                   ELSE DOk(0, p0) IN
          IF ~h.ok THEN h
          ELSE LET c == GetCW(bs, h.p, ty.ub.n + 1) IN
               IF ~c.ok THEN c ELSE DOk([k |-> "enum", ub |-> ty.ub, ext |-> ty.ext, v |-> c.v], c.p)
     [] ty.k = "bool" -> IF ~Avail(bs, p0, 1) THEN DErr("truncated", p0) ELSE DOk([k |-> "bool", v |-> BitAt(bs, p0) = 1], p0 + 1)
     [] ty.k = "octstr" -> DecOctStr(bs, p0, ty)
     [] ty.k = "bitstr" -> DecBitStr(bs, p0, ty)
     [] ty.k = "seq" ->
          LET p1 == IF ty.ext THEN p0 + 1 ELSE p0
              no == NOpt(ty.fields) IN
          IF ~Avail(bs, p0, (p1 - p0) + no) THEN DErr("truncated", p0)
          ELSE IF ty.ext /\ BitAt(bs, p0) = 1 THEN DErr("sequence extension additions are not supported", p0)
          ELSE LET pres == Tup([i \in 1..no |-> BitAt(bs, p1 + i - 1)])
                   r == DecFields(types, bs, p1 + no, ty.fields, pres, <<>>) IN
               IF ~r.ok THEN r ELSE DOk([k |-> "seq", ext |-> ty.ext, fields |-> r.v], r.p)
     [] ty.k = "seqof" ->
          LET h == DecSizeHdr(bs, p0, ty)
              mk(r) == IF r.ok THEN DOk([k |-> "seqof", lb |-> ty.lb, ub |-> ty.ub, ext |-> ty.ext, v |-> r.v], r.p) ELSE r IN
          IF ~h.ok THEN DErr(h.why, h.p)
          ELSE IF h.extbit = 0 /\ FixedSize(ty) THEN mk(DecElems(types, bs, h.p, ty.t, ty.ub.n, <<>>))
          ELSE IF h.extbit = 0 /\ SizeIsCW(ty) THEN
               LET lb == IF ty.lb.has THEN ty.lb.n ELSE 0
                   c == GetCW(bs, h.p, ty.ub.n - lb + 1) IN
               IF ~c.ok THEN c ELSE mk(DecElems(types, bs, c.p, ty.t, c.v + lb, <<>>))
          ELSE LET l == GetULen(bs, h.p) IN
               IF ~l.ok THEN DErr(l.why, l.p)
               ELSE IF l.frag THEN DErr("fragmented SEQUENCE OF is outside the modelled domain", p0)
               ELSE IF h.extbit = 1 /\ InSize(l.v, ty) THEN DErr("extension bit set for a size inside the root", p0)
               ELSE IF h.extbit = 0 /\ ~InSize(l.v, ty) THEN DErr("size outside the constraint", p0)
               ELSE mk(DecElems(types, bs, l.p, ty.t, l.v, <<>>))
     [] ty.k = "choice" ->
          LET p1 == IF ty.ext THEN p0 + 1 ELSE p0 IN
          IF ~Avail(bs, p0, p1 - p0) THEN DErr("truncated", p0)
          ELSE IF ty.ext /\ BitAt(bs, p0) = 1 THEN DErr("choice extension alternatives are not supported", p0)
          ELSE LET c == GetCW(bs, p1, ty.ub.n + 1) IN
               IF ~c.ok THEN c
               ELSE IF c.v + 1 > Len(ty.alts) THEN DErr("choice index without alternative", p1)
               ELSE LET r == PerDec(types, bs, c.p, ty.alts[c.v + 1].t) IN
                    IF ~r.ok THEN r ELSE DOk([k |-> "choice", ub |-> ty.ub, ext |-> ty.ext, idx |-> c.v, v |-> r.v], r.p)
     [] ty.k = "open" ->
          LET f == GetFrags(bs, p0, 8, 0, <<>>) IN
          IF ~f.ok THEN DErr(f.why, f.p)
          ELSE IF f.n = 0 THEN DErr("empty open type", p0)
          ELSE LET a == FindAlt(ty.alts, ty.ref) IN
               IF ~a.found THEN DErr("no open type alternative for reference value " \o ToString(ty.ref), p0)
               ELSE LET inner == SegOctets(bs, f.segs)
                        r == PerDec(types, inner, 0, a.a.t) IN
                    IF ~r.ok THEN DErr("in open type: " \o r.why, p0)
                    ELSE IF AlignP(r.p) # NBits(inner) /\ ~(r.p = 0 /\ inner = <<0>>) THEN DErr("open type content has trailing octets", p0)
                    ELSE IF ~PadZero(inner, r.p) THEN DErr("non-zero padding in open type", p0)
                    ELSE DOk([k |-> "open", ref |-> ty.ref, altref |-> a.a.ref, v |-> r.v], f.p)
     [] OTHER -> DErr("unknown type kind", p0)
\* complete decoding of a PDU: the whole input must be consumed up to zero padding in the last octet
PerDecode(types, bs, ty) ==
   LET r == PerDec(types, bs, 0, ty) IN
   IF ~r.ok THEN r
   ELSE IF AlignP(r.p) # NBits(bs) /\ ~(r.p = 0 /\ bs = <<0>>) THEN DErr("trailing octets", r.p)
   ELSE IF ~PadZero(bs, r.p) THEN DErr("non-zero padding at the end", r.p)
   ELSE r
=============================================================================
