---------------------------- MODULE TraceMilenage ----------------------------
(***************************************************************************)
(* C15: the milenage library against TS 35.206 (module Milenage) and the   *)
(* USIM-side acceptance rule.  Demanded of a check:                        *)
(*   MAC ok and SQN fresh   -> 0 with RES, CK, IK                          *)
(*   MAC ok and SQN stale   -> -2 with an AUTS the network accepts and     *)
(*                             that yields SQNms                           *)
(*   MAC bad and SQN fresh  -> -1                                          *)
(*   MAC bad and SQN stale  -> -1 or -2 (the property does not say which)  *)
(***************************************************************************)
EXTENDS TraceBase, Milenage
VARIABLES l, bad

ExplainF(e) ==
   LET opc == MilOPc(e.k, e.op) IN
   FirstBad(<< <<~e.err, "an f-function returned an error or panicked">>,
               <<"intact" \notin DOMAIN e \/ e.intact, "a buffer of the caller (K, OP, RAND, SQN, AMF or an OPc returned earlier) was modified by the call">>,
               <<e.opc = opc, "OPc differs: expected " \o Str(opc)>>,
               <<e.macA = MilF1(e.k, opc, e.rand, e.sqn, e.amf), "f1 (MAC-A) differs">>,
               <<e.macS = MilF1Star(e.k, opc, e.rand, e.sqn, e.amf), "f1* (MAC-S) differs">>,
               <<e.res = MilF2(e.k, opc, e.rand), "f2 (RES) differs">>,
               <<e.ck = MilF3(e.k, opc, e.rand), "f3 (CK) differs">>,
               <<e.ik = MilF4(e.k, opc, e.rand), "f4 (IK) differs">>,
               <<e.ak = MilF5(e.k, opc, e.rand), "f5 (AK) differs">>,
               <<e.akStar = MilF5Star(e.k, opc, e.rand), "f5* (AK*) differs">> >>)
\* a subset of the outputs of f2..f5* requested in one call (bit j of mask: RES, CK, IK, AK, AK*)
Bit(m, j) == (m \div 2^j) % 2 = 1
ExplainFsub(e) ==
   FirstBad(<< <<~e.err, "f2345 returned an error or panicked for a subset of its outputs">>,
               <<~Bit(e.mask, 0) \/ e.res = MilF2(e.k, e.opc, e.rand), "f2 (RES) differs when outputs " \o Str(e.mask) \o " are requested">>,
               <<~Bit(e.mask, 1) \/ e.ck = MilF3(e.k, e.opc, e.rand), "f3 (CK) differs when outputs " \o Str(e.mask) \o " are requested">>,
               <<~Bit(e.mask, 2) \/ e.ik = MilF4(e.k, e.opc, e.rand), "f4 (IK) differs when outputs " \o Str(e.mask) \o " are requested">>,
               <<~Bit(e.mask, 3) \/ e.ak = MilF5(e.k, e.opc, e.rand), "f5 (AK) differs when outputs " \o Str(e.mask) \o " are requested">>,
               <<~Bit(e.mask, 4) \/ e.akStar = MilF5Star(e.k, e.opc, e.rand), "f5* (AK*) differs when outputs " \o Str(e.mask) \o " are requested">> >>)
ExplainGen(e) ==
   FirstBad(<< <<~e.err /\ e.resLen = 8, "generation failed">>,
               <<e.autn = MilAutn(e.k, e.opc, e.rand, e.sqn, e.amf), "AUTN differs from (SQN xor AK) || AMF || MAC-A">>,
               <<e.res = MilF2(e.k, e.opc, e.rand) /\ e.ck = MilF3(e.k, e.opc, e.rand) /\ e.ik = MilF4(e.k, e.opc, e.rand)
                   /\ e.ak = MilF5(e.k, e.opc, e.rand), "RES/CK/IK/AK differ">> >>)
ExplainCheck(e) ==
   LET c == UsimCheck(e.k, e.opc, e.rand, e.autn, e.sqnMs) IN
   IF e.panic THEN No("AUTN check panicked")
   ELSE IF c.macOk /\ c.fresh THEN
      FirstBad(<< <<e.ret = 0, "valid AUTN with fresh SQN not accepted (returned " \o Str(e.ret) \o ")">>,
                  <<e.res = c.res /\ e.ck = c.ck /\ e.ik = c.ik, "accepted but RES/CK/IK differ">> >>)
   ELSE IF c.macOk /\ ~c.fresh THEN
      LET a == AutsCheck(e.k, e.opc, e.rand, e.auts) IN
      FirstBad(<< <<e.ret = -2, "valid MAC with SQN not greater than the UE's must ask for resynchronisation (returned " \o Str(e.ret) \o ")">>,
                  <<a.ok, "resynchronisation token is not accepted by the network-side check">>,
                  <<a.sqnms = e.sqnMs, "resynchronisation token does not yield the UE's SQN">> >>)
   ELSE IF c.fresh THEN
      FirstBad(<< <<e.ret = -1, "AUTN with wrong MAC-A was not rejected as a MAC failure (returned " \o Str(e.ret) \o ")">> >>)
   ELSE FirstBad(<< <<e.ret \in {-1, -2}, "AUTN with wrong MAC-A accepted (returned " \o Str(e.ret) \o ")">> >>)
ExplainAuts(e) ==
   LET a == AutsCheck(e.k, e.opc, e.rand, e.auts) IN
   IF e.panic THEN No("AUTS check panicked")
   ELSE IF a.ok THEN FirstBad(<< <<e.ret = 0, "valid AUTS rejected">>, <<e.sqn = a.sqnms, "AUTS accepted but SQNms differs">> >>)
   ELSE FirstBad(<< <<e.ret = -1, "AUTS with wrong MAC-S accepted">> >>)
Explain(e) ==
   CASE e.ev = "F" -> ExplainF(e)
     [] e.ev = "Fsub" -> ExplainFsub(e)
     [] e.ev = "Gen" -> ExplainGen(e)
     [] e.ev = "Check" -> ExplainCheck(e)
     [] e.ev = "Auts" -> ExplainAuts(e)
     [] e.ev = "Held" -> HeldVerdict(e)
     [] OTHER -> No("no action of the specification matches this event")

Init == l = 1 /\ bad = 0
Next == /\ l <= Len(Trace)
        /\ \E r \in {Explain(Trace[l])} : LET e == Trace[l] IN     \* bound once (TLC evaluates an action-level LET at every use)
             /\ Report(l, e, r)
             /\ bad' = bad + (IF r.ok THEN 0 ELSE 1)
        /\ l' = l + 1
Consumed == TLCGet("stats").diameter - 1 = Len(Trace)
=============================================================================
