---------------------------- MODULE TraceConvert ----------------------------
(***************************************************************************)
(* C11 and C17: identity and conversion helpers against the 3GPP encodings *)
(* (module Identity; TS 24.501 9.11.2.8 S-NSSAI; TS 23.003 AMF identifier; *)
(* TS 38.414 transport layer address; TS 24.008 10.5.6.3 protocol          *)
(* configuration options, parsed here by an explicit three-state machine). *)
(***************************************************************************)
EXTENDS TraceBase, Ngap, Identity, FiniteSets
VARIABLES l, bad

D(a) == DigitsOfAscii(a)
\* ---- C11 -------------------------------------------------------------------------------------------------------
RowComplaints(e) ==
   UNION { LET mnc == D(e.mncs[i]) mcc == D(e.mcc) msin == D(e.msins[i])
               sd == SuciDecode(e.sucis[i])
               who == "MCC " \o Str(mcc) \o " MNC " \o Str(mnc) \o ": " IN
           IF e.panics[i] THEN {who \o "panic"}
           ELSE (IF sd.ok /\ sd.mcc = mcc /\ sd.mnc = mnc /\ sd.msin = msin THEN {}
                 ELSE {who \o "an independent decoder does not recover MCC/MNC/MSIN from the SUCI " \o Str(e.sucis[i])})
                \cup (IF e.lens[i][1] = Len(e.sucis[i]) THEN {} ELSE {who \o "length field of the mobile identity differs from its contents"})
                \cup (IF e.sucis[i] = SuciEncode(mcc, mnc, msin) THEN {} ELSE {who \o "SUCI octets differ from the null-scheme SUCI of TS 24.501 9.11.3.4"})
                \cup (IF e.plmnNas[i] = PlmnOctets(mcc, mnc) THEN {} ELSE {who \o "library PLMN conversion differs from the 3-octet PLMN encoding"})
                \cup (IF SubSeq(e.sucis[i], 2, 4) = e.plmnNas[i] THEN {} ELSE {who \o "PLMN taken from the SUCI disagrees with the library's PLMN conversion"})
         : i \in 1..Len(e.mncs) }
WireComplaints(e) ==
   IF e.panic THEN {"panic"}
   ELSE LET s == NgapDecode(e.setup) u == NgapDecode(e.iue) want == PlmnOctets(D(e.mcc), D(e.mnc)) IN
        IF ~s.ok \/ ~u.ok THEN {"NG Setup / InitialUEMessage not decodable"}
        ELSE (IF UNION {Plmns(IeVal(PduIEs(s.v)[i])) : i \in 1..Len(PduIEs(s.v))} = {want} THEN {} ELSE {"PLMN announced in NG Setup is not the encoding of the configured MCC/MNC"})
             \cup (IF UNION {Plmns(IeVal(PduIEs(u.v)[i])) : i \in 1..Len(PduIEs(u.v))} = {want} THEN {} ELSE {"PLMN in user location information is not the one announced"})
\* ---- C17 -------------------------------------------------------------------------------------------------------
SnssaiComplaints(e) ==
   IF e.panic THEN {"panic"}
   ELSE IF e.out = (IF Len(e.sd) = 0 THEN <<1, e.sst>> ELSE <<4, e.sst>> \o e.sd) THEN {} ELSE {"S-NSSAI contents differ from length | SST | SD"}
AmfIdComplaints(e) ==
   {"AMF id " \o Str(<<e.b0, e.b1, i - 1>>) \o " does not split into region(8) | set(10) | pointer(6)" :
      i \in {x \in 1..256 : ~(e.regions[x] = e.b0 /\ e.sets[x] = e.b1 * 4 + ((x - 1) \div 64) /\ e.pointers[x] = (x - 1) % 64)}}
TlaComplaints(e) ==
   LET want == e.v4 \o e.v6 IN
   (IF e.panicTo THEN {"address to NGAP conversion panicked"} ELSE {})
   \cup (IF e.panicBack THEN {"NGAP to address conversion panicked (mode " \o Str(e.mode) \o ")"} ELSE {})
   \cup (IF ~e.panicTo /\ (e.bytes # want \/ e.nbits # 8 * Len(want)) THEN {"transport layer address is not the TS 38.414 bit string"} ELSE {})
   \cup (IF ~e.panicTo /\ ~e.panicBack /\ (e.back4 # e.v4 \/ e.back6 # e.v6) THEN {"conversion back does not return the original address(es)"} ELSE {})
\* protocol configuration options: explicit parser state machine
RECURSIVE PcoMarshal(_, _, _)
PcoMarshal(ids, cs, i) == IF i > Len(ids) THEN <<>> ELSE BE(ids[i], 2) \o <<Len(cs[i])>> \o cs[i] \o PcoMarshal(ids, cs, i + 1)
RECURSIVE PcoRun(_, _, _, _, _, _)
\* st: "id" | "len" | "content"; returns [ok, ids, contents]
PcoRun(b, p, st, cur, ids, cs) ==
   IF st = "id" THEN (IF p > Len(b) THEN [ok |-> TRUE, ids |-> ids, contents |-> cs]
                      ELSE IF p + 1 > Len(b) THEN [ok |-> FALSE, ids |-> ids, contents |-> cs]
                      ELSE PcoRun(b, p + 2, "len", [id |-> b[p] * 256 + b[p + 1], n |-> 0], ids, cs))
   ELSE IF st = "len" THEN (IF p > Len(b) THEN [ok |-> FALSE, ids |-> ids, contents |-> cs]
                            ELSE PcoRun(b, p + 1, "content", [cur EXCEPT !.n = b[p]], ids, cs))
   ELSE IF p + cur.n - 1 > Len(b) THEN [ok |-> FALSE, ids |-> ids, contents |-> cs]
        ELSE PcoRun(b, p + cur.n, "id", cur, Append(ids, cur.id), Append(cs, SubSeq(b, p, p + cur.n - 1)))
PcoComplaints(e) ==
   LET want == <<128>> \o PcoMarshal(e.ids, e.contents, 1)
       parsed == PcoRun(e.bytes, 2, "id", [id |-> 0, n |-> 0], <<>>, <<>>) IN
   IF e.panic THEN {"PCO conversion panicked"}
   ELSE (IF e.bytes = want THEN {} ELSE {"PCO octets differ from TS 24.008 10.5.6.3"})
        \cup (IF ~e.err /\ parsed.ok /\ e.backIds = parsed.ids /\ e.backContents = parsed.contents /\ parsed.ids = e.ids /\ parsed.contents = e.contents THEN {}
              ELSE {"parsing the marshalled options does not return the original container list"})
\* the helper constructors: DNS server IPv4 / IPv6 address request (000D, 0003), IP address allocation via NAS signalling (000A), DNS
\* server IPv4 / IPv6 address (000D with 4, 0003 with 16 octets), IPv4 link MTU (0010, two octets) - TS 24.008 table 10.5.154
PcoHelperComplaints(e) ==
   LET want == <<128>> \o PcoMarshal(<<13, 3, 10, 13, 3, 16>>, << <<>>, <<>>, <<>>, e.ip4, e.ip6, <<e.mtu \div 256, e.mtu % 256>> >>, 1) IN
   IF e.panic \/ e.err THEN {"a PCO helper constructor failed"}
   ELSE IF e.bytes = want THEN {} ELSE {"the option list built by the helper constructors is " \o ToString(e.bytes) \o ", TS 24.008 10.5.6.3 gives " \o ToString(want)}
PcoDnsComplaints(e) ==
   LET want == <<128>> \o PcoMarshal(<<13, 13, 3, 3>>, << e.ip4, e.ip4b, e.ip6, e.ip6b >>, 1) IN
   IF e.panic \/ e.err THEN {"a PCO helper constructor failed"}
   ELSE IF e.bytes = want THEN {} ELSE {"primary and secondary DNS servers: the option list is " \o ToString(e.bytes) \o ", TS 24.008 10.5.6.3 gives " \o ToString(want)}
DnnComplaints(e) ==
   IF e.panic THEN {"panic"}
   ELSE (IF e.bytes = <<Len(e.in)>> \o e.in THEN {} ELSE {"DNN is not length | value"}) \cup (IF e.back = e.in THEN {} ELSE {"DNN round trip differs"})

Complaints(e) == CASE e.ev = "PlmnRow" -> RowComplaints(e)
                   [] e.ev = "PcoHelpers" -> PcoHelperComplaints(e)
                   [] e.ev = "PcoDns" -> PcoDnsComplaints(e)
                   [] e.ev = "WirePlmn" -> WireComplaints(e)
                   [] e.ev = "Snssai" -> SnssaiComplaints(e)
                   [] e.ev = "AmfIdRow" -> AmfIdComplaints(e)
                   [] e.ev = "Tla" -> TlaComplaints(e)
                   [] e.ev = "Pco" -> PcoComplaints(e)
                   [] e.ev = "Dnn" -> DnnComplaints(e)
                   [] e.ev = "Held" -> (IF HeldVerdict(e).ok THEN {} ELSE {HeldVerdict(e).why})
                   [] OTHER -> {"no action of the specification matches this event"}
Explain(e) == LET c == Complaints(e) IN IF c = {} THEN Ok ELSE No(Str(CHOOSE x \in c : TRUE) \o (IF Cardinality(c) > 1 THEN " (+" \o Str(Cardinality(c) - 1) \o " more)" ELSE ""))

Init == l = 1 /\ bad = 0
Next == /\ l <= Len(Trace)
        /\ \E r \in {Explain(Trace[l])} : LET e == Trace[l] IN     \* bound once (TLC evaluates an action-level LET at every use)
             /\ Report(l, e, r)
             /\ bad' = bad + (IF r.ok THEN 0 ELSE 1)
        /\ l' = l + 1
Consumed == TLCGet("stats").diameter - 1 = Len(Trace)
=============================================================================
