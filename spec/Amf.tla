-------------------------------- MODULE Amf --------------------------------
(***************************************************************************)
(* Layer 4a: the conformant AMF/SMF of the system specification, concrete  *)
(* (bytes on the N2 association).  It decodes every uplink message with    *)
(* Per/Ngap/Nas24501, checks it with the acceptance predicates of C01/C02, *)
(* and builds its downlink messages with the specification's own encoders  *)
(* and security functions.  Nothing here uses the code under test.         *)
(*                                                                         *)
(* Environment assumptions (the AMF family modelled, cf. DESIGN 2.3):      *)
(*  A1 5G-AKA without a preceding Identity Request; null-scheme SUCI.       *)
(*  A2 after Registration Complete the AMF sends a Configuration Update    *)
(*     Command (as open5GS / free5GC do; the emulator reads one message).  *)
(*  A3 an InitialUEMessage carrying a Service Request on a RAN-UE-NGAP-ID  *)
(*     whose UE-associated connection is still up is tolerated and served  *)
(*     (the emulator does not release the connection first).               *)
(*  A4 the AMF answers a PDU SESSION RELEASE REQUEST with a PDU Session    *)
(*     Resource Release Command that the emulator never reads; de-         *)
(*     registration is answered by Deregistration Accept followed by UE    *)
(*     Context Release Command.                                            *)
(* State of the AMF: [ues: Seq(UE context), ngSetup: BOOLEAN, n: number of *)
(* UE contexts created].  A UE context:                                    *)
(*   [u, ran, amfId, st, supi (digits), rand, autn, xres, kamf, sec: NasSec *)
(*    state (ul = COUNT of the last accepted uplink message or -1, dl =    *)
(*    next downlink COUNT), capab (replayed UE security capability),       *)
(*    sess ("none" | "setup" | "active" | "releasing" | "released"), psi,  *)
(*    await: set of NGAP responses the AMF is waiting for]                 *)
(***************************************************************************)
EXTENDS Ngap, Nas24501, Identity, Milenage
CONSTANT ScenarioPath
\* the scenario record: cfg (what the emulator was configured with), ues (the AMF's choices per UE), fault
Scn == JsonDeserialize(ScenarioPath)

CMac(alg, key, count, b, d, m) == Nia(alg, key, BE(count, 4), b, d, <<m[1]>> \o m[2])
CCipher(alg, key, count, b, d, msg) == Nea(alg, key, BE(count, 4), b, d, msg)
S == INSTANCE NasSec WITH SqnMod <- 256, OvfMod <- 65536, Cipher <- CCipher, Mac <- CMac
SecWire(pdu) == <<126, pdu.hdr>> \o pdu.mac \o <<pdu.sqn>> \o pdu.body
SecParse(b) == [hdr |-> b[2] % 16, mac |-> SubSeq(b, 3, 6), sqn |-> b[7], body |-> SubSeq(b, 8, Len(b))]

Cfg == Scn.cfg
CfgMcc == DigitsOfAscii(Cfg.mcc)
CfgMnc == DigitsOfAscii(Cfg.mnc)
CfgPlmn == PlmnOctets(CfgMcc, CfgMnc)
CfgImsi == DigitsOfAscii(Cfg.imsi)
Choice(u) == Scn.ues[u]                      \* the AMF's choices for the u-th UE it meets
OpcOf == IF Len(Cfg.opc) = 0 THEN MilOPc(Cfg.k, Cfg.op) ELSE Cfg.opc
NumOf(x) == x                                \* numbers travel as [n |-> ..] / [big |-> ..] records

\* ------------------------------------------------------------------------------------------------------------------
\* downlink NAS messages (plain), built with the TS 24.501 tables
\* ------------------------------------------------------------------------------------------------------------------
Opts(s) == SelectSeq(s, LAMBDA o : o.iei >= 0)          \* entries with iei -1 are "absent"
OptIf(c, iei, v) == IF c THEN [iei |-> iei, v |-> v] ELSE [iei |-> -1, v |-> <<>>]
NasAuthReq(ch) ==
   LET autn == MilAutn(Cfg.k, OpcOf, ch.rand, ch.sqn, ch.amfField) IN
   Mk5GMM("AuthenticationRequest", << <<ch.ngksi>>, <<0, 0>> >>, << [iei |-> 33, v |-> ch.rand], [iei |-> 32, v |-> autn] >>)
NasSmc(ch, capab) ==
   Mk5GMM("SecurityModeCommand", << <<ch.encAlg * 16 + ch.intAlg>>, <<ch.ngksi>>, capab >>,
          Opts(<< OptIf(ch.optIEs >= 1, 224, <<1>>), OptIf(ch.optIEs >= 2, 54, <<2>>) >>))
Guti(ch) == <<242>> \o CfgPlmn \o <<202, 254, 0>> \o ch.tmsi
NasRegAccept(ch) ==
   Mk5GMM("RegistrationAccept", << <<1>> >>,
          Opts(<< [iei |-> 119, v |-> Guti(ch)],
                  OptIf(ch.optIEs >= 1, 84, <<0>> \o CfgPlmn \o <<0, 0, 1>>),
                  OptIf(ch.optIEs >= 1, 21, <<4, 1, 1, 2, 3>>),
                  OptIf(ch.optIEs >= 2, 33, <<1, 0>>),
                  OptIf(ch.optIEs >= 2, 94, <<30>>),
                  OptIf(ch.optIEs >= 2, 22, <<44>>) >>))
NasCfgUpdate(ch) ==
   Mk5GMM("ConfigurationUpdateCommand", <<>>, Opts(<< OptIf(ch.optIEs >= 1, 208, <<1>>), OptIf(ch.optIEs >= 2, 67, <<128, 65, 66>>) >>))
\* PDU SESSION ESTABLISHMENT ACCEPT (8.3.2) with an IPv4 PDU address; ies = the set of optional IEIs to include besides the
\* PDU address (89 5GSM cause, 86 RQ timer, 34 S-NSSAI, 128 always-on indication, 117 mapped EPS bearer contexts, 120 EAP message,
\* 121 authorized QoS flow descriptions, 123 extended PCO, 37 DNN); the encoder puts them in table order
\* a choice of the SMF when the scenario names it, else the usual value
Pick(ch, f, dflt) == IF f \in DOMAIN ch THEN ch[f] ELSE dflt
NasPduAcceptIes(ch, psi, pti, ies) ==
   Mk5GSM("PDUSessionEstablishmentAccept", psi, pti,
          << <<Pick(ch, "sel", 17)>>, ch.qosRules, Pick(ch, "ambr", <<6, 0, 1, 6, 0, 1>>) >>,
          Opts(<< OptIf(89 \in ies, 89, <<Pick(ch, "cause", 36)>>),
                  [iei |-> 41, v |-> <<1>> \o ch.ip],
                  OptIf(86 \in ies, 86, <<Pick(ch, "rq", 32)>>),
                  OptIf(34 \in ies, 34, (IF Len(Cfg.sd) = 3 THEN <<Cfg.sst>> \o Cfg.sd ELSE <<Cfg.sst>>)),
                  OptIf(128 \in ies, 128, <<1>>),
                  OptIf(117 \in ies, 117, <<1, 5, 0, 3, 1, 2, 3>>),
                  OptIf(120 \in ies, 120, <<3, 1, 0, 4>>),
                  OptIf(121 \in ies, 121, ch.qosFlows),
                  OptIf(123 \in ies, 123, <<128, 0, 13, 4, 8, 8, 8, 8>>),
                  OptIf(37 \in ies, 37, <<8, 105, 110, 116, 101, 114, 110, 101, 116>>) >>))
NasPduAccept(ch, psi, pti) ==
   NasPduAcceptIes(ch, psi, pti, IF ch.smOpt = 0 THEN {} ELSE IF ch.smOpt = 1 THEN {89, 34, 37} ELSE {89, 86, 34, 128, 121, 123, 37})
NasDlTransport(inner, psi) ==
   Mk5GMM("DLNASTransport", << <<1>>, inner >>, << [iei |-> 18, v |-> <<psi>>] >>)
NasPduReleaseCommand(psi, pti) == Mk5GSM("PDUSessionReleaseCommand", psi, pti, << <<36>> >>, <<>>)
NasServiceAccept(ch) == Mk5GMM("ServiceAccept", <<>>, Opts(<< OptIf(ch.optIEs >= 1, 80, <<0, 0>>) >>))
NasDeregAccept == Mk5GMM("DeregistrationAcceptUEOriginatingDeregistration", <<>>, <<>>)

\* ------------------------------------------------------------------------------------------------------------------
\* downlink NGAP messages
\* ------------------------------------------------------------------------------------------------------------------
IeR(id, crit, alt, v) == [id |-> id, crit |-> crit, alt |-> alt, v |-> v]
IdIes(c) == << IeR(10, 0, "AMFUENGAPID", [Value |-> c.amfId]), IeR(85, 0, "RANUENGAPID", [Value |-> c.ran]) >>
Bits(v, n) == [v |-> v, nbits |-> n]
GuamiV == [PLMNIdentity |-> [Value |-> CfgPlmn], AMFRegionID |-> [Value |-> Bits(<<202>>, 8)],
           AMFSetID |-> [Value |-> Bits(<<254, 0>>, 10)], AMFPointer |-> [Value |-> Bits(<<0>>, 6)]]
SnssaiV == IF Len(Cfg.sd) = 3 THEN [SST |-> [Value |-> <<Cfg.sst>>], SD |-> [Value |-> Cfg.sd]] ELSE [SST |-> [Value |-> <<Cfg.sst>>]]
\* an AMF may serve several PLMNs (scenario option amfOtherPlmnFirst): another PLMN is then listed in front of the gNB's in the served
\* GUAMI list and in the PLMN support list; the gNB keeps announcing its own PLMN
OtherPlmn == <<153, 249, 153>>
\* amfOtherPlmn: 0 = only the gNB's PLMN, 1 = another PLMN listed in front of it, 2 = another PLMN listed behind it
OtherMode == IF "amfOtherPlmn" \in DOMAIN Scn THEN Scn.amfOtherPlmn ELSE IF "amfOtherPlmnFirst" \in DOMAIN Scn /\ Scn.amfOtherPlmnFirst THEN 1 ELSE 0
OtherFirst == OtherMode = 1
OtherLast == OtherMode = 2
OtherGuami == [GUAMI |-> [GuamiV EXCEPT !.PLMNIdentity = [Value |-> OtherPlmn]], BackupAMFName |-> [Value |-> <<65, 77, 70, 45, 50>>]]
PlmnSupportItem(pl) == [PLMNIdentity |-> [Value |-> pl], SliceSupportList |-> [List |-> << [SNSSAI |-> SnssaiV] >>]]
NgSetupResponse ==
   NgapPdu(1, Proc.NGSetup, 0, "NGSetupResponse",
      \* (the AMF's name is its own business: "AMF", or - scenario field amfName - any PrintableString of 1..150 characters, blanks and
      \* the symbols ' ( ) + , - . / : = ? included)
      << IeR(1, 0, "AMFName", [Value |-> IF "amfName" \in DOMAIN Scn /\ Len(Scn.amfName) > 0 THEN Scn.amfName ELSE <<65, 77, 70>>]),
         IeR(96, 0, "ServedGUAMIList", [List |-> (IF OtherFirst THEN << OtherGuami >> ELSE <<>>) \o << [GUAMI |-> GuamiV] >>
                                                  \o (IF OtherLast THEN << OtherGuami >> ELSE <<>>)]),
         IeR(86, 1, "RelativeAMFCapacity", [Value |-> [n |-> 255]]),
         IeR(80, 0, "PLMNSupportList", [List |-> (IF OtherFirst THEN << PlmnSupportItem(OtherPlmn) >> ELSE <<>>) \o << PlmnSupportItem(CfgPlmn) >>
                                                  \o (IF OtherLast THEN << PlmnSupportItem(OtherPlmn) >> ELSE <<>>)]) >>)
\* the plain form and, for a UE whose context exists, the form with the optional IEs of TS 38.413 9.2.5.2 (RAN paging priority before
\* the NAS-PDU; mobility restriction list, index to RAT/frequency selection priority, UE-AMBR, allowed NSSAI behind it)
DlNasTransport(c, nas) ==
   NgapPdu(0, Proc.DownlinkNASTransport, 1, "DownlinkNASTransport", IdIes(c) \o << IeR(38, 0, "NASPDU", [Value |-> nas]) >>)
DlNasTransportOpt(c, ch, nas) ==
   IF ch.optIEs < 2 THEN DlNasTransport(c, nas)
   ELSE NgapPdu(0, Proc.DownlinkNASTransport, 1, "DownlinkNASTransport",
           IdIes(c) \o << IeR(48, 0, "OldAMF", [Value |-> <<79, 76, 68>>]),
                          IeR(83, 1, "RANPagingPriority", [Value |-> [n |-> 256]]),
                          IeR(38, 0, "NASPDU", [Value |-> nas]),
                          IeR(36, 1, "MobilityRestrictionList", [ServingPLMN |-> [Value |-> CfgPlmn]]),
                          IeR(31, 1, "IndexToRFSP", [Value |-> [n |-> 256]]),
                          IeR(110, 1, "UEAggregateMaximumBitRate", [UEAggregateMaximumBitRateDL |-> [Value |-> ch.ambrDl], UEAggregateMaximumBitRateUL |-> [Value |-> ch.ambrUl]]),
                          IeR(0, 0, "AllowedNSSAI", [List |-> << [SNSSAI |-> SnssaiV] >>]) >>)
UeSecCapV == [NRencryptionAlgorithms |-> [Value |-> Bits(<<224, 0>>, 16)], NRintegrityProtectionAlgorithms |-> [Value |-> Bits(<<224, 0>>, 16)],
              EUTRAencryptionAlgorithms |-> [Value |-> Bits(<<224, 0>>, 16)], EUTRAintegrityProtectionAlgorithms |-> [Value |-> Bits(<<224, 0>>, 16)]]
\* PDU session resource setup request transfer: aggregate bit rate, UL tunnel, type, one QoS flow
SetupRequestTransfer(ch) ==
   PerEncode(Build(NgapSchema.transfers["PDUSessionResourceSetupRequestTransfer"],
      [ProtocolIEs |-> [List |-> (IF ch.withAmbr THEN
            << [Id |-> [Value |-> [n |-> 130]], Criticality |-> [Value |-> 0],
                Value |-> [alt |-> "PDUSessionAggregateMaximumBitRate",
                           v |-> [PDUSessionAggregateMaximumBitRateDL |-> [Value |-> ch.ambrDl], PDUSessionAggregateMaximumBitRateUL |-> [Value |-> ch.ambrUl]]]] >>
            ELSE <<>>) \o
         << [Id |-> [Value |-> [n |-> 139]], Criticality |-> [Value |-> 0],
             Value |-> [alt |-> "ULNGUUPTNLInformation",
                        v |-> [alt |-> "GTPTunnel", v |-> [TransportLayerAddress |-> [Value |-> Bits(ch.upf, 32)], GTPTEID |-> [Value |-> ch.teid]]]]],
            [Id |-> [Value |-> [n |-> 134]], Criticality |-> [Value |-> 0], Value |-> [alt |-> "PDUSessionType", v |-> [Value |-> 0]]],
            [Id |-> [Value |-> [n |-> 136]], Criticality |-> [Value |-> 0],
             Value |-> [alt |-> "QosFlowSetupRequestList",
                        v |-> [List |-> << [QosFlowIdentifier |-> [Value |-> [n |-> 1]],
                                           QosFlowLevelQosParameters |->
                                              [QosCharacteristics |-> [alt |-> "NonDynamic5QI", v |-> [FiveQI |-> [Value |-> [n |-> 9]]]],
                                               AllocationAndRetentionPriority |-> [PriorityLevelARP |-> [Value |-> [n |-> 8]],
                                                                                   PreEmptionCapability |-> [Value |-> 0],
                                                                                   PreEmptionVulnerability |-> [Value |-> 0]]]] >>]]] >>]]))
SetupItem(ch, psi, nas) == [PDUSessionID |-> [Value |-> [n |-> psi]], PDUSessionNASPDU |-> [Value |-> nas], SNSSAI |-> SnssaiV,
                            PDUSessionResourceSetupRequestTransfer |-> SetupRequestTransfer(ch)]
\* optional IE a conformant AMF may add (TS 38.413 9.2.1.1): RAN Paging Priority, which precedes the list (the UE aggregate maximum bit
\* rate of later versions of the standard is not in the library's Release 15 type dictionary and is not used)
PduSetupRequest(c, ch, psi, nas, msgNas) ==
   NgapPdu(0, Proc.PDUSessionResourceSetup, 0, "PDUSessionResourceSetupRequest",
      IdIes(c)
      \o (IF "setupPaging" \in DOMAIN ch /\ ch.setupPaging THEN << IeR(83, 1, "RANPagingPriority", [Value |-> [n |-> 5]]) >> ELSE <<>>)
      \* the message-level NAS-PDU (TS 38.413 9.2.1.1): another NAS message pending for the UE, here a plain 5GMM STATUS, next to the
      \* session's own NAS-PDU inside the list item (msgNas = <<>>: absent)
      \o (IF Len(msgNas) > 0 THEN << IeR(38, 0, "NASPDU", [Value |-> msgNas]) >> ELSE <<>>)
      \o << IeR(74, 0, "PDUSessionResourceSetupListSUReq", [List |-> << SetupItem(ch, psi, nas) >>]) >>)
InitialContextSetupRequest(c, ch, nas, withSession) ==
   NgapPdu(0, Proc.InitialContextSetup, 0, "InitialContextSetupRequest",
      IdIes(c) \o << IeR(28, 0, "GUAMI", GuamiV) >> \o
      (IF withSession THEN << IeR(71, 0, "PDUSessionResourceSetupListCxtReq",
              [List |-> << [PDUSessionID |-> [Value |-> [n |-> c.psi]], SNSSAI |-> SnssaiV,
                            PDUSessionResourceSetupRequestTransfer |-> SetupRequestTransfer(ch)] >>]) >> ELSE <<>>) \o
      << IeR(0, 0, "AllowedNSSAI", [List |-> << [SNSSAI |-> SnssaiV] >>]),
         IeR(119, 0, "UESecurityCapabilities", UeSecCapV),
         IeR(94, 0, "SecurityKey", [Value |-> Bits(c.kamf, 256)]) >> \o
      \* optional IEs a conformant AMF may add (TS 38.413 9.2.2.1), in table order
      (IF ch.optIEs >= 2 THEN << IeR(36, 1, "MobilityRestrictionList", [ServingPLMN |-> [Value |-> CfgPlmn]]),
                                 IeR(117, 1, "UERadioCapability", [Value |-> <<4, 1, 2, 3>>]),
                                 IeR(31, 1, "IndexToRFSP", [Value |-> [n |-> 7]]),
                                 IeR(34, 1, "MaskedIMEISV", [Value |-> Bits(<<53, 110, 16, 7, 255, 255, 0, 1>>, 64)]) >> ELSE <<>>) \o
      (IF Len(nas) > 0 THEN << IeR(38, 1, "NASPDU", [Value |-> nas]) >> ELSE <<>>))
ReleaseCommandTransfer == PerEncode(Build(NgapSchema.transfers["PDUSessionResourceReleaseCommandTransfer"], [Cause |-> [alt |-> "Nas", v |-> [Value |-> 0]]]))
PduReleaseCommand(c, nas) ==
   NgapPdu(0, Proc.PDUSessionResourceRelease, 0, "PDUSessionResourceReleaseCommand",
      IdIes(c) \o << IeR(38, 1, "NASPDU", [Value |-> nas]),
                     IeR(79, 0, "PDUSessionResourceToReleaseListRelCmd",
                         [List |-> << [PDUSessionID |-> [Value |-> [n |-> c.psi]], PDUSessionResourceReleaseCommandTransfer |-> ReleaseCommandTransfer] >>]) >>)
UeContextReleaseCommand(c) ==
   NgapPdu(0, Proc.UEContextRelease, 0, "UEContextReleaseCommand",
      << IeR(114, 0, "UENGAPIDs", [alt |-> "UENGAPIDPair", v |-> [AMFUENGAPID |-> [Value |-> c.amfId], RANUENGAPID |-> [Value |-> c.ran]]]),
         IeR(15, 1, "Cause", [alt |-> "Nas", v |-> [Value |-> 2]]) >>)

\* ------------------------------------------------------------------------------------------------------------------
\* NAS protection on the AMF side
\* ------------------------------------------------------------------------------------------------------------------
\* protect a downlink plain message; returns [bytes, sec]
DlProtect(sec, plain, hdr) == LET r == S!Protect(sec, plain, hdr, S!NewCtxHdr(hdr), S!DirDown) IN
                              [bytes |-> SecWire(r.pdu), sec |-> [r.sec EXCEPT !.ul = sec.ul]]
\* check and open an uplink NAS PDU: [plain, hdr, count, complaints, sec]
UlOpen(sec, b, who) ==
   IF Len(b) < 3 THEN [ok |-> FALSE, complaints |-> {who \o ": NAS PDU shorter than a header"}, sec |-> sec]
   ELSE IF b[1] # 126 THEN [ok |-> FALSE, complaints |-> {who \o ": NAS PDU does not start with the 5GMM discriminator"}, sec |-> sec]
   ELSE IF b[2] = 0 THEN [ok |-> TRUE, plain |-> b, hdr |-> 0, count |-> -1, complaints |-> {}, sec |-> sec]
   ELSE IF b[2] > 4 \/ Len(b) < 10 THEN [ok |-> FALSE, complaints |-> {who \o ": malformed security protected NAS message"}, sec |-> sec]
   ELSE LET p == SecParse(b)
            rx == IF sec.ul = -1 THEN [sec EXCEPT !.ul = 0] ELSE sec
            r == S!Unprotect(rx, p, S!DirUp)
            expected == IF S!NewCtxHdr(p.hdr) THEN 0 ELSE IF sec.ul = -1 THEN 0 ELSE S!AddOne(sec.ul) IN
        [ok |-> TRUE, plain |-> r.plain, hdr |-> p.hdr, count |-> r.count, sec |-> r.sec,
         complaints |-> (IF r.macOk THEN {} ELSE {who \o ": MAC is not valid under the keys the network derived (COUNT " \o ToString(r.count) \o ")"})
                        \cup (IF r.count = expected THEN {}
                              ELSE {who \o ": NAS COUNT " \o ToString(r.count) \o " but exactly one above the previous is " \o ToString(expected)})]

\* ------------------------------------------------------------------------------------------------------------------
\* UE contexts
\* ------------------------------------------------------------------------------------------------------------------
RECURSIVE CtxIndex(_, _, _)
CtxIndex(ues, ran, i) == IF i > Len(ues) THEN 0 ELSE IF NumEq(ues[i].ran, ran) THEN i ELSE CtxIndex(ues, ran, i + 1)
AmfInit == [ues |-> <<>>, ngSetup |-> FALSE]
NoSec == [ul |-> -1, dl |-> 0, kEnc |-> Zeros(16), kInt |-> Zeros(16), encAlg |-> 0, intAlg |-> 2]

\* common checks of a UE-associated uplink NGAP message against context c
IdChecks(t, c, who) ==
   LET ies == PduIEs(t)
       a == FindIe(ies, Ie.AMFUENGAPID) r == FindIe(ies, Ie.RANUENGAPID) IN
   (IF a.found /\ ~NumEq(Leaf(IeVal(a.ie)).v, c.amfId) THEN {who \o ": AMF-UE-NGAP-ID is not the one the AMF assigned"} ELSE {})
   \cup (IF r.found /\ ~NumEq(Leaf(IeVal(r.ie)).v, c.ran) THEN {who \o ": RAN-UE-NGAP-ID differs"} ELSE {})
UliChecks(t, who) ==
   LET ies == PduIEs(t) f == FindIe(ies, Ie.UserLocationInformation) IN
   IF f.found /\ Plmns(IeVal(f.ie)) # {CfgPlmn} THEN {who \o ": user location information carries PLMN " \o ToString(Plmns(IeVal(f.ie))) \o " instead of the announced " \o ToString(CfgPlmn)} ELSE {}
NasOf(t) == LET f == FindIe(PduIEs(t), Ie.NASPDU) IN IF f.found THEN Leaf(IeVal(f.ie)).v ELSE <<>>
RanOf(t) == LET f == FindIe(PduIEs(t), Ie.RANUENGAPID) IN IF f.found THEN Leaf(IeVal(f.ie)).v ELSE [n |-> -1]
WfMsg(t, m, who) == {who \o ": " \o x : x \in WellFormed(t, m)}

\* the IMSI the u-th UE must use: configured initial IMSI + (u - 1), same number of digits
ExpectedImsi(u) == AddDigits(CfgImsi, u - 1)
SuciChecks(v, u, who) ==
   LET d == SuciDecode(v) IN
   IF ~d.ok THEN {who \o ": 5GS mobile identity is not a null-scheme SUCI: " \o d.why}
   ELSE (IF d.mcc = CfgMcc /\ d.mnc = CfgMnc THEN {} ELSE {who \o ": SUCI PLMN " \o ToString(<<d.mcc, d.mnc>>) \o " is not the configured PLMN"})
        \cup (IF d.mcc \o d.mnc \o d.msin = ExpectedImsi(u) THEN {}
              ELSE {who \o ": SUCI identifies IMSI " \o ToString(d.mcc \o d.mnc \o d.msin) \o " but UE " \o ToString(u) \o " of this configuration is " \o ToString(ExpectedImsi(u))})

\* result of handling one uplink message: [amf, out: Seq(octets) downlink messages, complaints: set of strings, note]
Res(amf, out, complaints, note) == [amf |-> amf, out |-> out, complaints |-> complaints, note |-> note, abs |-> [u |-> 0, cnt |-> -1]]
\* abstraction of the handled message for TraceStg: the UE (in order of first appearance) and the NAS COUNT of a protected message
Abs(r, u, cnt) == [r EXCEPT !.abs = [u |-> u, cnt |-> cnt]]
SetCtx(amf, i, c) == [amf EXCEPT !.ues[i] = c]

HandleNgSetup(amf, t) ==
   LET ies == PduIEs(t)
       g == FindIe(ies, Ie.GlobalRANNodeID)
       gid == IF g.found THEN Named(IeVal(g.ie), "GNBID") ELSE <<>>
       nm == FindIe(ies, Ie.RANNodeName)
       plmns == UNION {Plmns(IeVal(ies[i])) : i \in 1..Len(ies)}
       who == "NGSetupRequest" IN
   Res([amf EXCEPT !.ngSetup = TRUE], << NgapEncode(NgSetupResponse) >>,
       WfMsg(t, "NGSetupRequest", who)
       \cup (IF plmns = {CfgPlmn} THEN {} ELSE {who \o ": announces PLMN " \o ToString(plmns) \o " instead of " \o ToString(CfgPlmn) \o " (MCC/MNC of the configured IMSI)"})
       \cup (IF Len(gid) = 1 /\ gid[1].nbits = Cfg.gnbBits /\ gid[1].v = Cfg.gnbId THEN {} ELSE {who \o ": gNB id is not the configured one"})
       \cup (IF nm.found /\ Leaf(IeVal(nm.ie)).v = Cfg.gnbName THEN {} ELSE {who \o ": RAN node name is not the configured one"})
       \cup (IF amf.ngSetup THEN {who \o ": second NG Setup"} ELSE {}),
       "NGSetupRequest")

\* algorithm selection (TS 33.501 6.7.1): the AMF has a priority list per algorithm kind (a free choice of the scenario) and selects
\* the first entry the UE's security capability advertises (IE 2E: octet 1 = 5G-EA0..7, octet 2 = 5G-IA0..7, most significant bit
\* first); the UE must then protect with exactly the selected algorithms.  An emulator that advertises more than it applies is
\* caught by a list that prefers what it does not apply.
CapHas(capab, octet, alg) == Len(capab) >= octet /\ (capab[octet] \div (2 ^ (7 - alg))) % 2 = 1
RECURSIVE FirstAdvertised(_, _, _, _)
FirstAdvertised(prio, capab, octet, dflt) ==
   IF Len(prio) = 0 THEN dflt ELSE IF CapHas(capab, octet, Head(prio)) THEN Head(prio) ELSE FirstAdvertised(Tail(prio), capab, octet, dflt)
ChSel(ch, capab) ==
   [ch EXCEPT !.encAlg = IF "encPrio" \in DOMAIN ch THEN FirstAdvertised(ch.encPrio, capab, 1, ch.encAlg) ELSE ch.encAlg,
              !.intAlg = IF "intPrio" \in DOMAIN ch THEN FirstAdvertised(ch.intPrio, capab, 2, ch.intAlg) ELSE ch.intAlg,
              \* the home network's sequence number is its own business: with sqnZero = n it picks one whose first n octets equal those of the
              \* anonymity key, so that the concealed SQN at the head of AUTN (an input of the K_AUSF derivation) begins with n zero octets
              !.sqn = IF "sqnZero" \in DOMAIN ch /\ ch.sqnZero > 0
                      THEN LET ak == MilF5(Cfg.k, OpcOf, ch.rand) IN Tup([i \in 1..6 |-> IF i <= ch.sqnZero THEN ak[i] ELSE ch.sqn[i]])
                      ELSE ch.sqn]

\* an IE appended to an encoded NGAP message (first octets: PDU alternative, procedure code, criticality, length determinant, then the
\* message SEQUENCE: extension bit octet, 16-bit IE count, the IEs)
SpliceIe(b, ie) ==
   LET lp == IF b[4] >= 128 THEN 2 ELSE 1
       val == SubSeq(b, 4 + lp, Len(b))
       cnt == val[2] * 256 + val[3] + 1
       val2 == <<val[1], cnt \div 256, cnt % 256>> \o SubSeq(val, 4, Len(val)) \o ie
       n == Len(val2)
   IN SubSeq(b, 1, 3) \o (IF n < 128 THEN <<n>> ELSE <<128 + (n \div 256), n % 256>>) \o val2
\* Registration Request in an InitialUEMessage: a new UE appears
HandleRegistrationRequest0(amf, t, m) ==
   LET u == Len(amf.ues) + 1
       who == "UE" \o ToString(u) \o " RegistrationRequest" IN
   IF u > Len(Scn.ues) THEN Res(amf, <<>>, {who \o ": more UEs than the scenario provides choices for"}, "RegistrationRequest")
   ELSE LET capab == NasOpt(m, 46)
            ch == ChSel(Choice(u), IF capab.has THEN capab.v ELSE <<0, 0>>)
            ran == RanOf(t)
            autn == MilAutn(Cfg.k, OpcOf, ch.rand, ch.sqn, ch.amfField)
            sd == SuciDecode(m.mand[2])
            \* the network derives the keys for the subscriber the SUCI names (whether or not it is the expected one)
            imsi == IF sd.ok THEN sd.mcc \o sd.mnc \o sd.msin ELSE ExpectedImsi(u)
            keys == Aka(Cfg.k, OpcOf, ch.rand, autn, Cfg.mcc, Cfg.mnc, AsciiOfDigits(imsi), ch.encAlg, ch.intAlg)
            c == [u |-> u, ran |-> ran, amfId |-> ch.amfId, st |-> "authSent", imsi |-> imsi, xres |-> keys.resStar, kamf |-> keys.kamf,
                  sec |-> [NoSec EXCEPT !.kEnc = keys.kenc, !.kInt = keys.kint, !.encAlg = ch.encAlg, !.intAlg = ch.intAlg],
                  capab |-> IF capab.has THEN capab.v ELSE <<0, 0>>, sess |-> "none", psi |-> -1, pti |-> 0, await |-> {}]
            dup == CtxIndex(amf.ues, ran, 1) IN
        Res([amf EXCEPT !.ues = Append(@, c)],
            << NgapEncode(DlNasTransportOpt(c, ch, NasEncode(NasAuthReq(ch)))) >>,
            WfMsg(t, "InitialUEMessage", who) \cup UliChecks(t, who)
            \cup SuciChecks(m.mand[2], u, who)
            \cup (IF m.hdr[1] = 0 THEN {} ELSE {who \o ": initial registration must be sent as plain NAS"})
            \cup (IF m.mand[1][1] % 8 = 1 THEN {} ELSE {who \o ": 5GS registration type is not initial registration"})
            \cup (IF capab.has THEN {} ELSE {who \o ": UE security capability missing"})
            \cup (IF dup = 0 THEN {} ELSE {who \o ": RAN-UE-NGAP-ID already used by UE " \o ToString(dup)}),
            "RegistrationRequest")

HandleRegistrationRequest(amf, t, m) == Abs(HandleRegistrationRequest0(amf, t, m), Len(amf.ues) + 1, -1)

\* an uplink NAS message of a UE that has a context; o = UlOpen of its NAS PDU
HandleUeNasO(amf, i, t, ngapMsg, o) ==
   LET c == amf.ues[i]
       ch == Choice(c.u)
       who0 == "UE" \o ToString(c.u)
       base == WfMsg(t, ngapMsg, who0 \o " " \o ngapMsg) \cup IdChecks(t, c, who0 \o " " \o ngapMsg) \cup UliChecks(t, who0 \o " " \o ngapMsg) IN
   IF ~o.ok THEN Res(amf, <<>>, base \cup o.complaints, "undecodable NAS")
   ELSE LET d == NasDecode(o.plain) IN
   IF ~d.ok THEN Res(SetCtx(amf, i, [c EXCEPT !.sec = o.sec]), <<>>, base \cup o.complaints \cup {who0 \o ": NAS message does not parse per TS 24.501: " \o d.why}, "undecodable NAS")
   ELSE LET m == d.m
            who == who0 \o " " \o m.name
            c1 == [c EXCEPT !.sec = o.sec]
            hdrMust(h) == IF o.hdr \in h THEN {} ELSE {who \o ": security header type " \o ToString(o.hdr) \o ", expected one of " \o ToString(h)}
            stMust(sts) == IF c.st \in sts THEN {} ELSE {who \o ": not expected while the UE is in state " \o c.st}
        IN
        CASE m.name = "AuthenticationResponse" ->
               LET res == NasOpt(m, 45)
                   smc == DlProtect([c1.sec EXCEPT !.dl = 0], NasEncode(NasSmc([ch EXCEPT !.encAlg = c.sec.encAlg, !.intAlg = c.sec.intAlg], c.capab)), 3)
                   c2 == [c1 EXCEPT !.st = "smcSent", !.sec = smc.sec] IN
               Res(SetCtx(amf, i, c2), << NgapEncode(DlNasTransportOpt(c2, ch, smc.bytes)) >>,
                   base \cup o.complaints \cup stMust({"authSent"}) \cup hdrMust({0})
                   \cup (IF res.has /\ res.v = c.xres THEN {} ELSE {who \o ": RES* " \o ToString(res.v) \o " differs from XRES* " \o ToString(c.xres)}),
                   m.name)
          [] m.name = "SecurityModeComplete" ->
               LET acc == DlProtect(c1.sec, NasEncode(NasRegAccept(ch)), 2)
                   c2 == [c1 EXCEPT !.st = "icsSent", !.sec = acc.sec, !.await = {"ICSResp"}]
                   \* the complete initial message repeated in the NAS message container (IEI 71, TS 24.501 5.4.2.3): a REGISTRATION
                   \* REQUEST of the same subscriber with the same security capability as the one that opened the procedure
                   ct == NasOpt(m, 113)
                   inr == IF ct.has THEN NasDecode(ct.v) ELSE [ok |-> FALSE, why |-> ""]
                   cont == IF ~ct.has THEN {}
                           ELSE IF ~inr.ok THEN {who \o ": the NAS message container does not hold a NAS message: " \o inr.why}
                           ELSE IF inr.m.name # "RegistrationRequest" THEN {who \o ": the NAS message container holds " \o inr.m.name \o ", not the REGISTRATION REQUEST"}
                           ELSE SuciChecks(inr.m.mand[2], c.u, who \o " (REGISTRATION REQUEST in the NAS message container)")
                                \cup (IF NasOpt(inr.m, 46).has /\ NasOpt(inr.m, 46).v = c.capab THEN {}
                                      ELSE {who \o ": the REGISTRATION REQUEST in the NAS message container carries another UE security capability than the initial one"}) IN
               Res(SetCtx(amf, i, c2), << NgapEncode(InitialContextSetupRequest(c2, ch, acc.bytes, FALSE)) >>,
                   base \cup o.complaints \cup cont \cup stMust({"smcSent"}) \cup hdrMust({4}), m.name)
          [] m.name = "RegistrationComplete" ->
               LET cu == DlProtect(c1.sec, NasEncode(NasCfgUpdate(ch)), 2)
                   c2 == [c1 EXCEPT !.st = "registered", !.sec = cu.sec] IN
               Res(SetCtx(amf, i, c2), << NgapEncode(DlNasTransportOpt(c2, ch, cu.bytes)) >>,
                   base \cup o.complaints \cup stMust({"icsDone"}) \cup hdrMust({2}), m.name)
          [] m.name = "ULNASTransport" ->
               LET psiIe == NasOpt(m, 18)
                   sm == NasDecode(m.mand[2])
                   psiHdr == IF sm.ok THEN sm.m.hdr[1] ELSE -1
                   pti == IF sm.ok THEN sm.m.hdr[2] ELSE 0
                   common == base \cup o.complaints \cup stMust({"registered"}) \cup hdrMust({2})
                             \cup (IF m.mand[1][1] % 16 = 1 THEN {} ELSE {who \o ": payload container type is not N1 SM information"})
                             \cup (IF sm.ok THEN {} ELSE {who \o ": payload is not a 5GSM message: " \o sm.why})
                             \cup (IF psiIe.has THEN {} ELSE {who \o ": PDU session ID IE missing"})
                             \cup (IF psiIe.has /\ sm.ok /\ psiIe.v[1] # psiHdr
                                   THEN {who \o ": PDU session identity " \o ToString(psiIe.v[1]) \o " in the transport header but " \o ToString(psiHdr) \o " in the 5GSM message"} ELSE {}) IN
               IF ~sm.ok THEN Res(SetCtx(amf, i, c1), <<>>, common, m.name)
               ELSE CASE sm.m.name = "PDUSessionEstablishmentRequest" ->
                           \* (acceptTail: information elements of later releases behind the tabulated ones, see GenExtract)
                           LET inner == NasEncode(NasPduAccept(ch, psiHdr, pti)) \o Pick(ch, "acceptTail", <<>>)
                               dlt == DlProtect(c1.sec, NasEncode(NasDlTransport(inner, psiHdr)), 2)
                               \* optionally another NAS message for the UE rides in the message-level NAS-PDU IE: a 5GMM STATUS, protected
                               \* under the next downlink COUNT
                               withMsg == "setupMsgNas" \in DOMAIN ch /\ ch.setupMsgNas
                               extra == DlProtect(dlt.sec, NasEncode(Mk5GMM("Status5GMM", << <<111>> >>, <<>>)), 2)
                               c2 == [c1 EXCEPT !.sec = IF withMsg THEN extra.sec ELSE dlt.sec, !.sess = "setup", !.psi = psiHdr, !.pti = pti, !.await = @ \cup {"SUResp"}]
                               \* optionally (ch.setupFill = n > 0) the SMF's QoS rules are stretched or shortened until the whole NGAP message is
                               \* exactly n octets long - 2048 is the largest message the emulator's receive buffer holds
                               fill == Pick(ch, "setupFill", 0)
                               FillBuild(chx) == LET inn == NasEncode(NasPduAccept(chx, psiHdr, pti)) \o Pick(chx, "acceptTail", <<>>)
                                                 dlp == DlProtect(c1.sec, NasEncode(NasDlTransport(inn, psiHdr)), 2)
                                                 ex == DlProtect(dlp.sec, NasEncode(Mk5GMM("Status5GMM", << <<111>> >>, <<>>)), 2)
                                             IN NgapEncode(PduSetupRequest(c2, chx, psiHdr, dlp.bytes, IF withMsg THEN ex.bytes ELSE <<>>))
                               Adj(chx, n) == IF n >= 0 THEN [chx EXCEPT !.qosRules = @ \o [x \in 1..n |-> (x * 37) % 256]]
                                              ELSE [chx EXCEPT !.qosRules = SubSeq(@, 1, Len(@) + n)]
                               b0 == NgapEncode(PduSetupRequest(c2, ch, psiHdr, dlt.bytes, IF withMsg THEN extra.bytes ELSE <<>>))
                               ch1 == Adj(ch, fill - Len(b0))
                               ch2 == Adj(ch1, fill - Len(FillBuild(ch1)))
                               out0 == IF fill = 0 THEN b0 ELSE FillBuild(ch2)
                               \* optionally (ch.setupTailIe) the UE Aggregate Maximum Bit Rate IE (id 110, ignore) follows the list, as later
                               \* versions of TS 38.413 9.2.1.1 have it; the type dictionary taken from this library's struct tags does not know
                               \* the IE in this message, so it is spliced into the encoding (IE count + 1, outer length recomputed)
                               out == IF Pick(ch, "setupTailIe", FALSE) THEN SpliceIe(out0, <<0, 110, 64, 5, 0, 139, 16, 255, 255>>) ELSE out0 IN
                           Res(SetCtx(amf, i, c2), << out >>,
                               common \cup (IF fill = 0 \/ Len(out) = fill THEN {} ELSE {"HARNESS: the setup request could not be brought to " \o ToString(fill) \o " octets"})
                                      \cup (IF c.sess \in {"none", "released"} THEN {} ELSE {who \o ": PDU session establishment while a session is " \o c.sess})
                                      \cup (IF NasOpt(m, 34).has /\ NasOpt(m, 34).v = (IF Len(Cfg.sd) = 3 THEN <<Cfg.sst>> \o Cfg.sd ELSE <<Cfg.sst>>) THEN {}
                                            ELSE {who \o ": S-NSSAI " \o ToString(NasOpt(m, 34).v) \o " is not the configured SST/SD"})
                                      \cup (IF NasOpt(m, 128).has /\ NasOpt(m, 128).v[1] % 8 = 1 THEN {} ELSE {who \o ": request type is not initial request"}),
                               sm.m.name)
                      [] sm.m.name = "PDUSessionReleaseRequest" ->
                           LET inner == NasEncode(NasPduReleaseCommand(psiHdr, pti))
                               dlt == DlProtect(c1.sec, NasEncode(NasDlTransport(inner, psiHdr)), 2)
                               c2 == [c1 EXCEPT !.sec = dlt.sec, !.sess = "releasing", !.await = @ \cup {"RelResp"}] IN
                           Res(SetCtx(amf, i, c2), << NgapEncode(PduReleaseCommand(c2, dlt.bytes)) >>,
                               common \cup (IF c.sess = "active" THEN {} ELSE {who \o ": release requested for a session that is " \o c.sess})
                                      \cup (IF psiHdr = c.psi THEN {} ELSE {who \o ": PDU session identity " \o ToString(psiHdr) \o " is not the established session " \o ToString(c.psi)}),
                               sm.m.name)
                      [] sm.m.name = "PDUSessionReleaseComplete" ->
                           Res(SetCtx(amf, i, [c1 EXCEPT !.sess = "released"]), <<>>,
                               common \cup (IF c.sess = "releasing" THEN {} ELSE {who \o ": release complete for a session that is " \o c.sess})
                                      \cup (IF psiHdr = c.psi THEN {} ELSE {who \o ": PDU session identity differs from the session being released"}),
                               sm.m.name)
                      [] OTHER -> Res(SetCtx(amf, i, c1), <<>>, common \cup {who \o ": unexpected 5GSM message " \o sm.m.name}, sm.m.name)
          [] m.name = "DeregistrationRequestUEOriginatingDeregistration" ->
               LET da == DlProtect(c1.sec, NasEncode(NasDeregAccept), 2)
                   c2 == [c1 EXCEPT !.st = "deregSent", !.sec = da.sec, !.await = {"CtxRelCpl"}] IN
               Res(SetCtx(amf, i, c2), << NgapEncode(DlNasTransport(c2, da.bytes)), NgapEncode(UeContextReleaseCommand(c2)) >>,
                   base \cup o.complaints \cup stMust({"registered"}) \cup hdrMust({2}) \cup SuciChecks(m.mand[2], c.u, who), m.name)
          [] OTHER -> Res(SetCtx(amf, i, c1), <<>>, base \cup o.complaints \cup {who \o ": unexpected NAS message"}, m.name)

HandleUeNas(amf, i, t, ngapMsg) ==
   LET c == amf.ues[i]
       o == UlOpen(c.sec, NasOf(t), "UE" \o ToString(c.u)) IN
   Abs(HandleUeNasO(amf, i, t, ngapMsg, o), c.u, IF o.ok THEN o.count ELSE -1)

\* Service Request in an InitialUEMessage for a UE whose connection is still up (assumption A3)
HandleServiceRequestO(amf, i, t, o) ==
   LET c == amf.ues[i]
       ch == Choice(c.u)
       who == "UE" \o ToString(c.u) \o " ServiceRequest" IN
   IF ~o.ok THEN Res(amf, <<>>, o.complaints, "ServiceRequest")
   ELSE LET d == NasDecode(o.plain)
            sa == DlProtect(o.sec, NasEncode(NasServiceAccept(ch)), 2)
            c2 == [c EXCEPT !.sec = sa.sec, !.await = @ \cup {"ICSRespSvc"}] IN
        Res(SetCtx(amf, i, c2), << NgapEncode(InitialContextSetupRequest(c2, ch, sa.bytes, TRUE)) >>,
            WfMsg(t, "InitialUEMessage", who) \cup UliChecks(t, who) \cup o.complaints
            \cup (IF d.ok /\ d.m.name = "ServiceRequest" THEN {} ELSE {who \o ": NAS message is not a well-formed SERVICE REQUEST"})
            \cup (IF o.hdr \in {1, 2} THEN {} ELSE {who \o ": security header type " \o ToString(o.hdr) \o ", expected 1 or 2"})
            \cup (IF c.st = "registered" THEN {} ELSE {who \o ": service requested by a UE that is " \o c.st})
            \cup (IF c.sess = "active" THEN {} ELSE {who \o ": service requested without an established PDU session (session is " \o c.sess \o ")"}),
            "ServiceRequest")

HandleServiceRequest(amf, i, t) ==
   LET c == amf.ues[i]
       o == UlOpen(c.sec, NasOf(t), "UE" \o ToString(c.u) \o " ServiceRequest") IN
   Abs(HandleServiceRequestO(amf, i, t, o), c.u, IF o.ok THEN o.count ELSE -1)

\* embedded response transfers: the gNB's GTP address must be the configured one
TransferAddrOk(ies, listId, fieldName) ==
   LET f == FindIe(ies, listId) IN
   IF ~f.found THEN FALSE
   ELSE LET ts == Named(IeVal(f.ie), fieldName) IN
        Len(ts) = 1 /\ LET d == TransferDecode("PDUSessionResourceSetupResponseTransfer", ts[1].v) IN
                       d.ok /\ LET a == Named(d.v, "TransportLayerAddress") IN Len(a) = 1 /\ a[1].nbits = 32 /\ a[1].v = Cfg.gtpIp
PsiInList(ies, listId) == LET f == FindIe(ies, listId) IN
                          IF ~f.found THEN <<>> ELSE LET p == Named(IeVal(f.ie), "PDUSessionID") IN Tup([k \in 1..Len(p) |-> p[k].v.n])

HandleNgapResponse0(amf, i, t, kind) ==
   LET c == amf.ues[i]
       who == "UE" \o ToString(c.u) \o " " \o kind
       ies == PduIEs(t)
       ids == IdChecks(t, c, who) IN
   CASE kind = "InitialContextSetupResponse" ->
          IF "ICSResp" \in c.await
          THEN Res(SetCtx(amf, i, [c EXCEPT !.st = "icsDone", !.await = @ \ {"ICSResp"}]), <<>>, WfMsg(t, kind, who) \cup ids, kind)
          ELSE IF "ICSRespSvc" \in c.await
          THEN Res(SetCtx(amf, i, [c EXCEPT !.await = @ \ {"ICSRespSvc"}]), <<>>,
                   WfMsg(t, kind, who) \cup ids
                   \cup (IF PsiInList(ies, 72) = <<c.psi>> THEN {} ELSE {who \o ": PDU session list " \o ToString(PsiInList(ies, 72)) \o " is not the session " \o ToString(c.psi) \o " of the request"})
                   \cup (IF TransferAddrOk(ies, 72, "PDUSessionResourceSetupResponseTransfer") THEN {} ELSE {who \o ": response transfer does not carry the configured gNB GTP address"}),
                   kind)
          ELSE Res(amf, <<>>, {who \o ": no Initial Context Setup Request outstanding"}, kind)
     [] kind = "PDUSessionResourceSetupResponse" ->
          Res(SetCtx(amf, i, [c EXCEPT !.sess = "active", !.await = @ \ {"SUResp"}]), <<>>,
              WfMsg(t, kind, who) \cup ids
              \cup (IF "SUResp" \in c.await THEN {} ELSE {who \o ": no PDU Session Resource Setup Request outstanding"})
              \cup (IF PsiInList(ies, 75) = <<c.psi>> THEN {} ELSE {who \o ": PDU session list " \o ToString(PsiInList(ies, 75)) \o " is not the requested session " \o ToString(c.psi)})
              \cup (IF TransferAddrOk(ies, 75, "PDUSessionResourceSetupResponseTransfer") THEN {} ELSE {who \o ": response transfer does not carry the configured gNB GTP address"}),
              kind)
     [] kind = "PDUSessionResourceReleaseResponse" ->
          Res(SetCtx(amf, i, [c EXCEPT !.await = @ \ {"RelResp"}]), <<>>,
              WfMsg(t, kind, who) \cup ids
              \cup (IF "RelResp" \in c.await THEN {} ELSE {who \o ": no PDU Session Resource Release Command outstanding"})
              \cup (IF PsiInList(ies, 70) = <<c.psi>> THEN {} ELSE {who \o ": released session list " \o ToString(PsiInList(ies, 70)) \o " is not the session " \o ToString(c.psi)}),
              kind)
     [] kind = "UEContextReleaseComplete" ->
          Res(SetCtx(amf, i, [c EXCEPT !.st = "gone", !.await = @ \ {"CtxRelCpl"}]), <<>>,
              WfMsg(t, kind, who) \cup ids
              \cup (IF "CtxRelCpl" \in c.await THEN {} ELSE {who \o ": no UE Context Release Command outstanding"}), kind)

HandleNgapResponse(amf, i, t, kind) == Abs(HandleNgapResponse0(amf, i, t, kind), amf.ues[i].u, -1)

\* ------------------------------------------------------------------------------------------------------------------
\* one uplink message
\* ------------------------------------------------------------------------------------------------------------------
AmfHandle(amf, bytes) ==
   LET d == NgapDecode(bytes) IN
   IF ~d.ok THEN Res(amf, <<>>, {"uplink message is not a decodable NGAP PDU: " \o d.why}, "undecodable")
   ELSE LET t == d.v cls == PduClass(t) proc == PduProc(t) IN
        IF cls = 0 /\ proc = Proc.NGSetup THEN HandleNgSetup(amf, t)
        ELSE IF ~amf.ngSetup THEN Res(amf, <<>>, {"UE-associated signalling before NG Setup"}, "early")
        ELSE LET i == CtxIndex(amf.ues, RanOf(t), 1) IN
             IF cls = 0 /\ proc = Proc.InitialUEMessage THEN
                LET nas == NasOf(t) IN
                IF Len(nas) >= 3 /\ nas[1] = 126 /\ nas[2] = 0 /\ nas[3] = 65 THEN
                   LET nd == NasDecode(nas) IN
                   IF nd.ok THEN HandleRegistrationRequest(amf, t, nd.m)
                   ELSE Res(amf, <<>>, {"RegistrationRequest does not parse per TS 24.501: " \o nd.why}, "RegistrationRequest")
                ELSE IF i > 0 THEN HandleServiceRequest(amf, i, t)
                ELSE Res(amf, <<>>, {"InitialUEMessage with neither a Registration Request nor a known RAN-UE-NGAP-ID"}, "InitialUEMessage")
             ELSE IF i = 0 THEN Res(amf, <<>>, {"UE-associated message for an unknown RAN-UE-NGAP-ID " \o ToString(RanOf(t))}, "unknown UE")
             ELSE IF cls = 0 /\ proc = Proc.UplinkNASTransport THEN HandleUeNas(amf, i, t, "UplinkNASTransport")
             ELSE IF cls = 1 /\ proc = Proc.InitialContextSetup THEN HandleNgapResponse(amf, i, t, "InitialContextSetupResponse")
             ELSE IF cls = 1 /\ proc = Proc.PDUSessionResourceSetup THEN HandleNgapResponse(amf, i, t, "PDUSessionResourceSetupResponse")
             ELSE IF cls = 1 /\ proc = Proc.PDUSessionResourceRelease THEN HandleNgapResponse(amf, i, t, "PDUSessionResourceReleaseResponse")
             ELSE IF cls = 1 /\ proc = Proc.UEContextRelease THEN HandleNgapResponse(amf, i, t, "UEContextReleaseComplete")
             ELSE Res(amf, <<>>, {"unexpected NGAP message: class " \o ToString(cls) \o " procedure " \o ToString(proc)}, "unexpected")
=============================================================================
