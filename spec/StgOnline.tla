------------------------------ MODULE StgOnline ------------------------------
(***************************************************************************)
(* The specification's AMF run against the real emulator process (C01,     *)
(* C02, C18 wire part, C19).  One behaviour: TLC receives the k-th uplink  *)
(* message from the byte pump (IOExec, idempotent requests indexed by k),   *)
(* lets Amf!AmfHandle decide, and hands the downlink messages the          *)
(* specification built to the pump.  In offline mode the same steps are    *)
(* replayed from the pump's log (re-validation of a recorded run; no I/O). *)
(*                                                                         *)
(* Faults (C19): Scn.fault = [kind, at]: the downlink message with index   *)
(* `at` is replaced by closing the association ("close") or by bytes that  *)
(* Per!PerDecode rejects ("garbage").  Optionally (Fault.pre, an index     *)
(* below `at` of a message whose content the emulator ignores) that        *)
(* earlier message is undecodable as well: tolerating it must not make the *)
(* emulator tolerant of the fault that follows.                            *)
(***************************************************************************)
EXTENDS Amf, IOUtils, FiniteSets
CONSTANTS Online,      \* TRUE: talk to the pump; FALSE: replay LogPath
          PumpBin, Sock, WorkDir, LogPath, HooksPath
VARIABLES k, j, amf, nbad, notes, phase, result

Log == IF Online THEN <<>> ELSE ndJsonDeserialize(LogPath)
LogUl == SelectSeq(Log, LAMBDA e : e.dir = "ul")
LogExit == SelectSeq(Log, LAMBDA e : e.dir = "exit")

Recv(i) ==
   IF Online
   THEN LET f == WorkDir \o "/ul" \o ToString(i) \o ".json"
            r == IOExec(<<PumpBin, "ctl", "-sock", Sock, "recv", ToString(i), f, "30000">>)
        IN IF r.exitValue = 0 THEN JsonDeserialize(f) ELSE [kind |-> "timeout", k |-> i]
   ELSE IF i + 1 <= Len(LogUl) THEN [kind |-> "msg", k |-> i, bytes |-> LogUl[i + 1].bytes]
        ELSE IF Len(LogExit) > 0 THEN [kind |-> "exit", k |-> i, code |-> LogExit[1].code, stdout |-> "", nul |-> Len(LogUl), banner |-> LogExit[1].banner]
        ELSE [kind |-> "timeout", k |-> i]
Fault == Scn.fault
\* the undecodable answer: fixed octets, or (cut > 0) the genuine answer without its last `cut` octets - an incomplete encoding whose
\* beginning is right (a decoder that reads past the end of what was received, into whatever its buffer still holds, accepts it)
\* ... or (ie = k > 0) the genuine answer with the value of its k-th information element cut short by its last octet, every length around
\* it consistent (a transfer syntax error inside an intact frame, TS 38.413 10.2: a PER encoding is self-delimiting, so a proper prefix of
\* one is the encoding of nothing - whereas octets *behind* a complete value inside an open type are tolerated by lenient decoders, this
\* library among them, and are not used as a fault), optionally with that IE's criticality set to "ignore" - which is a statement about
\* IEs that are not comprehended, not about octets that cannot be decoded
RECURSIVE SetEnum(_, _)
SetEnum(t, val) == CASE t.k = "enum" -> [t EXCEPT !.v = val] [] t.k = "seq" -> [t EXCEPT !.fields[1].v = SetEnum(@, val)] [] OTHER -> t
RECURSIVE EnumAt(_, _, _)
EnumAt(t, p, val) ==
   IF Len(p) = 0 THEN SetEnum(t, val)
   ELSE CASE t.k \in {"open", "choice"} -> [t EXCEPT !.v = EnumAt(t.v, Tail(p), val)]
          [] t.k = "seq" -> [t EXCEPT !.fields[Head(p)].v = EnumAt(t.fields[Head(p)].v, Tail(p), val)]
          [] t.k = "seqof" -> [t EXCEPT !.v[Head(p)] = EnumAt(t.v[Head(p)], Tail(p), val)]
IeGarbage(bytes) ==
   LET d == NgapDecode(bytes) IN
   IF ~d.ok THEN Fault.bytes
   ELSE LET ps == OpenPaths(d.v, <<>>) IN
        IF Len(ps) < 2 THEN Fault.bytes
        ELSE LET ies == SelectSeq(ps, LAMBDA p : Len(p) = Len(ps[2]))       \* the message body first, then the IE values in document order
                 p == ies[((Fault.ie - 1) % Len(ies)) + 1]
                 enc == PerEncode(NodeAt(d.v, p).v)
                 t1 == SetRawAt(d.v, p, SubSeq(enc, 1, Len(enc) - 1))
                 t2 == IF "ignore" \in DOMAIN Fault /\ Fault.ignore THEN EnumAt(t1, SubSeq(p, 1, Len(p) - 1) \o <<2>>, 1) ELSE t1
             IN PerEncode(t2)
Garbage(bytes) == IF "ie" \in DOMAIN Fault /\ Fault.ie > 0 THEN IeGarbage(bytes) ELSE IF "cut" \in DOMAIN Fault /\ Fault.cut > 0 /\ Len(bytes) > Fault.cut THEN SubSeq(bytes, 1, Len(bytes) - Fault.cut) ELSE Fault.bytes
\* Optionally (Fault.ins, octets of a well-formed interface management message such as OVERLOAD STOP) that message is sent in front of the
\* fault: the emulator, which takes its answers in the order they come, reads it in place of answer `at` and meets the fault one read later
Ins == "ins" \in DOMAIN Fault /\ Len(Fault.ins) > 0
Px(i) == IF Ins /\ i >= Fault.at THEN i + 1 ELSE i            \* the pump's index of the specification's downlink message i
SendRaw(pi, b) == LET f == WorkDir \o "/dl" \o ToString(pi) \o ".json"
                  IN JsonSerialize(f, [bytes |-> b]) /\ IOExec(<<PumpBin, "ctl", "-sock", Sock, "send", ToString(pi), f>>).exitValue = 0
SendOne(i, bytes) ==
   IF ~Online THEN TRUE
   ELSE (IF Ins /\ i = Fault.at THEN SendRaw(i, Fault.ins) ELSE TRUE)
        /\ IF Fault.kind = "closeafter" /\ i >= Fault.at
           \* the peer answers message `at` and is gone at once: the emulator reads the answer and its next *write* meets the closed association
           THEN IF i = Fault.at
                THEN LET f == WorkDir \o "/dl" \o ToString(i) \o ".json"
                     IN JsonSerialize(f, [bytes |-> bytes]) /\ IOExec(<<PumpBin, "ctl", "-sock", Sock, "sendclose", ToString(i), f>>).exitValue = 0
                ELSE IOExec(<<PumpBin, "ctl", "-sock", Sock, "close", ToString(i)>>).exitValue = 0
           ELSE IF Fault.kind = "close" /\ i >= Fault.at
           THEN IOExec(<<PumpBin, "ctl", "-sock", Sock, "close", ToString(Px(i))>>).exitValue = 0
           ELSE LET b == IF Fault.kind = "garbage" /\ i = Fault.at THEN Garbage(bytes)
                         ELSE IF "pre" \in DOMAIN Fault /\ i = Fault.pre THEN Fault.prebytes   \* an ignored message is undecodable too (see above)
                         ELSE bytes
                IN SendRaw(Px(i), b)
RECURSIVE SendAll(_, _)
SendAll(i, outs) == IF Len(outs) = 0 THEN TRUE ELSE SendOne(i, Head(outs)) /\ SendAll(i + 1, Tail(outs))

RECURSIVE PrintAll(_, _, _)
PrintAll(cs, idx, note) ==
   IF cs = {} THEN TRUE
   ELSE LET c == CHOOSE x \in cs : TRUE IN
        PrintT("REJECT line=" \o ToString(idx) \o " id=" \o ToString(idx) \o " ev=" \o note \o " why=" \o c) /\ PrintAll(cs \ {c}, idx, note)
\* after the fault the emulator must not start anything: uplink messages that merely complete are judged leniently,
\* but any message is recorded as "after fault"
Faulted == Fault.kind # "none" /\ j > Fault.at

\* the specification's AMF is itself held to TS 38.413 9.2: every downlink message it is about to send decodes to a message of the
\* tables of Ngap!Msg38413 with all mandatory IEs, the tabulated criticalities, no IE twice, in table order (a non-conformant stimulus
\* would make every verdict about the emulator's reaction meaningless: reported as a harness error, never as a violation)
RECURSIVE DlComplaints(_)
DlComplaints(outs) ==
   IF Len(outs) = 0 THEN {}
   ELSE LET d == NgapDecode(Head(outs)) IN
        (IF ~d.ok THEN {"HARNESS: the specification's AMF built an undecodable message: " \o d.why}
         ELSE LET ms == MsgOf(PduClass(d.v), PduProc(d.v)) IN
              IF ms = {} THEN {"HARNESS: the specification's AMF built a message without a table in Ngap!Msg38413"}
              ELSE LET m == CHOOSE x \in ms : TRUE
                       w == WellFormed(d.v, m) IN
                   {"HARNESS: the specification's AMF built a " \o m \o " that is not well-formed: " \o c : c \in w}
                   \cup (IF InTableOrder(d.v, m) THEN {} ELSE {"HARNESS: the specification's AMF built a " \o m \o " whose IEs are not in table order"}))
        \cup DlComplaints(Tail(outs))

Init == k = 0 /\ j = 0 /\ amf = AmfInit /\ nbad = 0 /\ notes = <<>> /\ phase = "run" /\ result = [kind |-> "none"]
Step ==
   /\ phase = "run"
   \* ev and r are bound by a quantifier over a singleton: TLC evaluates an action-level LET again at every use, which would receive the
   \* message and run the whole AMF (key derivations, protection, encoding) once per conjunct below
   /\ \E ev \in {Recv(k)} :
      IF ev.kind = "msg" THEN
         \* (a setup request with the spliced-in IE 110 is outside the type dictionary the self-check decodes with: not checked)
         \E r \in {AmfHandle(amf, ev.bytes)} :
         \E dlBad \in {IF r.note = "PDUSessionEstablishmentRequest" /\ r.abs.u \in 1..Len(Scn.ues) /\ "setupTailIe" \in DOMAIN Choice(r.abs.u)
                           /\ Choice(r.abs.u).setupTailIe THEN {} ELSE DlComplaints(r.out)} :
         LET noteStr == r.note IN
         /\ (IF Faulted THEN TRUE ELSE PrintAll(r.complaints, k, noteStr))
         /\ PrintAll(dlBad, k, "Model")
         /\ (IF Fault.kind = "garbage" /\ Fault.at >= j /\ Fault.at < j + Len(r.out) /\ NgapDecode(Garbage(r.out[Fault.at - j + 1])).ok
             THEN PrintT("REJECT line=" \o ToString(k) \o " id=" \o ToString(k) \o " ev=Final why=HARNESS: the garbage is a decodable NGAP PDU for the specification")
             ELSE TRUE)
         \* a network that takes its time: the answer to this UE's PDU session establishment request leaves after setupDelay seconds
         \* (longer than the 16 s of timer T3580); the emulator has nothing to do but wait
         /\ (IF Online /\ r.note = "PDUSessionEstablishmentRequest" /\ r.abs.u \in 1..Len(Scn.ues) /\ "setupDelay" \in DOMAIN Choice(r.abs.u)
                /\ Choice(r.abs.u).setupDelay > 0 /\ Len(r.out) > 0
             THEN IOExec(<<"sleep", ToString(Choice(r.abs.u).setupDelay)>>).exitValue = 0 ELSE TRUE)
         \* the answers to this message include the one that is replaced by the close (or followed by it): the association's receiving
         \* direction is shut first, so that the emulator's next write fails whenever it is scheduled - "the AMF closes while handling
         \* message k" as one step, the way Stg.tla has it (Deliver), not a race between the emulator's reply and the pump's next request
         /\ (IF Online /\ Fault.kind \in {"close", "closeafter"} /\ Fault.at >= j /\ Fault.at < j + Len(r.out)
             THEN IOExec(<<PumpBin, "ctl", "-sock", Sock, "shutrd">>).exitValue = 0 ELSE TRUE)
         /\ SendAll(j, r.out)
         /\ amf' = r.amf /\ j' = j + Len(r.out) /\ k' = k + 1
         /\ nbad' = nbad + Cardinality(r.complaints)
         /\ notes' = Append(notes, [k |-> k, note |-> noteStr, nout |-> Len(r.out), afterFault |-> Faulted, bad |-> Cardinality(r.complaints),
                                   u |-> r.abs.u, cnt |-> r.abs.cnt])
         /\ phase' = "run" /\ result' = result
      ELSE /\ phase' = "done"
           /\ result' = ev
           /\ UNCHANGED <<k, j, amf, nbad, notes>>
\* ---- the final verdict, computed once the run is over ---------------------------------------------------------------
\* read when the run is over (an operator with a parameter is not pre-evaluated by TLC at start-up)
ReportsAt(x) == ndJsonDeserialize(HooksPath)
EstReports == SelectSeq(ReportsAt(k), LAMBDA e : e.ev = "EstablishPDU")
Min2i(a, b) == IF a < b THEN a ELSE b
Cnt == Cfg.counts
NPdu == Min2i(Cnt.reg, Cnt.pdu)                 \* the clamps of the test-mode main program
NSvc == Min2i(NPdu, Cnt.svc)
NRel == Min2i(NPdu, Cnt.rel)
NDereg == Min2i(Cnt.reg, Cnt.dereg)
NoteCount(n) == Len(SelectSeq(notes, LAMBDA x : x.note = n))
ReportOk(i) == LET e == EstReports[i] ch == Choice(i) IN e.supi = ch.supiStr /\ e.ip = ch.ip /\ e.teid = ch.teid /\ e.upf = ch.upf
FinalNormal ==
   (IF result.kind = "exit" THEN {} ELSE {"the emulator did not terminate (no exit within the deadline)"})
   \cup (IF result.kind = "exit" /\ result.code # 0 THEN {"exit status " \o ToString(result.code) \o " although no fault was injected"} ELSE {})
   \cup (IF result.kind = "exit" /\ ~result.banner THEN {"completion banner missing"} ELSE {})
   \cup (IF amf.ngSetup THEN {} ELSE {"NG Setup never happened"})
   \cup (LET cs == SelectSeq(ReportsAt(k), LAMBDA e : e.ev = "ConnectToAmf") IN
         IF Len(cs) = 1 /\ cs[1].amfIP = Cfg.amfIp /\ cs[1].amfPort = Cfg.amfPort /\ cs[1].stgIP = Cfg.stgIp /\ cs[1].stgPort = Cfg.stgPort THEN {}
         ELSE {"the N2 connection was not requested with the configured addresses and ports: " \o ToString(cs)})
   \cup (IF Len(amf.ues) = Cnt.reg THEN {} ELSE {ToString(Len(amf.ues)) \o " UEs registered, configuration asks for " \o ToString(Cnt.reg)})
   \cup UNION {LET c == amf.ues[i]
                   wantSt == IF i <= NDereg THEN "gone" ELSE "registered"
                   wantSess == IF i > NPdu THEN "none" ELSE IF i <= NRel THEN "released" ELSE "active" IN
               (IF c.st = wantSt THEN {} ELSE {"UE" \o ToString(i) \o " ended in state " \o c.st \o ", expected " \o wantSt})
               \cup (IF c.sess = wantSess THEN {} ELSE {"UE" \o ToString(i) \o " session is " \o c.sess \o ", expected " \o wantSess})
               \cup (IF c.await = {} THEN {} ELSE {"UE" \o ToString(i) \o " left requests unanswered: " \o ToString(c.await)})
               : i \in 1..Min2i(Len(amf.ues), Cnt.reg)}
   \cup (IF NoteCount("ServiceRequest") = NSvc THEN {} ELSE {ToString(NoteCount("ServiceRequest")) \o " service requests, expected " \o ToString(NSvc)})
   \cup (IF Len(EstReports) = NPdu THEN {} ELSE {ToString(Len(EstReports)) \o " sessions reported, expected " \o ToString(NPdu)})
   \cup {"session report " \o ToString(i) \o " is not the UE address / TEID / UPF address the network assigned: " \o ToString(EstReports[i])
           : i \in {x \in 1..Min2i(Len(EstReports), Len(Scn.ues)) : ~ReportOk(x)}}
FinalFault ==
   (IF Fault.kind = "garbage" /\ ~("cut" \in DOMAIN Fault /\ Fault.cut > 0) /\ ~("ie" \in DOMAIN Fault /\ Fault.ie > 0) /\ NgapDecode(Fault.bytes).ok THEN {"HARNESS: the garbage is a decodable NGAP PDU for the specification"} ELSE {})
   \cup (IF j > Fault.at THEN {} ELSE {"HARNESS: the run ended before the fault point was reached"})
   \cup (IF Ins /\ ~NgapDecode(Fault.ins).ok THEN {"HARNESS: the message sent in front of the fault is not a decodable NGAP PDU"} ELSE {})
   \cup (IF "pre" \in DOMAIN Fault /\ (Fault.pre >= Fault.at \/ NgapDecode(Fault.prebytes).ok) THEN {"HARNESS: the earlier undecodable message is misplaced or decodable"} ELSE {})
   \cup (IF result.kind = "exit" THEN {} ELSE {"the emulator hangs after the fault (no exit within the deadline)"})
   \cup (IF result.kind = "exit" /\ result.code = 0 THEN {"exit status 0 after the fault"} ELSE {})
   \cup (IF result.kind = "exit" /\ result.banner THEN {"completion banner printed after the fault"} ELSE {})
   \cup {"a session that was not obtained is reported: " \o ToString(EstReports[i])
           : i \in {x \in 1..Len(EstReports) : x > Len(Scn.ues) \/ ~ReportOk(x)}}
FinalComplaints == IF Fault.kind = "none" THEN FinalNormal ELSE FinalFault
Finish ==
   /\ phase = "done"
   /\ phase' = "judged"
   /\ PrintAll(FinalComplaints, 9999, "Final")
   /\ JsonSerialize(WorkDir \o "/verdict.json",
         [result |-> result, notes |-> notes, nbad |-> nbad + Cardinality(FinalComplaints), k |-> k, j |-> j,
          ues |-> [i \in 1..Len(amf.ues) |-> [u |-> amf.ues[i].u, st |-> amf.ues[i].st, sess |-> amf.ues[i].sess, psi |-> amf.ues[i].psi,
                                              imsi |-> amf.ues[i].imsi, ul |-> amf.ues[i].sec.ul]],
          ngSetup |-> amf.ngSetup, nreports |-> Len(EstReports),
          reportsAbs |-> [i \in 1..Len(EstReports) |-> [u |-> i, ok |-> i <= Len(Scn.ues) /\ ReportOk(i)]]])
   /\ UNCHANGED <<k, j, amf, nbad, notes, result>>
Next == Step \/ Finish
Judged == TLCGet("stats").diameter >= 2
=============================================================================
