-------------------------------- MODULE Stg --------------------------------
(***************************************************************************)
(* Layer 4b: the abstract system specification, model-checked exhaustively *)
(* by TLC for small constants: the emulator's test-mode main program (the  *)
(* five loops with their Min() clamps and the per-procedure scripts of     *)
(* conn.Write / conn.Read exactly as the code performs them), the N2       *)
(* association as two FIFO channels, a reactive conformant AMF/SMF with    *)
(* per-UE expected-message / COUNT / session state, and the two fault      *)
(* kinds of C19.  Messages are records; cryptography is symbolic (a        *)
(* protected message carries the UE whose keys protect it and its COUNT).  *)
(*                                                                         *)
(* The concrete counterpart of the AMF here is Amf.tla (bytes, real        *)
(* cryptography), bound to the real process by StgOnline.tla; the step     *)
(* names below are the `note` values StgOnline records.                    *)
(***************************************************************************)
EXTENDS Integers, Sequences, FiniteSets, TLC
CONSTANTS MaxCnt,        \* repetition counts range over 0..MaxCnt
          Faults         \* set of fault kinds explored: subset of {"none", "close", "closeafter", "garbage"}
VARIABLES cnt,           \* configuration: [reg, pdu, svc, rel, dereg]
          pc,            \* emulator program counter <<phase, i, step>>; phase 0 = NG Setup, 6 = finished
          ue,            \* emulator-side UE contexts
          ul, dl,        \* FIFO channels (uplink / downlink)
          amf,           \* AMF-side UE contexts
          bad,           \* reasons for which the AMF had to reject a message
          used,          \* ghost: <<ue, count, generation>> of every protected uplink message
          exit, banner,  \* process exit status (-1 = still running, 0, 1), completion banner printed
          reports,       \* sessions the emulator reported: <<ue, assigned value>>
          fault          \* [kind, at: index of the downlink message replaced, fired, closed, ioAfter]
vars == <<cnt, pc, ue, ul, dl, amf, bad, used, exit, banner, reports, fault>>

Min(a, b) == IF a < b THEN a ELSE b
Phases == <<"reg", "pdu", "svc", "rel", "dereg">>
\* the clamps of stg-utg.go (test mode)
Limit(c, ph) == CASE ph = "reg" -> c.reg
                  [] ph = "pdu" -> Min(c.reg, c.pdu)
                  [] ph = "svc" -> Min(Min(c.reg, c.pdu), c.svc)
                  [] ph = "rel" -> Min(Min(c.reg, c.pdu), c.rel)
                  [] ph = "dereg" -> Min(c.reg, c.dereg)
\* one procedure = the sequence of writes and reads of the code; "ignored" = read whose decoding result is not checked
Script(ph) ==
   CASE ph = "reg" -> << <<"w", "RegistrationRequest">>, <<"r", "AuthReq">>, <<"w", "AuthenticationResponse">>, <<"r", "any">>,
                         <<"w", "SecurityModeComplete">>, <<"r", "any">>, <<"w", "InitialContextSetupResponse">>,
                         <<"w", "RegistrationComplete">>, <<"r", "ignored">> >>
     [] ph = "pdu" -> << <<"w", "PDUSessionEstablishmentRequest">>, <<"r", "PduSetupReq">>, <<"w", "PDUSessionResourceSetupResponse">> >>
     [] ph = "svc" -> << <<"w", "ServiceRequest">>, <<"r", "any">>, <<"w", "InitialContextSetupResponseSvc">> >>
     [] ph = "rel" -> << <<"w", "PDUSessionReleaseRequest">>, <<"w", "PDUSessionResourceReleaseResponse">>, <<"w", "PDUSessionReleaseComplete">> >>
     [] ph = "dereg" -> << <<"w", "DeregistrationRequest">>, <<"r", "any">>, <<"r", "any">>, <<"w", "UEContextReleaseComplete">> >>
Protected(t) == t \in {"SecurityModeComplete", "RegistrationComplete", "PDUSessionEstablishmentRequest", "ServiceRequest",
                       "PDUSessionReleaseRequest", "PDUSessionReleaseComplete", "DeregistrationRequest"}
NUE == MaxCnt
Psi(u) == u                        \* the emulator derives the session identity from the SUPI: distinct per UE, one per UE
Assigned(u) == 100 + u             \* what the network assigns to UE u's session (UE address, TEID, UPF address)

InitCfg == /\ cnt \in [reg : 0..MaxCnt, pdu : 0..MaxCnt, svc : 0..MaxCnt, rel : 0..MaxCnt, dereg : 0..MaxCnt]
           /\ fault \in [kind : Faults, at : 0..(IF Faults = {"none"} THEN 0 ELSE 6 * MaxCnt), fired : {FALSE}, closed : {FALSE}, ioAfter : {FALSE}]
           /\ (fault.kind = "none" => fault.at = 0)
InitRest == /\ pc = <<0, 0, 0>>
            /\ ue = [u \in 1..NUE |-> [amfId |-> -1, ulc |-> 0, gen |-> 0, reg |-> FALSE, pdu |-> FALSE]]
            /\ ul = <<>> /\ dl = <<>>
            /\ amf = [u \in 1..NUE |-> [st |-> "none", amfId |-> -1, ulx |-> 0, sess |-> "none", psi |-> -1, await |-> {}]]
            /\ bad = {} /\ used = {} /\ exit = -1 /\ banner = FALSE /\ reports = {}
Init == InitCfg /\ InitRest

\* ---------------------------------------------------------------------------------------------- emulator
NextPc(p) == IF p[1] = 0 THEN <<1, 1, 1>>
             ELSE IF p[3] < Len(Script(Phases[p[1]])) THEN <<p[1], p[2], p[3] + 1>>
             ELSE <<p[1], p[2] + 1, 1>>
RECURSIVE Norm(_, _)
Norm(p, c) == IF p[1] = 0 \/ p[1] > 5 THEN p
              ELSE IF p[2] > Limit(c, Phases[p[1]]) THEN Norm(<<p[1] + 1, 1, 1>>, c) ELSE p
Running == exit = -1
Die == exit' = 1 /\ UNCHANGED <<cnt, pc, ue, ul, dl, amf, bad, used, banner, reports>>
NoteIo == fault' = IF fault.closed THEN [fault EXCEPT !.ioAfter = TRUE] ELSE fault

EmuNGSetupSend == /\ Running /\ pc = <<0, 0, 0>>
                  /\ IF fault.closed THEN Die /\ NoteIo
                     ELSE /\ ul' = Append(ul, [t |-> "NGSetupRequest", u |-> 0, cnt |-> -1, amfId |-> -1, psi |-> -1])
                          /\ pc' = <<0, 0, 1>> /\ UNCHANGED <<cnt, ue, dl, amf, bad, used, exit, banner, reports, fault>>
EmuNGSetupRecv == /\ Running /\ pc = <<0, 0, 1>>
                  /\ IF Len(dl) > 0
                     THEN IF Head(dl).t = "garbage" THEN Die /\ fault' = fault
                          ELSE /\ dl' = Tail(dl) /\ pc' = Norm(<<1, 1, 1>>, cnt)
                               /\ UNCHANGED <<cnt, ue, ul, amf, bad, used, exit, banner, reports, fault>>
                     ELSE fault.closed /\ Die /\ NoteIo
\* one write or read of the current procedure
EmuStep ==
   /\ Running /\ pc[1] \in 1..5
   /\ LET ph == Phases[pc[1]] u == pc[2] st == Script(ph)[pc[3]] IN
      IF st[1] = "w" THEN
         IF fault.closed THEN Die /\ NoteIo          \* EPIPE on the closed association
         ELSE LET t == st[2]
                  newctx == t = "SecurityModeComplete"
                  c == IF newctx THEN 0 ELSE ue[u].ulc
                  g == IF newctx THEN ue[u].gen + 1 ELSE ue[u].gen
              IN /\ ul' = Append(ul, [t |-> t, u |-> u, cnt |-> IF Protected(t) THEN c ELSE -1, amfId |-> ue[u].amfId, psi |-> Psi(u)])
                 /\ ue' = [ue EXCEPT ![u].ulc = IF Protected(t) THEN c + 1 ELSE @, ![u].gen = g,
                                     ![u].reg = @ \/ t = "RegistrationComplete",
                                     ![u].pdu = @ \/ t = "PDUSessionResourceSetupResponse"]
                 /\ used' = IF Protected(t) THEN used \cup {<<u, c, g, Cardinality(used)>>} ELSE used
                 /\ pc' = Norm(NextPc(pc), cnt)
                 /\ UNCHANGED <<cnt, dl, amf, bad, exit, banner, reports, fault>>
      ELSE IF Len(dl) > 0 THEN
              IF Head(dl).t = "garbage" /\ st[2] # "ignored" THEN Die /\ fault' = fault
              ELSE /\ dl' = Tail(dl)
                   /\ ue' = IF st[2] = "AuthReq" THEN [ue EXCEPT ![u].amfId = Head(dl).amfId] ELSE ue
                   /\ reports' = IF st[2] = "PduSetupReq" THEN reports \cup {<<u, Head(dl).assigned>>} ELSE reports
                   /\ pc' = Norm(NextPc(pc), cnt)
                   /\ UNCHANGED <<cnt, ul, amf, bad, used, exit, banner, fault>>
           ELSE fault.closed /\ Die /\ NoteIo       \* EOF
EmuFinish == /\ Running /\ pc[1] = 6
             /\ exit' = 0 /\ banner' = TRUE
             /\ UNCHANGED <<cnt, pc, ue, ul, dl, amf, bad, used, reports, fault>>

\* ---------------------------------------------------------------------------------------------- AMF / SMF
Expect(a) == CASE a.st = "none" -> {"RegistrationRequest"}
               [] a.st = "authSent" -> {"AuthenticationResponse"}
               [] a.st = "smcSent" -> {"SecurityModeComplete"}
               [] a.st = "icsSent" -> {"InitialContextSetupResponse"}
               [] a.st = "icsDone" -> {"RegistrationComplete"}
               [] a.st = "registered" -> {"PDUSessionEstablishmentRequest", "ServiceRequest", "PDUSessionReleaseRequest", "PDUSessionReleaseComplete",
                                           "DeregistrationRequest", "PDUSessionResourceSetupResponse", "PDUSessionResourceReleaseResponse",
                                           "InitialContextSetupResponseSvc"}
               [] a.st = "deregSent" -> {"UEContextReleaseComplete"}
               [] a.st = "gone" -> {}
\* downlink messages the AMF emits for an accepted uplink message
Out(m, a) ==
   CASE m.t = "RegistrationRequest" -> << [t |-> "DL_AuthReq", amfId |-> 200 + m.u] >>
     [] m.t = "AuthenticationResponse" -> << [t |-> "DL_SMC", amfId |-> a.amfId] >>
     [] m.t = "SecurityModeComplete" -> << [t |-> "ICSReq", amfId |-> a.amfId] >>
     [] m.t = "RegistrationComplete" -> << [t |-> "DL_CfgUpd", amfId |-> a.amfId] >>
     [] m.t = "PDUSessionEstablishmentRequest" -> << [t |-> "PduSetupReq", amfId |-> a.amfId, assigned |-> Assigned(m.u)] >>
     [] m.t = "ServiceRequest" -> << [t |-> "ICSReq_Svc", amfId |-> a.amfId] >>
     [] m.t = "PDUSessionReleaseRequest" -> << [t |-> "PduRelCmd", amfId |-> a.amfId] >>
     [] m.t = "DeregistrationRequest" -> << [t |-> "DL_DeregAccept", amfId |-> a.amfId], [t |-> "CtxRelCmd", amfId |-> a.amfId] >>
     [] OTHER -> <<>>
\* deliver the AMF's messages, applying the fault to the message with index fault.at (the one message whose decoding result the emulator ignores is not garbled)
RECURSIVE Deliver(_, _, _, _)
Deliver(q, outs, f, n) ==     \* returns <<queue, fault>>; n = number of downlink messages produced so far
   IF Len(outs) = 0 THEN <<q, f>>
   ELSE IF f.closed THEN Deliver(q, Tail(outs), f, n + 1)
   ELSE IF f.kind = "close" /\ n = f.at THEN Deliver(q, Tail(outs), [f EXCEPT !.fired = TRUE, !.closed = TRUE], n + 1)
   \* the peer answers and is gone at once: message n is still delivered, nothing after it, and the emulator's next write fails
   ELSE IF f.kind = "closeafter" /\ n = f.at THEN Deliver(Append(q, Head(outs)), Tail(outs), [f EXCEPT !.fired = TRUE, !.closed = TRUE], n + 1)
   ELSE IF f.kind = "garbage" /\ n = f.at /\ ~f.fired /\ Head(outs).t # "DL_CfgUpd"
        THEN Deliver(Append(q, [t |-> "garbage", amfId |-> -1]), Tail(outs), [f EXCEPT !.fired = TRUE], n + 1)
   ELSE Deliver(Append(q, Head(outs)), Tail(outs), f, n + 1)

AmfRecv ==
   /\ Len(ul) > 0
   /\ LET m == Head(ul) IN
      /\ ul' = Tail(ul)
      /\ IF m.t = "NGSetupRequest"
         THEN LET r == Deliver(dl, << [t |-> "NGSetupResponse", amfId |-> -1] >>, fault, 0) IN
              dl' = r[1] /\ fault' = [r[2] EXCEPT !.at = IF r[2].fired \/ r[2].kind = "none" THEN @ ELSE @ - 1] /\ amf' = amf /\ bad' = bad
         ELSE LET a == amf[m.u]
                  okT == m.t \in Expect(a)
                  okId == m.t \in {"RegistrationRequest", "ServiceRequest"} \/ m.amfId = a.amfId
                  okC == m.cnt = -1 \/ (IF m.t = "SecurityModeComplete" THEN m.cnt = 0 ELSE m.cnt = a.ulx)
                  okS == /\ (m.t = "PDUSessionEstablishmentRequest" => a.sess \in {"none", "released"})
                         /\ (m.t \in {"PDUSessionReleaseRequest", "ServiceRequest"} => a.sess = "active")
                         /\ (m.t = "PDUSessionReleaseComplete" => a.sess = "releasing")
                         /\ (m.t \in {"PDUSessionResourceSetupResponse", "PDUSessionResourceReleaseResponse", "InitialContextSetupResponseSvc",
                                      "PDUSessionReleaseRequest", "PDUSessionReleaseComplete"} => m.psi = a.psi)
                         /\ (m.t = "PDUSessionResourceSetupResponse" => "SUResp" \in a.await)
                         /\ (m.t = "PDUSessionResourceReleaseResponse" => "RelResp" \in a.await)
                  newst == CASE m.t = "RegistrationRequest" -> "authSent" [] m.t = "AuthenticationResponse" -> "smcSent"
                             [] m.t = "SecurityModeComplete" -> "icsSent" [] m.t = "InitialContextSetupResponse" -> "icsDone"
                             [] m.t = "RegistrationComplete" -> "registered" [] m.t = "DeregistrationRequest" -> "deregSent"
                             [] m.t = "UEContextReleaseComplete" -> "gone" [] OTHER -> a.st
                  newsess == CASE m.t = "PDUSessionEstablishmentRequest" -> "setup" [] m.t = "PDUSessionResourceSetupResponse" -> "active"
                               [] m.t = "PDUSessionReleaseRequest" -> "releasing" [] m.t = "PDUSessionReleaseComplete" -> "released"
                               [] OTHER -> a.sess
                  newawait == CASE m.t = "PDUSessionEstablishmentRequest" -> a.await \cup {"SUResp"}
                                [] m.t = "PDUSessionResourceSetupResponse" -> a.await \ {"SUResp"}
                                [] m.t = "PDUSessionReleaseRequest" -> a.await \cup {"RelResp"}
                                [] m.t = "PDUSessionResourceReleaseResponse" -> a.await \ {"RelResp"}
                                [] OTHER -> a.await
                  r == Deliver(dl, Out(m, a), fault, 0)
              IN /\ bad' = bad \cup (IF okT THEN {} ELSE {<<"unexpected", m.t, a.st>>}) \cup (IF okId THEN {} ELSE {<<"ids", m.t>>})
                               \cup (IF okC THEN {} ELSE {<<"count", m.t, m.cnt, a.ulx>>}) \cup (IF okS THEN {} ELSE {<<"session", m.t, a.sess>>})
                 /\ amf' = [amf EXCEPT ![m.u] = [st |-> newst, amfId |-> IF m.t = "RegistrationRequest" THEN 200 + m.u ELSE a.amfId,
                                                 ulx |-> IF m.cnt = -1 THEN a.ulx ELSE m.cnt + 1, sess |-> newsess,
                                                 psi |-> IF m.t = "PDUSessionEstablishmentRequest" THEN m.psi ELSE a.psi, await |-> newawait]]
                 /\ dl' = r[1]
                 /\ fault' = [r[2] EXCEPT !.at = IF r[2].fired \/ r[2].kind = "none" THEN @ ELSE @ - Len(Out(m, a))]
   /\ UNCHANGED <<cnt, pc, ue, used, exit, banner, reports>>

Next == EmuNGSetupSend \/ EmuNGSetupRecv \/ EmuStep \/ EmuFinish \/ AmfRecv
Spec == Init /\ [][Next]_vars /\ WF_vars(EmuNGSetupSend \/ EmuNGSetupRecv \/ EmuStep \/ EmuFinish) /\ WF_vars(AmfRecv)

\* ---------------------------------------------------------------------------------------------- properties
NoFault == fault.kind = "none"
\* C01 / C02: a conformant AMF never has to reject anything (while no fault was injected)
AmfNeverRejects == ~fault.fired => bad = {}
\* C02: no uplink NAS COUNT is used twice under the same key generation of a UE
CountFresh == \A x, y \in used : (x[1] = y[1] /\ x[2] = y[2] /\ x[3] = y[3]) => x[4] = y[4]
\* C02: a procedure is started only for a UE that completed its prerequisite
Prereq == (Running /\ pc[1] \in 2..5 /\ pc[3] = 1) => (ue[pc[2]].reg /\ (pc[1] \in {3, 4} => ue[pc[2]].pdu))
\* C02: what is reported is what the network assigned to that UE
ReportedIsAssigned == \A r \in reports : r[2] = Assigned(r[1])
\* C19: after a fault there is neither a successful exit with further I/O nor a banner
FailStopSafe == /\ (fault.fired /\ fault.kind = "garbage" => ~banner \/ \E i \in 1..Len(dl) : dl[i].t = "garbage")
                /\ (fault.closed /\ fault.ioAfter => exit # 0)
                /\ (fault.closed /\ fault.ioAfter => ~banner)
\* C01/C02 liveness: without a fault the run completes with the banner; C19: the process always terminates (never hangs)
Completes == NoFault => <>(exit = 0 /\ banner)
Terminates == <>(exit # -1)
View == <<cnt, pc, ue, ul, dl, amf, bad, exit, banner, reports, fault>>
=============================================================================
