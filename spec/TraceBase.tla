------------------------------ MODULE TraceBase ------------------------------
(***************************************************************************)
(* Common machinery of the trace specifications (DESIGN 3.3).              *)
(* A trace is an ndjson file of events recorded from the real code.  The   *)
(* trace spec consumes one line per step; each family supplies an operator *)
(* explaining a line from the main specification.  A line that the         *)
(* specification cannot explain is reported ("REJECT ...") and counted;    *)
(* validation continues so that every unexplained line of a run is seen.   *)
(***************************************************************************)
EXTENDS Integers, Sequences, TLC, Json
CONSTANT TracePath
Trace == ndJsonDeserialize(TracePath)
Has(e, f) == f \in DOMAIN e
Str(v) == ToString(v)
Ok == [ok |-> TRUE, why |-> ""]
No(why) == [ok |-> FALSE, why |-> why]
\* first failing check of a sequence of <<condition, message>> pairs
RECURSIVE FirstBad(_)
FirstBad(cs) == IF Len(cs) = 0 THEN Ok ELSE IF Head(cs)[1] THEN FirstBad(Tail(cs)) ELSE No(Head(cs)[2])
\* the closing event of a recorder that kept references to results (ev.Hold): none of them may have changed since it was returned
HeldVerdict(e) == IF Len(e.changed) = 0 THEN Ok
                  ELSE No("a result returned earlier (or an argument buffer) was changed by a later call - the slice aliases storage that is reused: " \o ToString(e.changed))
Report(l, e, r) == IF r.ok THEN TRUE ELSE PrintT("REJECT line=" \o Str(l) \o " id=" \o Str(e.id) \o " ev=" \o e.ev \o " why=" \o r.why)
=============================================================================
