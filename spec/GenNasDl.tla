------------------------------ MODULE GenNasDl ------------------------------
(***************************************************************************)
(* C10, generate direction: the specification's AMF protects downlink      *)
(* histories.  Input: a skeleton trace (Start lines with keys, algorithms  *)
(* and the UE's downlink COUNT; Msg lines with header type, plain message  *)
(* and the number of sequence numbers skipped).  Output: the same lines    *)
(* with the protected PDU and the COUNT the AMF used, written as ndjson    *)
(* for the replayer (rec-nassec -replay) which feeds tglib.NASDecode.      *)
(***************************************************************************)
EXTENDS TraceBase, NasAlg
CONSTANT OutPath
VARIABLES l, amf, out

CMac(alg, key, count, b, d, m) == Nia(alg, key, BE(count, 4), b, d, <<m[1]>> \o m[2])
CCipher(alg, key, count, b, d, msg) == Nea(alg, key, BE(count, 4), b, d, msg)
S == INSTANCE NasSec WITH SqnMod <- 256, OvfMod <- 65536, Cipher <- CCipher, Mac <- CMac
Wire(pdu) == <<126, pdu.hdr>> \o pdu.mac \o <<pdu.sqn>> \o pdu.body

\* AMF: dl = next downlink COUNT to use.  The UE's dl is the COUNT of the last message it accepted.
AmfStart(e) == [ul |-> 0, dl |-> IF e.dl = 0 THEN 0 ELSE S!AddOne(e.dl), kEnc |-> e.kenc, kInt |-> e.kint, encAlg |-> e.enc, intAlg |-> e.int]
Init == l = 1 /\ amf = [ul |-> 0, dl |-> 0, kEnc |-> Zeros(16), kInt |-> Zeros(16), encAlg |-> 0, intAlg |-> 2] /\ out = <<>>
Next == /\ l <= Len(Trace)
        /\ LET e == Trace[l] IN
             IF e.ev = "Start" THEN amf' = AmfStart(e) /\ out' = Append(out, e)
             ELSE IF e.hdr = 0
                  THEN amf' = amf /\ out' = Append(out, [ev |-> "Dec", id |-> e.id, hist |-> e.hist, hdr |-> 0, plain |-> e.plain,
                                                        pdu |-> e.plain, count |-> 0])
                  ELSE \E r \in {S!Protect([amf EXCEPT !.dl = (amf.dl + e.skip) % S!CountMod], e.plain, e.hdr, S!NewCtxHdr(e.hdr), S!DirDown)} :
                          /\ amf' = r.sec
                          /\ out' = Append(out, [ev |-> "Dec", id |-> e.id, hist |-> e.hist, hdr |-> e.hdr, plain |-> e.plain,
                                                 pdu |-> Wire(r.pdu), count |-> r.count])
        /\ l' = l + 1
        /\ IF l = Len(Trace) THEN ndJsonSerialize(OutPath, out') ELSE TRUE
Consumed == TLCGet("stats").diameter - 1 = Len(Trace)
=============================================================================
