------------------------------ MODULE Milenage ------------------------------
(***************************************************************************)
(* TS 35.206 MILENAGE (f1, f1*, f2, f3, f4, f5, f5*, OPc) with the default *)
(* r1..r5 = 64,0,32,64,96 and c1..c5 = 0,1,2,4,8; the USIM-side AUTN check *)
(* and resynchronisation of TS 33.102 6.3.3/6.3.5; and the 5G AKA key      *)
(* hierarchy of TS 33.501 Annex A.2, A.4, A.6, A.7, A.8.                   *)
(***************************************************************************)
EXTENDS NasAlg, Sha256

\* cyclic rotation of a 16-octet block towards the most significant end by r bits (r multiple of 8)
RotBlk(b, r) == Tup([i \in 1..16 |-> b[((i - 1 + r \div 8) % 16) + 1]])
MilC(n) == Zeros(15) \o <<n>>
MilOPc(k, op) == XorBytes(AesEnc(k, op), op)
MilTemp(ks, opc, rand) == AesEncKS(ks, XorBytes(rand, opc))
MilOut1(k, opc, rand, sqn, amf) ==
   LET ks == AesKeySchedule(k)
       temp == MilTemp(ks, opc, rand)
       in1 == sqn \o amf \o sqn \o amf
   IN XorBytes(AesEncKS(ks, XorBytes(temp, RotBlk(XorBytes(in1, opc), 64))), opc)
MilOutN(k, opc, rand, r, c) ==
   LET ks == AesKeySchedule(k)
       temp == MilTemp(ks, opc, rand)
   IN XorBytes(AesEncKS(ks, XorBytes(RotBlk(XorBytes(temp, opc), r), MilC(c))), opc)
MilF1(k, opc, rand, sqn, amf) == SubSeq(MilOut1(k, opc, rand, sqn, amf), 1, 8)
MilF1Star(k, opc, rand, sqn, amf) == SubSeq(MilOut1(k, opc, rand, sqn, amf), 9, 16)
MilF2(k, opc, rand) == SubSeq(MilOutN(k, opc, rand, 0, 1), 9, 16)
MilF5(k, opc, rand) == SubSeq(MilOutN(k, opc, rand, 0, 1), 1, 6)
MilF3(k, opc, rand) == MilOutN(k, opc, rand, 32, 2)
MilF4(k, opc, rand) == MilOutN(k, opc, rand, 64, 4)
MilF5Star(k, opc, rand) == SubSeq(MilOutN(k, opc, rand, 96, 8), 1, 6)

\* AUTN = (SQN xor AK) || AMF || MAC-A
MilAutn(k, opc, rand, sqn, amf) == XorBytes(sqn, MilF5(k, opc, rand)) \o amf \o MilF1(k, opc, rand, sqn, amf)

(* USIM check (TS 33.102 6.3.3): macOk iff MAC-A is f1 over the           *)
(* de-concealed SQN and the AMF; fresh iff that SQN is greater than SQNms. *)
UsimCheck(k, opc, rand, autn, sqnms) ==
   LET ak == MilF5(k, opc, rand)
       sqn == XorBytes(SubSeq(autn, 1, 6), ak)
       amf == SubSeq(autn, 7, 8)
       mac == SubSeq(autn, 9, 16)
   IN [macOk |-> mac = MilF1(k, opc, rand, sqn, amf),
       fresh |-> BigCmp(sqn, sqnms) > 0,
       sqn |-> sqn,
       auts |-> XorBytes(sqnms, MilF5Star(k, opc, rand)) \o MilF1Star(k, opc, rand, sqnms, <<0, 0>>),
       res |-> MilF2(k, opc, rand), ck |-> MilF3(k, opc, rand), ik |-> MilF4(k, opc, rand)]
\* network-side AUTS check: returns [ok, sqnms]
AutsCheck(k, opc, rand, auts) ==
   LET sqnms == XorBytes(SubSeq(auts, 1, 6), MilF5Star(k, opc, rand))
   IN [ok |-> SubSeq(auts, 7, 14) = MilF1Star(k, opc, rand, sqnms, <<0, 0>>), sqnms |-> sqnms]

(***************************************************************************)
(* 5G AKA, UE side.  Strings are ASCII octet sequences.                    *)
(***************************************************************************)
Ascii5G == <<53, 71, 58>>                                           \* "5G:"
AsciiMnc == <<109, 110, 99>>                                        \* "mnc"
AsciiMcc == <<46, 109, 99, 99>>                                     \* ".mcc"
AsciiTail == <<46, 51, 103, 112, 112, 110, 101, 116, 119, 111, 114, 107, 46, 111, 114, 103>>  \* ".3gppnetwork.org"
\* serving network name (TS 24.501 9.12.1 / TS 33.501 6.1.1.4): mnc always 3 digits
Snn(mcc, mnc) == Ascii5G \o AsciiMnc \o (IF Len(mnc) = 2 THEN <<48>> \o mnc ELSE mnc) \o AsciiMcc \o mcc \o AsciiTail
Aka(k, opc, rand, autn, mcc, mnc, supiDigits, encAlg, intAlg) ==
   LET ck == MilF3(k, opc, rand)
       ik == MilF4(k, opc, rand)
       res == MilF2(k, opc, rand)
       snn == Snn(mcc, mnc)
       kausf == Kdf(ck \o ik, 106, <<snn, SubSeq(autn, 1, 6)>>)                    \* A.2, FC = 0x6A
       resStar == Drop(Kdf(ck \o ik, 107, <<snn, rand, res>>), 16)                   \* A.4, FC = 0x6B
       kseaf == Kdf(kausf, 108, <<snn>>)                                             \* A.6, FC = 0x6C
       kamf == Kdf(kseaf, 109, <<supiDigits, <<0, 0>> >>)                            \* A.7, FC = 0x6D, ABBA 0x0000
       kenc == Drop(Kdf(kamf, 105, << <<1>>, <<encAlg>> >>), 16)                     \* A.8, FC = 0x69
       kint == Drop(Kdf(kamf, 105, << <<2>>, <<intAlg>> >>), 16)
   IN [resStar |-> resStar, kausf |-> kausf, kseaf |-> kseaf, kamf |-> kamf, kenc |-> kenc, kint |-> kint,
       res |-> res, ck |-> ck, ik |-> ik]
=============================================================================
