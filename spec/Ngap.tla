-------------------------------- MODULE Ngap --------------------------------
(***************************************************************************)
(* Layer 2b: NGAP (TS 38.413).                                             *)
(*  - the type dictionary exported from the struct tags (NgapSchema), used *)
(*    with Per!PerDecode to decode any NGAP PDU inside TLC;                *)
(*  - accessors over decoded PDUs (message class, procedure code, IEs);    *)
(*  - a hand transcription of TS 38.413 for the messages on the emulator's *)
(*    path: procedure codes (9.4.7 / 9.4.6), message classes, procedure    *)
(*    criticality, and per message the table <<IE id, criticality,         *)
(*    presence>> of clause 9.2; and the ASN.1 constraints of the IE types  *)
(*    the emulator fills in, cross-checked against the tag schema.         *)
(***************************************************************************)
EXTENDS Per, Json
CONSTANT SchemaPath
NgapSchema == JsonDeserialize(SchemaPath)
NgapTypes == NgapSchema.types
NgapDecode(bytes) == PerDecode(NgapTypes, bytes, NgapSchema.root)
TransferDecode(name, bytes) == PerDecode(NgapTypes, bytes, NgapSchema.transfers[name])

\* ---- accessors --------------------------------------------------------------------------------------------
Fld(seqv, name) == FindField(seqv.fields, name)                       \* [present, v]
PduClass(t) == t.idx                                                   \* 0 initiating, 1 successful, 2 unsuccessful
PduMsg(t) == t.v                                                       \* SEQUENCE {ProcedureCode, Criticality, Value}
PduProc(t) == RefInt(Fld(t.v, "ProcedureCode").v)
PduCrit(t) == RefInt(Fld(t.v, "Criticality").v)
PduBody(t) == Fld(t.v, "Value").v.v                                    \* the message SEQUENCE inside the open type
HasIEs(t) == Fld(PduBody(t), "ProtocolIEs").present
PduIEs(t) == Fld(Fld(PduBody(t), "ProtocolIEs").v, "List").v.v          \* sequence of IE SEQUENCEs
IeId(ie) == RefInt(Fld(ie, "Id").v)
IeCrit(ie) == RefInt(Fld(ie, "Criticality").v)
IeVal(ie) == Fld(ie, "Value").v.v                                      \* value inside the open type
IeIds(ies) == {IeId(ies[i]) : i \in 1..Len(ies)}
RECURSIVE FindIe(_, _)
FindIe(ies, id) == IF Len(ies) = 0 THEN [found |-> FALSE] ELSE IF IeId(Head(ies)) = id THEN [found |-> TRUE, ie |-> Head(ies)] ELSE FindIe(Tail(ies), id)
IeCount(ies, id) == Len(SelectSeq(ies, LAMBDA x : IeId(x) = id))
\* the number / octets / bits a wrapper SEQUENCE {Value X} or X itself holds
RECURSIVE Leaf(_)
Leaf(v) == IF v.k = "seq" /\ Len(v.fields) = 1 THEN Leaf(v.fields[1].v) ELSE IF v.k = "choice" THEN Leaf(v.v) ELSE v

\* ---- TS 38.413 9.4.7: procedure codes ----------------------------------------------------------------------
Criticality == [reject |-> 0, ignore |-> 1, notify |-> 2]
Proc == [AMFConfigurationUpdate |-> 0, AMFStatusIndication |-> 1, CellTrafficTrace |-> 2, DeactivateTrace |-> 3,
         DownlinkNASTransport |-> 4, DownlinkNonUEAssociatedNRPPaTransport |-> 5, DownlinkRANConfigurationTransfer |-> 6,
         DownlinkRANStatusTransfer |-> 7, DownlinkUEAssociatedNRPPaTransport |-> 8, ErrorIndication |-> 9, HandoverCancel |-> 10,
         HandoverNotification |-> 11, HandoverPreparation |-> 12, HandoverResourceAllocation |-> 13, InitialContextSetup |-> 14,
         InitialUEMessage |-> 15, LocationReportingControl |-> 16, LocationReportingFailureIndication |-> 17, LocationReport |-> 18,
         NASNonDeliveryIndication |-> 19, NGReset |-> 20, NGSetup |-> 21, OverloadStart |-> 22, OverloadStop |-> 23, Paging |-> 24,
         PathSwitchRequest |-> 25, PDUSessionResourceModify |-> 26, PDUSessionResourceModifyIndication |-> 27,
         PDUSessionResourceRelease |-> 28, PDUSessionResourceSetup |-> 29, PDUSessionResourceNotify |-> 30, PrivateMessage |-> 31,
         PWSCancel |-> 32, PWSFailureIndication |-> 33, PWSRestartIndication |-> 34, RANConfigurationUpdate |-> 35,
         RerouteNASRequest |-> 36, RRCInactiveTransitionReport |-> 37, TraceFailureIndication |-> 38, TraceStart |-> 39,
         UEContextModification |-> 40, UEContextRelease |-> 41, UEContextReleaseRequest |-> 42, UERadioCapabilityCheck |-> 43,
         UERadioCapabilityInfoIndication |-> 44, UETNLABindingRelease |-> 45, UplinkNASTransport |-> 46,
         UplinkNonUEAssociatedNRPPaTransport |-> 47, UplinkRANConfigurationTransfer |-> 48, UplinkRANStatusTransfer |-> 49,
         UplinkUEAssociatedNRPPaTransport |-> 50, WriteReplaceWarning |-> 51]
\* ---- TS 38.413 9.4.7: protocol IE ids used by the specification ---------------------------------------------
Ie == [AllowedNSSAI |-> 0, AMFName |-> 1, AMFSetID |-> 3, AMFUENGAPID |-> 10, Cause |-> 15, CriticalityDiagnostics |-> 19,
       DefaultPagingDRX |-> 21, FiveGSTMSI |-> 26, GlobalRANNodeID |-> 27, GUAMI |-> 28, InfoOnRecommendedCells |-> 32,
       MobilityRestrictionList |-> 36, NASPDU |-> 38, PDUSessionResourceFailedToSetupListCxtRes |-> 55,
       PDUSessionResourceFailedToSetupListSURes |-> 58, PDUSessionResourceListCxtRelCpl |-> 60, PDUSessionResourceReleasedListRelRes |-> 70,
       PDUSessionResourceSetupListCxtReq |-> 71, PDUSessionResourceSetupListCxtRes |-> 72, PDUSessionResourceSetupListSUReq |-> 74,
       PDUSessionResourceSetupListSURes |-> 75, PDUSessionResourceToReleaseListRelCmd |-> 79, PLMNSupportList |-> 80,
       RANNodeName |-> 82, RANPagingPriority |-> 83, RANUENGAPID |-> 85, RelativeAMFCapacity |-> 86, RRCEstablishmentCause |-> 90,
       SecurityKey |-> 94, ServedGUAMIList |-> 96, SourceAMFUENGAPID |-> 100, SupportedTAList |-> 102, UEAggregateMaximumBitRate |-> 110,
       UEContextRequest |-> 112, UENGAPIDs |-> 114, UESecurityCapabilities |-> 119, UserLocationInformation |-> 121,
       PDUSessionAggregateMaximumBitRate |-> 130, PDUSessionResourceListCxtRelReq |-> 133, PDUSessionType |-> 134,
       QosFlowSetupRequestList |-> 136, ULNGUUPTNLInformation |-> 139]

\* ---- TS 38.413 9.2: messages on the emulator's path: class, procedure, procedure criticality, IE table ------
\* IE rows: <<id, criticality, mandatory>>
Msg38413 == [
  NGSetupRequest |-> [cls |-> 0, proc |-> Proc.NGSetup, crit |-> 0,
     ies |-> << <<27, 0, TRUE>>, <<82, 1, FALSE>>, <<102, 0, TRUE>>, <<21, 1, TRUE>> >>],
  InitialUEMessage |-> [cls |-> 0, proc |-> Proc.InitialUEMessage, crit |-> 1,
     ies |-> << <<85, 0, TRUE>>, <<38, 0, TRUE>>, <<121, 0, TRUE>>, <<90, 1, TRUE>>, <<26, 0, FALSE>>, <<3, 1, FALSE>>, <<112, 1, FALSE>>, <<0, 0, FALSE>> >>],
  UplinkNASTransport |-> [cls |-> 0, proc |-> Proc.UplinkNASTransport, crit |-> 1,
     ies |-> << <<10, 0, TRUE>>, <<85, 0, TRUE>>, <<38, 0, TRUE>>, <<121, 1, TRUE>> >>],
  InitialContextSetupResponse |-> [cls |-> 1, proc |-> Proc.InitialContextSetup, crit |-> 0,
     ies |-> << <<10, 1, TRUE>>, <<85, 1, TRUE>>, <<72, 1, FALSE>>, <<55, 1, FALSE>>, <<19, 1, FALSE>> >>],
  PDUSessionResourceSetupResponse |-> [cls |-> 1, proc |-> Proc.PDUSessionResourceSetup, crit |-> 0,
     ies |-> << <<10, 1, TRUE>>, <<85, 1, TRUE>>, <<75, 1, FALSE>>, <<58, 1, FALSE>>, <<19, 1, FALSE>> >>],
  PDUSessionResourceReleaseResponse |-> [cls |-> 1, proc |-> Proc.PDUSessionResourceRelease, crit |-> 0,
     ies |-> << <<10, 1, TRUE>>, <<85, 1, TRUE>>, <<70, 1, TRUE>>, <<121, 1, FALSE>>, <<19, 1, FALSE>> >>],
  UEContextReleaseComplete |-> [cls |-> 1, proc |-> Proc.UEContextRelease, crit |-> 0,
     ies |-> << <<10, 1, TRUE>>, <<85, 1, TRUE>>, <<121, 1, FALSE>>, <<32, 1, FALSE>>, <<60, 0, FALSE>>, <<19, 1, FALSE>> >>],
  UEContextReleaseRequest |-> [cls |-> 0, proc |-> Proc.UEContextReleaseRequest, crit |-> 1,
     ies |-> << <<10, 0, TRUE>>, <<85, 0, TRUE>>, <<133, 0, FALSE>>, <<15, 1, TRUE>> >>],
  \* downlink: what a conformant AMF sends (the specification's own AMF is held to these tables, StgOnline!DlComplaints)
  NGSetupResponse |-> [cls |-> 1, proc |-> Proc.NGSetup, crit |-> 0,
     ies |-> << <<1, 0, TRUE>>, <<96, 0, TRUE>>, <<86, 1, TRUE>>, <<80, 0, TRUE>>, <<19, 1, FALSE>> >>],
  DownlinkNASTransport |-> [cls |-> 0, proc |-> Proc.DownlinkNASTransport, crit |-> 1,
     ies |-> << <<10, 0, TRUE>>, <<85, 0, TRUE>>, <<48, 0, FALSE>>, <<83, 1, FALSE>>, <<38, 0, TRUE>>, <<36, 1, FALSE>>, <<31, 1, FALSE>>,
                <<110, 1, FALSE>>, <<0, 0, FALSE>> >>],
  InitialContextSetupRequest |-> [cls |-> 0, proc |-> Proc.InitialContextSetup, crit |-> 0,
     ies |-> << <<10, 0, TRUE>>, <<85, 0, TRUE>>, <<48, 0, FALSE>>, <<110, 0, FALSE>>, <<18, 1, FALSE>>, <<28, 0, TRUE>>, <<71, 0, FALSE>>,
                <<0, 0, TRUE>>, <<119, 0, TRUE>>, <<94, 0, TRUE>>, <<108, 1, FALSE>>, <<36, 1, FALSE>>, <<117, 1, FALSE>>, <<31, 1, FALSE>>,
                <<34, 1, FALSE>>, <<38, 1, FALSE>>, <<24, 0, FALSE>>, <<91, 1, FALSE>>, <<118, 1, FALSE>>, <<146, 1, FALSE>> >>],
  PDUSessionResourceSetupRequest |-> [cls |-> 0, proc |-> Proc.PDUSessionResourceSetup, crit |-> 0,
     ies |-> << <<10, 0, TRUE>>, <<85, 0, TRUE>>, <<83, 1, FALSE>>, <<38, 0, FALSE>>, <<74, 0, TRUE>> >>],
  PDUSessionResourceReleaseCommand |-> [cls |-> 0, proc |-> Proc.PDUSessionResourceRelease, crit |-> 0,
     ies |-> << <<10, 0, TRUE>>, <<85, 0, TRUE>>, <<83, 1, FALSE>>, <<38, 1, FALSE>>, <<79, 0, TRUE>> >>],
  UEContextReleaseCommand |-> [cls |-> 0, proc |-> Proc.UEContextRelease, crit |-> 0,
     ies |-> << <<114, 0, TRUE>>, <<15, 1, TRUE>> >>] ]
\* messages by <<class, procedure code>>
MsgOf(cls, proc) == {m \in DOMAIN Msg38413 : Msg38413[m].cls = cls /\ Msg38413[m].proc = proc}
\* the IEs of a message appear in the order of the table (TS 38.413 10.3.4.? "abstract syntax error": wrong order)
InTableOrder(t, m) ==
   LET tab == Msg38413[m].ies
       ies == PduIEs(t)
       Pos(id) == IF \E r \in 1..Len(tab) : tab[r][1] = id THEN CHOOSE r \in 1..Len(tab) : tab[r][1] = id ELSE 0
   IN \A i \in 1..Len(ies) - 1 : Pos(IeId(ies[i])) < Pos(IeId(ies[i + 1]))

\* A decoded PDU is a well-formed instance of message m of TS 38.413 9.2: class, procedure code and criticality as tabulated;
\* every mandatory IE present exactly once; every IE that is present is one the table lists (the tag schema already
\* guarantees that) with the tabulated criticality; no IE twice.  Returns the set of complaints.
WellFormed(t, m) ==
   LET tab == Msg38413[m]
       ies == PduIEs(t)
       Row(id) == CHOOSE i \in 1..Len(tab.ies) : tab.ies[i][1] = id
   IN (IF PduClass(t) = tab.cls THEN {} ELSE {"message class is " \o ToString(PduClass(t))})
      \cup (IF PduProc(t) = tab.proc THEN {} ELSE {"procedure code is " \o ToString(PduProc(t))})
      \cup (IF PduCrit(t) = tab.crit THEN {} ELSE {"procedure criticality is " \o ToString(PduCrit(t))})
      \cup {"mandatory IE " \o ToString(tab.ies[i][1]) \o " missing" : i \in {j \in 1..Len(tab.ies) : tab.ies[j][3] /\ IeCount(ies, tab.ies[j][1]) = 0}}
      \cup {"IE " \o ToString(IeId(ies[i])) \o " occurs more than once" : i \in {j \in 1..Len(ies) : IeCount(ies, IeId(ies[j])) > 1}}
      \cup {"IE " \o ToString(IeId(ies[i])) \o " is not an IE of this message" :
                i \in {j \in 1..Len(ies) : \A r \in 1..Len(tab.ies) : tab.ies[r][1] # IeId(ies[j])}}
      \cup {"IE " \o ToString(IeId(ies[i])) \o " has criticality " \o ToString(IeCrit(ies[i])) :
                i \in {j \in 1..Len(ies) : (\E r \in 1..Len(tab.ies) : tab.ies[r][1] = IeId(ies[j])) /\ IeCrit(ies[j]) # tab.ies[Row(IeId(ies[j]))][2]}}

\* ---- building value trees from the type dictionary ---------------------------------------------------------------
\* Build(ty, x): the value tree of type ty for the plain value x:
\*   int: a number record [n |-> ..] or [big |-> ..]      enum: the index       bool: a BOOLEAN
\*   octstr: octets      bitstr: [v |-> octets, nbits |-> n]
\*   seq: a record field name -> plain value (optional fields may be missing)
\*   seqof: a sequence of plain values
\*   choice / open: [alt |-> alternative name, v |-> plain value]
RECURSIVE Build(_, _)
RECURSIVE BuildFields(_, _, _)
BuildFields(fs, x, i) ==
   IF i > Len(fs) THEN <<>>
   ELSE LET f == fs[i] IN
        << IF f.name \in DOMAIN x THEN [name |-> f.name, opt |-> f.opt, present |-> TRUE, v |-> Build(f.t, x[f.name])]
           ELSE [name |-> f.name, opt |-> f.opt, present |-> FALSE] >> \o BuildFields(fs, x, i + 1)
RECURSIVE AltIndex(_, _, _)
AltIndex(alts, name, i) == IF i > Len(alts) THEN 0 ELSE IF alts[i].name = name THEN i ELSE AltIndex(alts, name, i + 1)
Build(ty0, x) ==
   LET ty == Resolve(NgapTypes, ty0) IN
   CASE ty.k = "int" -> [k |-> "int", lb |-> ty.lb, ub |-> ty.ub, ext |-> ty.ext, v |-> x]
     [] ty.k = "enum" -> [k |-> "enum", ub |-> ty.ub, ext |-> ty.ext, v |-> x]
     [] ty.k = "bool" -> [k |-> "bool", v |-> x]
     [] ty.k = "octstr" -> [k |-> "octstr", lb |-> ty.lb, ub |-> ty.ub, ext |-> ty.ext, v |-> x]
     [] ty.k = "bitstr" -> [k |-> "bitstr", lb |-> ty.lb, ub |-> ty.ub, ext |-> ty.ext, v |-> x.v, nbits |-> x.nbits]
     [] ty.k = "seq" -> [k |-> "seq", ext |-> ty.ext, fields |-> BuildFields(ty.fields, x, 1)]
     [] ty.k = "seqof" -> [k |-> "seqof", lb |-> ty.lb, ub |-> ty.ub, ext |-> ty.ext, v |-> Tup([i \in 1..Len(x) |-> Build(ty.t, x[i])])]
     [] ty.k = "choice" -> LET i == AltIndex(ty.alts, x.alt, 1) IN
                           [k |-> "choice", ub |-> ty.ub, ext |-> ty.ext, idx |-> i - 1, v |-> Build(ty.alts[i].t, x.v)]
     [] ty.k = "open" -> LET i == AltIndex(ty.alts, x.alt, 1) IN
                         [k |-> "open", ref |-> ty.alts[i].ref, altref |-> ty.alts[i].ref, v |-> Build(ty.alts[i].t, x.v)]
\* an NGAP PDU: cls 0|1|2, procedure code, criticality, message alternative name, plain IE list
\*   ies: sequence of [id, crit, alt (alternative name of the IE value), v (plain value)]
ClassField == <<"InitiatingMessage", "SuccessfulOutcome", "UnsuccessfulOutcome">>
NgapPdu(cls, proc, crit, msgAlt, ies) ==
   Build(NgapSchema.root,
         [alt |-> ClassField[cls + 1],
          v |-> [ProcedureCode |-> [Value |-> [n |-> proc]], Criticality |-> [Value |-> crit],
                 Value |-> [alt |-> msgAlt,
                            v |-> [ProtocolIEs |-> [List |-> Tup([i \in 1..Len(ies) |->
                                     [Id |-> [Value |-> [n |-> ies[i].id]], Criticality |-> [Value |-> ies[i].crit],
                                      Value |-> [alt |-> ies[i].alt, v |-> ies[i].v]]])]]]]])
NgapEncode(tree) == PerEncode(tree)

\* ---- generic search: the leaves of all components with a given field name, in document order ---------------------
RECURSIVE Named(_, _)
RECURSIVE NamedSeq(_, _, _)
NamedSeq(vs, name, i) == IF i > Len(vs) THEN <<>> ELSE Named(vs[i], name) \o NamedSeq(vs, name, i + 1)
RECURSIVE NamedFields(_, _, _)
NamedFields(fs, name, i) ==
   IF i > Len(fs) THEN <<>>
   ELSE (IF ~fs[i].present THEN <<>>
         ELSE IF fs[i].name = name THEN <<Leaf(fs[i].v)>>
         ELSE Named(fs[i].v, name)) \o NamedFields(fs, name, i + 1)
Named(v, name) ==
   CASE v.k = "seq" -> NamedFields(v.fields, name, 1)
     [] v.k = "seqof" -> NamedSeq(v.v, name, 1)
     [] v.k \in {"choice", "open"} -> Named(v.v, name)
     [] OTHER -> <<>>
Range(sq) == {sq[i] : i \in 1..Len(sq)}
Plmns(v) == {x.v : x \in Range(Named(v, "PLMNIdentity"))}
=============================================================================
