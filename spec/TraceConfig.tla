----------------------------- MODULE TraceConfig -----------------------------
(***************************************************************************)
(* C18: configuration file and command line.                               *)
(*  Config: every documented key of config.yaml reaches the structure the   *)
(*          procedures read, unchanged, key by key (24 keys).               *)
(*  Cli:    Mode(argv) = traffic mode for no argument, test mode for        *)
(*          exactly "-t", otherwise usage and no procedure (no banner, no   *)
(*          N2 traffic).                                                    *)
(* The on-the-wire part (IMSI -> SUCI, MCC/MNC -> PLMN/SNN, gNB id / bit    *)
(* length / name, K/OP/OPc -> RES*, SST/SD -> S-NSSAI, GTP address, the five *)
(* counts, N2 addresses and ports) is judged by Amf.tla / StgOnline.tla.    *)
(***************************************************************************)
EXTENDS TraceBase, FiniteSets
VARIABLES l, bad
StringKeys == {"amf_ngap_ip", "gnb_gtp_ip", "stg_ngap_ip", "gnb_id", "gnb_name", "initial_imsi", "mcc", "mnc", "k", "opc", "op", "sd",
               "downlink_iface", "uplink_iface"}
IntKeys == {"amf_ngap_port", "stg_ngap_port", "gnb_bitlength", "sst", "ue_number", "ue_registration", "ue_pdu", "ue_service",
            "ue_pdu_release", "ue_deregistration"}
ConfigComplaints(e) ==
   IF e.panic THEN {"loading the configuration panicked"}
   ELSE {"key " \o k \o " is not part of the loaded configuration" : k \in {x \in StringKeys : x \notin DOMAIN e.gotS} \cup {x \in IntKeys : x \notin DOMAIN e.gotI}}
        \cup {"key " \o k \o ": the procedures receive " \o Str(e.gotS[k]) \o " instead of " \o Str(e.assignS[k]) : k \in {x \in StringKeys \cap DOMAIN e.gotS : e.gotS[x] # e.assignS[x]}}
        \cup {"key " \o k \o ": the procedures receive " \o Str(e.gotI[k]) \o " instead of " \o Str(e.assignI[k]) : k \in {x \in IntKeys \cap DOMAIN e.gotI : e.gotI[x] # e.assignI[x]}}
Mode(argv) == IF Len(argv) = 0 THEN "traffic" ELSE IF argv = <<"-t">> THEN "test" ELSE "none"
CliComplaints(e) ==
   LET m == Mode(e.argv) IN
   (IF e.trafficMode = (m = "traffic") THEN {} ELSE {"TRAFFIC MODE banner " \o (IF e.trafficMode THEN "printed" ELSE "missing") \o " for argv " \o Str(e.argv)})
   \cup (IF e.testMode = (m = "test") THEN {} ELSE {"TEST MODE banner " \o (IF e.testMode THEN "printed" ELSE "missing") \o " for argv " \o Str(e.argv)})
   \cup (IF e.usage = (m = "none") THEN {} ELSE {"usage " \o (IF e.usage THEN "printed" ELSE "missing") \o " for argv " \o Str(e.argv)})
   \cup (IF m = "none" /\ e.nul > 0 THEN {"N2 traffic although argv " \o Str(e.argv) \o " selects no mode"} ELSE {})
   \cup (IF m = "test" /\ e.nul = 0 THEN {"test mode did not start NG Setup"} ELSE {})
   \cup (IF m = "none" /\ ~e.exited THEN {"the process keeps running although no mode was selected"} ELSE {})
Explain(e) == LET c == IF e.ev = "Config" THEN ConfigComplaints(e) ELSE IF e.ev = "Cli" THEN CliComplaints(e) ELSE {"no action of the specification matches this event"} IN
              IF c = {} THEN Ok ELSE No(Str(CHOOSE x \in c : TRUE) \o " (" \o Str(Cardinality(c)) \o " complaint(s))")
Init == l = 1 /\ bad = 0
Next == /\ l <= Len(Trace)
        /\ \E r \in {Explain(Trace[l])} : LET e == Trace[l] IN     \* bound once (TLC evaluates an action-level LET at every use)
             /\ Report(l, e, r)
             /\ bad' = bad + (IF r.ok THEN 0 ELSE 1)
        /\ l' = l + 1
Consumed == TLCGet("stats").diameter - 1 = Len(Trace)
=============================================================================
