INIT McInit
NEXT McNext
INVARIANT AddIsAddition
INVARIANT AddInjective
CHECK_DEADLOCK FALSE
