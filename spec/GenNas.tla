------------------------------- MODULE GenNas -------------------------------
(***************************************************************************)
(* C08 / C09, generate direction: the specification's TS 24.501 encoder    *)
(* turns abstract plain NAS messages (Skel lines: name, hdr, mand, opt,    *)
(* and a permutation of the optional IEs) into byte strings: canonical IE  *)
(* order and permuted order.  DumpTable writes the message tables as JSON  *)
(* for the case generator.                                                 *)
(***************************************************************************)
EXTENDS Nas24501, Json
CONSTANTS TracePath, OutPath
VARIABLES l, out
Skel == ndJsonDeserialize(TracePath)
Permute(s, p) == Tup([i \in 1..Len(p) |-> s[p[i]]])
Case(e) ==
   IF e.kind = "unknown" THEN [ev |-> "Nas", id |-> e.id, kind |-> "unknown", canon |-> e.bytes, perm |-> <<>>]
   ELSE LET m == [name |-> e.name, hdr |-> e.hdr, mand |-> e.mand, opt |-> e.opt]
            mp == [m EXCEPT !.opt = Permute(e.opt, e.perm)] IN
        [ev |-> "Nas", id |-> e.id, kind |-> "msg", abs |-> m, canon |-> NasEncode(m),
         perm |-> IF e.perm = Tup([i \in 1..Len(e.opt) |-> i]) THEN <<>> ELSE NasEncodeInOrder(mp)]
Init == l = 1 /\ out = <<>>
Next == /\ l <= Len(Skel)
        /\ out' = Append(out, Case(Skel[l]))
        /\ l' = l + 1
        /\ IF l = Len(Skel) THEN ndJsonSerialize(OutPath, out') ELSE TRUE
Consumed == TLCGet("stats").diameter - 1 = Len(Skel)
\* table dump: one step
DumpInit == l = 1 /\ out = <<>>
DumpNext == l = 1 /\ l' = 2 /\ out' = out /\ JsonSerialize(OutPath, [n \in NasNames |-> NasTable[n]])
Dumped == TLCGet("stats").diameter = 2
=============================================================================
