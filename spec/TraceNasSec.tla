----------------------------- MODULE TraceNasSec -----------------------------
(***************************************************************************)
(* C06 / C10: binds tglib.EncodeNasPduWithSecurity/NASEncode (uplink) and  *)
(* tglib.NASDecode (downlink) to the actions of NasSec, instantiated with  *)
(* the real algorithms (NasAlg) and the real counter widths.               *)
(* State: sec = the UE's security state according to the specification;    *)
(* rx = the state of a conformant receiver (AMF) holding the same keys.    *)
(* Events: Start (history begins: keys, algorithms, counters), Enc (one    *)
(* uplink message), Dec (one downlink message, see GenNasDl.tla).  A        *)
(* history may hold several UE contexts used alternately (field ctx): the  *)
(* state is kept per context, so a counter or key shared between contexts  *)
(* in the implementation cannot be explained.                              *)
(***************************************************************************)
EXTENDS TraceBase, NasAlg
VARIABLES l, bad, secs, rxs      \* per context

CMac(alg, key, count, b, d, m) == Nia(alg, key, BE(count, 4), b, d, <<m[1]>> \o m[2])
CCipher(alg, key, count, b, d, msg) == Nea(alg, key, BE(count, 4), b, d, msg)
S == INSTANCE NasSec WITH SqnMod <- 256, OvfMod <- 65536, Cipher <- CCipher, Mac <- CMac

Wire(pdu) == <<126, pdu.hdr>> \o pdu.mac \o <<pdu.sqn>> \o pdu.body
Parse(b) == [hdr |-> b[2], mac |-> SubSeq(b, 3, 6), sqn |-> b[7], body |-> SubSeq(b, 8, Len(b))]
NoSec == [ul |-> 0, dl |-> 0, kEnc |-> Zeros(16), kInt |-> Zeros(16), encAlg |-> 0, intAlg |-> 2]

StartSec(e) == [ul |-> e.ul, dl |-> e.dl, kEnc |-> e.kenc, kInt |-> e.kint, encAlg |-> e.enc, intAlg |-> e.int]
RxOf(s) == [s EXCEPT !.ul = IF s.ul = 0 THEN 0 ELSE s.ul - 1]

\* returns [r: verdict, sec: next sec, rx: next rx]
StepEnc(e, sec, rx) ==
   IF ~e.avail
   THEN [r |-> FirstBad(<< <<~e.err, "sending without a security context failed">>,
                           <<e.out = e.plain, "without a security context the message must be sent unchanged">>,
                           <<e.ulAfter = sec.ul /\ e.dlAfter = sec.dl, "counters changed by a plain message">> >>),
         sec |-> [sec EXCEPT !.ul = e.ulAfter, !.dl = e.dlAfter], rx |-> rx]
   ELSE LET p == S!Protect(sec, e.plain, e.hdr, e.new, S!DirUp)
            \* a context taken into use by a message whose header type does not say so (types 1, 2): the receiver knows from the procedure
            \* that the counters start again
            rx0 == IF e.new /\ ~S!NewCtxHdr(e.hdr) THEN [rx EXCEPT !.ul = 0] ELSE rx
            u == IF Len(e.out) >= 8 THEN S!Unprotect(rx0, Parse(e.out), S!DirUp)
                 ELSE [macOk |-> FALSE, plain |-> <<>>, count |-> -1, sec |-> rx]
            nsec == [p.sec EXCEPT !.ul = e.ulAfter, !.dl = e.dlAfter]
        IN [r |-> FirstBad(<<
                 <<~e.err, "protecting the message failed">>,
                 <<Len(e.out) >= 8 /\ e.out[1] = 126 /\ e.out[2] = e.hdr, "security header (EPD, header type) wrong">>,
                 <<e.out[7] = S!Sqn(p.count), "sequence number octet is " \o Str(e.out[7]) \o " but message " \o Str(e.step)
                       \o " of this history must carry NAS COUNT " \o Str(p.count)>>,
                 <<SubSeq(e.out, 8, Len(e.out)) = p.pdu.body,
                       IF S!Ciphered(e.hdr) THEN "message part differs from the ciphered plain message"
                       ELSE "message part must be the plain message (in clear) under an integrity-only header type">>,
                 <<SubSeq(e.out, 3, 6) = p.pdu.mac, "MAC differs from NIA(K_NASint, COUNT, BEARER=1, DIRECTION=uplink, SQN || message): expected "
                       \o Str(p.pdu.mac) \o " got " \o Str(SubSeq(e.out, 3, 6))>>,
                 <<e.ulAfter = p.sec.ul, "uplink NAS COUNT after the call is " \o Str(e.ulAfter) \o ", expected " \o Str(p.sec.ul)>>,
                 <<e.dlAfter = p.sec.dl, "downlink NAS COUNT after the call is " \o Str(e.dlAfter) \o ", expected " \o Str(p.sec.dl)>>,
                 <<u.macOk, "a conformant receiver with the same keys rejects the MAC">>,
                 <<u.plain = e.plain, "a conformant receiver does not recover the submitted plain message">> >>),
            sec |-> nsec, rx |-> RxOf(nsec)]

\* an authentication run in the middle of a context's life (re-authentication of a registered UE, a repeated challenge): the emulator's
\* key derivation replaces the NAS keys at once (event Rekey carries the keys it left in the context), but the NAS COUNTs belong to the
\* context in use and only a new context taken into use by a later message starts them again (TS 24.501 4.4.3.1, TS 33.501 6.4.3.1)
StepRekey(e, sec, rx) ==
   [r |-> FirstBad(<< <<e.ul = sec.ul, "an authentication run changed the uplink NAS COUNT of the context in use (" \o Str(sec.ul) \o " -> " \o Str(e.ul) \o ")">>,
                      <<e.dl = sec.dl, "an authentication run changed the downlink NAS COUNT of the context in use (" \o Str(sec.dl) \o " -> " \o Str(e.dl) \o ")">> >>),
    sec |-> [sec EXCEPT !.kEnc = e.kenc, !.kInt = e.kint, !.ul = e.ul, !.dl = e.dl],
    rx |-> [rx EXCEPT !.kEnc = e.kenc, !.kInt = e.kint]]

\* a send that is refused (no encoder for the message type, octets that are no NAS message): nothing goes out, no COUNT is consumed
StepRefuse(e, sec, rx) ==
   [r |-> FirstBad(<< <<e.err /\ ~e.panic, "a message that cannot be encoded was not refused with an error">>,
                      <<e.ulAfter = e.ulBefore /\ e.ulBefore = sec.ul, "a refused send changed the uplink NAS COUNT (" \o Str(e.ulBefore) \o " -> " \o Str(e.ulAfter) \o ")">>,
                      <<e.dlAfter = e.dlBefore, "a refused send changed the downlink NAS COUNT">> >>),
    sec |-> sec, rx |-> rx]
\* downlink: the PDU was produced by the specification's AMF (GenNasDl); the expectation is recomputed here
StepDec(e, sec, rx) ==
   LET u == S!Unprotect(sec, IF e.hdr = 0 THEN [hdr |-> 0, body |-> e.pdu] ELSE Parse(e.pdu), S!DirDown)
       nsec == [u.sec EXCEPT !.dl = e.obs.dl]
   IN [r |-> FirstBad(<<
            <<u.macOk /\ u.plain = e.plain /\ (e.hdr = 0 \/ u.count = e.count), "generator inconsistency (specification's own AMF and UE disagree)">>,
            <<~e.obs.err, "the downlink message was rejected (error, nil or panic)">>,
            <<e.obs.same /\ e.obs.plain = e.plain, "recovered message differs from the plain message the AMF protected">>,
            <<e.obs.dl = u.sec.dl, "downlink NAS COUNT estimate is " \o Str(e.obs.dl) \o " but the AMF used " \o Str(u.sec.dl)>> >>),
       sec |-> nsec, rx |-> rx]

\* the counter type itself (security.Count): one row = one overflow value x a list of sequence numbers
StepCount(e, sec, rx) ==
   LET n == Len(e.sqns)
       okAt(i) == LET c == S!MkCount(e.ovf, e.sqns[i]) nx == S!AddOne(c) IN
                  /\ e.get[i] = c /\ e.sqnOut[i] = S!Sqn(c) /\ e.ovfOut[i] = S!Ovf(c) /\ e.sqnOut[i] = e.sqns[i] /\ e.ovfOut[i] = e.ovf
                  /\ e.next[i] = nx
                  /\ e.afterSqn[i] = S!MkCount(S!Ovf(nx), e.x)
                  /\ e.afterOvf[i] = S!MkCount(e.y, e.x)
       badIdx == {i \in 1..n : ~okAt(i)} IN
   [r |-> IF badIdx = {} /\ Len(e.get) = n THEN Ok
          ELSE LET i == CHOOSE j \in badIdx : \A k \in badIdx : j <= k IN
               No("NAS COUNT arithmetic: overflow " \o Str(e.ovf) \o ", sequence number " \o Str(e.sqns[i]) \o ": Set/Get/SQN/Overflow/AddOne/SetSQN/SetOverflow gave "
                  \o Str(<<e.get[i], e.sqnOut[i], e.ovfOut[i], e.next[i], e.afterSqn[i], e.afterOvf[i]>>) \o ", the 24-bit counter of TS 24.501 4.4.3.1 gives "
                  \o Str(<<S!MkCount(e.ovf, e.sqns[i]), e.sqns[i], e.ovf, S!AddOne(S!MkCount(e.ovf, e.sqns[i])),
                            S!MkCount(S!Ovf(S!AddOne(S!MkCount(e.ovf, e.sqns[i]))), e.x), S!MkCount(e.y, e.x)>>)),
    sec |-> sec, rx |-> rx]

Ctxs == 0..3
Cx(e) == IF "ctx" \in DOMAIN e THEN e.ctx ELSE 0
Init == l = 1 /\ bad = 0 /\ secs = [c \in Ctxs |-> NoSec] /\ rxs = [c \in Ctxs |-> NoSec]
Next == /\ l <= Len(Trace)
        /\ LET e == Trace[l] c == Cx(e) IN
             IF e.ev = "Start" THEN secs' = [secs EXCEPT ![c] = StartSec(e)] /\ rxs' = [rxs EXCEPT ![c] = RxOf(StartSec(e))] /\ bad' = bad
             ELSE \E s \in {IF e.ev = "Enc" THEN StepEnc(e, secs[c], rxs[c])
                           ELSE IF e.ev = "Dec" THEN StepDec(e, secs[c], rxs[c])
                           ELSE IF e.ev = "Count" THEN StepCount(e, secs[c], rxs[c])
                           ELSE IF e.ev = "Refuse" THEN StepRefuse(e, secs[c], rxs[c])
                           ELSE IF e.ev = "Rekey" THEN StepRekey(e, secs[c], rxs[c])
                           ELSE IF e.ev = "Held" THEN [r |-> HeldVerdict(e), sec |-> secs[c], rx |-> rxs[c]]
                           ELSE [r |-> No("no action of the specification matches this event"), sec |-> secs[c], rx |-> rxs[c]]} :
                     /\ Report(l, e, s.r)
                     /\ secs' = [secs EXCEPT ![c] = s.sec] /\ rxs' = [rxs EXCEPT ![c] = s.rx]
                     /\ bad' = bad + (IF s.r.ok THEN 0 ELSE 1)
        /\ l' = l + 1
Consumed == TLCGet("stats").diameter - 1 = Len(Trace)
=============================================================================
