--------------------------- MODULE StgClampLemma ---------------------------
(***************************************************************************)
(* The repetition-count clamps of the emulator's test-mode main program    *)
(* (Stg!Limit) for ALL repetition counts, not only the 0..MaxCnt that      *)
(* MCStg / MCStg3 enumerate; discharged symbolically by Apalache (SMT      *)
(* over unbounded integers).                                               *)
(*   PrereqForAllCounts: whatever the five counts are, the number of UEs   *)
(*     a phase runs for never exceeds the number of UEs that completed the *)
(*     phase it depends on (sessions <= registrations; service requests    *)
(*     and releases <= sessions; deregistrations <= registrations) - the   *)
(*     arithmetic half of C02's "no procedure is attempted for a UE that   *)
(*     has not completed its prerequisite procedure";                      *)
(*   NothingDropped: a requested repetition that does have its             *)
(*     prerequisite is performed (the clamp is the count itself whenever   *)
(*     the count does not exceed what the prerequisite phase delivered);   *)
(*   NotTheRegistrationCount: clamping releases by the registrations (the  *)
(*     mistake MCStg's anti-vacuity mutation makes) is a different         *)
(*     function: some counts distinguish the two.                          *)
(* Min and Limit are textual copies of Stg.tla (checked by selftest_spec). *)
(***************************************************************************)
EXTENDS Integers
VARIABLES
  \* @type: Int;
  reg,
  \* @type: Int;
  pdu,
  \* @type: Int;
  svc,
  \* @type: Int;
  rel,
  \* @type: Int;
  dereg
Min(a, b) == IF a < b THEN a ELSE b
Cnt == [reg |-> reg, pdu |-> pdu, svc |-> svc, rel |-> rel, dereg |-> dereg]
\* the clamps of stg-utg.go (test mode)
\* @type: ({reg: Int, pdu: Int, svc: Int, rel: Int, dereg: Int}, Str) => Int;
Limit(c, ph) == CASE ph = "reg" -> c.reg
                  [] ph = "pdu" -> Min(c.reg, c.pdu)
                  [] ph = "svc" -> Min(Min(c.reg, c.pdu), c.svc)
                  [] ph = "rel" -> Min(Min(c.reg, c.pdu), c.rel)
                  [] ph = "dereg" -> Min(c.reg, c.dereg)

Init == /\ reg \in Nat /\ pdu \in Nat /\ svc \in Nat /\ rel \in Nat /\ dereg \in Nat
Next == UNCHANGED <<reg, pdu, svc, rel, dereg>>

PrereqForAllCounts ==
   /\ Limit(Cnt, "pdu") <= Limit(Cnt, "reg")
   /\ Limit(Cnt, "svc") <= Limit(Cnt, "pdu")
   /\ Limit(Cnt, "rel") <= Limit(Cnt, "pdu")
   /\ Limit(Cnt, "dereg") <= Limit(Cnt, "reg")
   /\ \A ph \in {"reg", "pdu", "svc", "rel", "dereg"} : Limit(Cnt, ph) >= 0
NothingDropped ==
   /\ (pdu <= reg => Limit(Cnt, "pdu") = pdu)
   /\ (svc <= Limit(Cnt, "pdu") => Limit(Cnt, "svc") = svc)
   /\ (rel <= Limit(Cnt, "pdu") => Limit(Cnt, "rel") = rel)
   /\ (dereg <= reg => Limit(Cnt, "dereg") = dereg)
Lemmas == PrereqForAllCounts /\ NothingDropped
\* expected to be VIOLATED (anti-vacuity): the release clamp is not Min(reg, rel)
ReleaseClampIsRegistrationClamp == Limit(Cnt, "rel") = Min(reg, rel)
=============================================================================
