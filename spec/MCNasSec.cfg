CONSTANTS SqnMod = 3 OvfMod = 2 MaxMsgs = 9 MaxKeys = 1 Payloads = {"m1", "m2"}
SPECIFICATION Spec
INVARIANT NoAlarm
INVARIANT NthCount
INVARIANT CountFresh
CONSTRAINT Bound
CHECK_DEADLOCK FALSE
