------------------------------ MODULE SelfTest ------------------------------
(***************************************************************************)
(* Published vectors for the standards transcriptions (DESIGN 2.4).        *)
(* Evaluated inside Next (deep recursion needs the worker thread stack).   *)
(***************************************************************************)
EXTENDS Milenage, TLC
VARIABLE n

Hex(c) == IF c >= 97 THEN c - 87 ELSE IF c >= 65 THEN c - 55 ELSE c - 48
Seq16(f(_)) == [i \in 1..16 |-> f(i)]

AesKey == <<0,1,2,3,4,5,6,7,8,9,10,11,12,13,14,15>>
AesPt == <<0,17,34,51,68,85,102,119,136,153,170,187,204,221,238,255>>
AesCt == <<105,196,224,216,106,123,4,48,216,205,183,128,112,180,197,90>>          \* FIPS-197 C.1
ShaAbc == <<186,120,22,191,143,1,207,234,65,65,64,222,93,174,34,35,176,3,97,163,150,23,122,156,180,16,255,97,242,0,21,173>>
\* RFC 4231 test case 1
Rfc4231Key == Rep(20, 11)
Rfc4231Data == <<72,105,32,84,104,101,114,101>>
Rfc4231Mac == <<176,52,76,97,216,219,56,83,92,168,175,206,175,11,241,43,136,29,194,0,201,131,61,167,38,233,55,108,46,50,207,247>>
\* RFC 4493 AES-CMAC: key 2b7e1516 28aed2a6 abf71588 09cf4f3c
CmacKey == <<43,126,21,22,40,174,210,166,171,247,21,136,9,207,79,60>>
CmacEmpty == <<187,29,105,41,233,89,55,40,127,163,125,18,155,117,103,70>>
CmacM16 == <<107,193,190,226,46,64,159,150,233,61,126,17,115,147,23,42>>
CmacT16 == <<7,10,22,180,107,77,65,68,247,155,221,157,208,74,40,124>>
\* TS 35.207 test set 1
MilK == <<70,91,92,232,177,153,180,159,170,95,10,46,226,56,166,188>>
MilRand == <<35,85,60,190,150,55,168,157,33,138,230,77,174,71,191,53>>
MilSqn == <<255,155,180,208,182,7>>
MilAmf == <<185,185>>
MilOp == <<205,194,2,213,18,62,32,246,43,109,103,106,199,44,179,24>>
MilOpcExp == <<205,99,203,113,149,74,159,78,72,165,153,78,55,160,43,175>>
MilF1Exp == <<74,159,250,195,84,223,175,179>>
MilF1SExp == <<1,207,175,158,196,232,113,233>>
MilF2Exp == <<165,66,17,213,227,186,80,191>>
MilF5Exp == <<170,104,156,100,131,112>>
MilF3Exp == <<180,11,169,163,197,139,42,5,187,240,217,135,178,27,248,203>>
MilF4Exp == <<247,105,188,215,81,4,70,4,18,118,114,113,28,109,52,65>>
MilF5SExp == <<69,30,139,236,164,59>>
\* SNOW 3G implementors' test data, test set 1
SnowK == << <<43,214,69,159>>, <<130,197,179,0>>, <<149,44,73,16>>, <<72,129,255,72>> >>
SnowIV == << <<234,2,71,20>>, <<173,92,77,132>>, <<223,31,155,37>>, <<28,11,244,95>> >>

Check(name, ok) == IF ok THEN TRUE ELSE Print(<<"SELFTEST FAILED", name>>, FALSE)
Init == n = 0
Next == /\ n = 0 /\ n' = 1
        /\ Check("aes", AesEnc(AesKey, AesPt) = AesCt)
        /\ Check("sha256", Sha256(<<97,98,99>>) = ShaAbc)
        /\ Check("hmac", HmacSha256(Rfc4231Key, Rfc4231Data) = Rfc4231Mac)
        /\ Check("cmac0", Cmac(CmacKey, <<>>) = CmacEmpty)
        /\ Check("cmac16", Cmac(CmacKey, CmacM16) = CmacT16)
        /\ Check("opc", MilOPc(MilK, MilOp) = MilOpcExp)
        /\ Check("f1", MilF1(MilK, MilOpcExp, MilRand, MilSqn, MilAmf) = MilF1Exp)
        /\ Check("f1s", MilF1Star(MilK, MilOpcExp, MilRand, MilSqn, MilAmf) = MilF1SExp)
        /\ Check("f2", MilF2(MilK, MilOpcExp, MilRand) = MilF2Exp)
        /\ Check("f5", MilF5(MilK, MilOpcExp, MilRand) = MilF5Exp)
        /\ Check("f3", MilF3(MilK, MilOpcExp, MilRand) = MilF3Exp)
        /\ Check("f4", MilF4(MilK, MilOpcExp, MilRand) = MilF4Exp)
        /\ Check("f5s", MilF5Star(MilK, MilOpcExp, MilRand) = MilF5SExp)
        /\ Check("tables", AesSBox = AesSBoxDef /\ SnowSQTab = SnowSQDef /\ SnowMulAlphaTab = SnowMulAlphaDef /\ SnowDivAlphaTab = SnowDivAlphaDef)
        /\ Check("snow3g", SnowKeystream(SnowK, SnowIV, 2) = << <<171,238,151,4>>, <<122,195,19,115>> >>)
Post == TLCGet("stats").diameter = 2
Spec == Init /\ [][Next]_n
=============================================================================
