----------------------------- MODULE PduExtract -----------------------------
(***************************************************************************)
(* C12 (termination): a transcription of the emulator's walk over the      *)
(* optional IEs of a PDU SESSION ESTABLISHMENT ACCEPT as a state machine,  *)
(* model-checked for termination over all octet strings of bounded length  *)
(* from a small alphabet of octet classes.  A behaviour that never reaches *)
(* "done" is a lead; the driver turns the counterexample input into real   *)
(* octets and replays it into the real function under a watchdog.          *)
(*                                                                         *)
(* Alphabet: 41 (PDU address IEI), 128 (half-octet IE), 89 (fixed, 2       *)
(* octets), 34 (one length octet), 121 (two length octets), 0, 1, 2         *)
(* (lengths; 0 and 1, 2 are at the same time IEIs the table does not know). *)
(***************************************************************************)
EXTENDS Integers, Sequences, TLC
CONSTANTS MaxLen, Policy         \* Policy "stopOnUnknown" = the loop as the code performs it (since fix e.g. known_findings C12); "noAdvanceOnUnknown" = the historic defect, kept as a lead generator
VARIABLES input, index, pc, steps
vars == <<input, index, pc, steps>>
Alphabet == {41, 128, 89, 34, 121, 0, 1, 2}
RECURSIVE SeqsUpTo(_)
SeqsUpTo(n) == IF n = 0 THEN {<<>>} ELSE LET s == SeqsUpTo(n - 1) IN s \cup {Append(x, a) : x \in {y \in s : Len(y) = n - 1}, a \in Alphabet}
\* the emulator's table: positive = fixed total length, -1 / -2 = one / two length octets, 0 = not in the table
Table(id) == CASE id = 89 -> 2 [] id = 34 -> -1 [] id = 121 -> -2 [] OTHER -> 0
At(i) == input[i + 1]                         \* 0-based indexing as in the code
InRange(i) == i >= 0 /\ i < Len(input)
Init == input \in SeqsUpTo(MaxLen) /\ index = 0 /\ pc = "loop" /\ steps = 0
Step ==
   /\ pc = "loop"
   /\ steps' = steps + 1
   /\ UNCHANGED input
   /\ IF index >= Len(input) THEN pc' = "done" /\ index' = index
      ELSE LET id == At(index) IN
           IF id = 41 THEN (IF InRange(index + 6) THEN pc' = "done" /\ index' = index + 7 ELSE pc' = "panic" /\ index' = index)
           ELSE IF (id \div 16) * 16 \in {128, 192} THEN pc' = "loop" /\ index' = index + 1
           ELSE LET L == Table(id) IN
                IF L > 0 THEN pc' = "loop" /\ index' = index + L
                ELSE IF L = -1 THEN (IF InRange(index + 1) THEN pc' = "loop" /\ index' = index + 2 + At(index + 1) ELSE pc' = "panic" /\ index' = index)
                ELSE IF L = -2 THEN (IF InRange(index + 2) THEN pc' = "loop" /\ index' = index + 3 + At(index + 1) * 256 + At(index + 2) ELSE pc' = "panic" /\ index' = index)
                ELSE IF Policy = "stopOnUnknown" THEN pc' = "done" /\ index' = index
                ELSE pc' = "loop" /\ index' = index          \* the code changes nothing: the walk does not advance
Spec == Init /\ [][Step]_vars /\ WF_vars(Step)
\* termination: the walk ends (value or panic); a walk that does not advance never does
Terminates == <>(pc \in {"done", "panic"})
Progress == [][pc = "loop" /\ pc' = "loop" => index' > index]_vars
Bounded == steps <= MaxLen + 1
=============================================================================
