------------------------------- MODULE TracePer -------------------------------
(***************************************************************************)
(* C03 / C04: binds aper.MarshalWithParams / UnmarshalWithParams and        *)
(* ngap.Encoder / Decoder to Per.tla.                                      *)
(* Event Enc: a Go value (exported as a value tree with the constraints of *)
(* its struct tags), the bytes the real encoder produced, the tree the     *)
(* real decoder produced from those bytes and the bytes of a second        *)
(* encode.                                                                 *)
(*   C03: a value satisfying its constraints is encoded to exactly          *)
(*        Per!PerEncode(tree); a value violating them is refused with an    *)
(*        error.  A value using an extension (outside the root of an        *)
(*        extensible constraint) may be refused, but if it is put on the   *)
(*        wire the bytes must be the X.691 encoding.                       *)
(*   C04: decoding inverts encoding (tree equality) and re-encoding         *)
(*        reproduces the bytes.  When the real bytes equal the              *)
(*        specification's bytes this is at the same time the statement     *)
(*        about canonical encodings produced by an independent encoder.    *)
(* Event Dec (GenPer): bytes produced by the specification's encoder fed   *)
(*        to the real decoder.                                             *)
(***************************************************************************)
EXTENDS TraceBase, Per
VARIABLES l, bad

\* C03 and C04 are judged independently: a wrong encoding (C03) does not hide whether the library's decoder inverts the library's
\* encoder (C04, first sentence), and vice versa.  Contents of 16384 units or more are outside C04's claim.
RECURSIVE PerLong(_)
PerLong(t) == CASE t.k = "octstr" -> Len(t.v) >= 16384
                [] t.k = "bitstr" -> t.nbits >= 16384
                [] t.k = "seqof" -> Len(t.v) >= 16384 \/ \E i \in 1..Len(t.v) : PerLong(t.v[i])
                [] t.k = "seq" -> \E i \in 1..Len(t.fields) : t.fields[i].present /\ PerLong(t.fields[i].v)
                [] t.k = "choice" -> PerLong(t.v)
                [] t.k = "open" -> PerLong(t.v) \/ Len(PerEncode(t.v)) >= 16384
                [] OTHER -> FALSE
\* what the specification says about the value of an Enc event, computed once per event (the Next action binds it)
EncFacts(e) == LET valid == PerValid(e.tree) IN
               [valid |-> valid, exp |-> IF valid THEN PerEncode(e.tree) ELSE <<>>, inRoot |-> valid /\ PerInRoot(e.tree),
                long |-> valid /\ PerLong(e.tree)]
C03Verdict(e, f) ==
   IF ~f.valid
   THEN (IF e.err /\ ~e.panic THEN Ok ELSE No("C03: a value outside its constraints was put on the wire instead of being refused"))
   ELSE IF e.err THEN (IF f.inRoot /\ ~e.panic THEN No("C03: a value within its constraints was refused (error or panic)")
                       ELSE IF e.panic THEN No("C03: the encoder panicked") ELSE Ok)   \* extension values may be refused
   ELSE LET exp == f.exp IN
        IF e.bytes # exp THEN No("C03: encoding differs from X.691: expected " \o Str(exp) \o " got " \o Str(e.bytes)) ELSE Ok
C04Verdict(e, f) ==
   IF ~f.valid \/ e.err \/ f.long THEN Ok
   ELSE IF ~e.dec.done \/ e.dec.err THEN No("C04: the encoding was not accepted by the decoder")
   ELSE IF PerNorm(e.dec.tree) # PerNorm(e.tree) THEN No("C04: decoded value differs from the encoded value")
   ELSE IF e.dec.reErr \/ e.dec.reBytes # e.bytes THEN No("C04: re-encoding the decoded value does not reproduce the bytes")
   ELSE Ok
\* spec-encoded canonical bytes through the real decoder
ExplainDec(e) ==
   IF e.obs.err THEN No("C04: canonical encoding from the reference encoder was rejected")
   ELSE IF PerNorm(e.obs.tree) # PerNorm(e.tree) THEN No("C04: decoded value differs from the value the reference encoder encoded")
   ELSE IF e.obs.reErr \/ e.obs.reBytes # e.bytes THEN No("C04: re-encoding does not reproduce the reference bytes")
   ELSE Ok
Explain(e) == CASE e.ev = "Dec" -> ExplainDec(e)
                [] e.ev = "Held" -> HeldVerdict(e)
                [] OTHER -> No("no action of the specification matches this event")

Init == l = 1 /\ bad = 0
Next == /\ l <= Len(Trace)
        /\ LET e == Trace[l] IN
             IF e.ev = "Enc"
             THEN \E f \in {EncFacts(e)} : \E r3 \in {C03Verdict(e, f)}, r4 \in {C04Verdict(e, f)} :
                  /\ Report(l, e, r3) /\ Report(l, e, r4)
                  \* second pass request: where the library's bytes are not the reference encoder's (or it refused), the reference
                  \* encoding itself is fed to the real decoder (event Dec); values using an extension of an extensible constraint, which the
                  \* library may refuse to encode, are left out as in C03
                  /\ (IF f.valid /\ f.inRoot /\ ~f.long /\ (e.err \/ e.bytes # f.exp)
                      THEN PrintT("SPECBYTES " \o Str(e.id) \o " " \o Str(f.exp)) ELSE TRUE)
                  /\ bad' = bad + (IF r3.ok THEN 0 ELSE 1) + (IF r4.ok THEN 0 ELSE 1)
             ELSE \E r \in {Explain(e)} :
                  /\ Report(l, e, r)
                  /\ bad' = bad + (IF r.ok THEN 0 ELSE 1)
        /\ l' = l + 1
Consumed == TLCGet("stats").diameter - 1 = Len(Trace)
=============================================================================
