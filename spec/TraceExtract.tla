---------------------------- MODULE TraceExtract ----------------------------
(***************************************************************************)
(* C12: what the extractors returned (obs) against what the generator put  *)
(* in (exp, written by GenExtract), and termination of the extractors on   *)
(* arbitrary inputs (event Term: outcome "value" | "panic" | "hang").       *)
(***************************************************************************)
EXTENDS TraceBase
VARIABLES l, bad
Explain(e) ==
   CASE e.ev = "Extract" ->
          IF e.obs.hang THEN No("the extraction does not terminate on a well-formed setup request")
          ELSE IF e.obs.panic THEN No("the extraction panics on a well-formed setup request")
          ELSE IF Len(e.nas) > 0 /\ e.obs.ip # e.exp.ip THEN No("UE address " \o Str(e.obs.ip) \o " reported, the network encoded " \o Str(e.exp.ip))
          ELSE IF e.obs.teid # e.exp.teid THEN No("uplink TEID " \o Str(e.obs.teid) \o " reported, the network encoded " \o Str(e.exp.teid))
          ELSE IF e.obs.upf # e.exp.upf THEN No("UPF address " \o Str(e.obs.upf) \o " reported, the network encoded " \o Str(e.exp.upf))
          ELSE Ok
     [] e.ev = "Term" -> IF e.outcome = "hang" THEN No("the extraction (" \o e.fn \o ") does not terminate on input " \o Str(e.input)) ELSE Ok
     [] OTHER -> No("no action of the specification matches this event")
Init == l = 1 /\ bad = 0
Next == /\ l <= Len(Trace)
        /\ \E r \in {Explain(Trace[l])} : LET e == Trace[l] IN     \* bound once (TLC evaluates an action-level LET at every use)
             /\ Report(l, e, r)
             /\ bad' = bad + (IF r.ok THEN 0 ELSE 1)
        /\ l' = l + 1
Consumed == TLCGet("stats").diameter - 1 = Len(Trace)
=============================================================================
