-------------------------------- MODULE Conc --------------------------------
(***************************************************************************)
(* C20: concurrent use of the security functions for different UEs.        *)
(* The atomic specification: every operation returns F(arguments), here    *)
(* abstracted to the identity <<goroutine, call>> of the key it was given. *)
(* Implementation models (constant Impl):                                  *)
(*   "shared"  the SNOW 3G LFSR/FSM live in package-level variables:        *)
(*             InitSnow3g (segment 0) writes them, GenerateKeystream        *)
(*             (segment 2) reads them - what the code did before the fix;   *)
(*   "locked"  the same under one lock held from Init to the end of         *)
(*             GenerateKeystream;                                           *)
(*   "local"   per-call state.                                              *)
(* A call consists of three segments separated by the gate points of hook  *)
(* H4 ("init-end", "gen-start").  TLC enumerates every interleaving of the *)
(* segments of G goroutines x NCalls calls; each complete interleaving is  *)
(* printed as a schedule and replayed through the gate hooks into the real *)
(* code (rec-conc); ResultsSequential is the property.                     *)
(***************************************************************************)
EXTENDS Integers, Sequences, FiniteSets, TLC
CONSTANTS G, NCalls, Impl, Emit
VARIABLES seg,      \* seg[g]: number of segments goroutine g has completed (0..3*NCalls)
          shared,   \* key identity loaded in the package-level cipher state
          mine,     \* mine[g]: key identity in g's own state ("local")
          lock,     \* 0 = free, else the holder
          results,  \* results[g]: sequence of key identities the keystream of each finished call came from
          sched,    \* history: the interleaving so far
          printed
vars == <<seg, shared, mine, lock, results, sched, printed>>
Gs == 1..G
Total == 3 * NCalls
Init == /\ seg = [g \in Gs |-> 0] /\ shared = <<0, 0>> /\ mine = [g \in Gs |-> <<0, 0>>] /\ lock = 0
        /\ results = [g \in Gs |-> <<>>] /\ sched = <<>> /\ printed = FALSE
CallOf(g) == (seg[g] \div 3) + 1
Step(g) ==
   /\ seg[g] < Total
   /\ LET k == seg[g] % 3 me == <<g, CallOf(g)>> IN
      /\ (Impl = "locked" /\ k = 0 => lock = 0)
      /\ lock' = IF Impl = "locked" THEN (IF k = 0 THEN g ELSE IF k = 2 THEN 0 ELSE lock) ELSE lock
      /\ shared' = IF k = 0 /\ Impl # "local" THEN me ELSE shared
      /\ mine' = IF k = 0 THEN [mine EXCEPT ![g] = me] ELSE mine
      /\ results' = IF k = 2 THEN [results EXCEPT ![g] = Append(@, IF Impl = "local" THEN mine[g] ELSE shared)] ELSE results
   /\ seg' = [seg EXCEPT ![g] = @ + 1]
   /\ sched' = Append(sched, g)
   /\ printed' = printed
Finished == \A g \in Gs : seg[g] = Total
EmitSched == /\ Finished /\ ~printed /\ printed' = TRUE
         /\ (IF Emit THEN PrintT("SCHED " \o ToString(sched)) ELSE TRUE)
         /\ UNCHANGED <<seg, shared, mine, lock, results, sched>>
Next == (\E g \in Gs : Step(g)) \/ EmitSched
Spec == Init /\ [][Next]_vars
\* the atomic specification: the n-th result of goroutine g comes from its own n-th key
ResultsSequential == \A g \in Gs : \A n \in 1..Len(results[g]) : results[g][n] = <<g, n>>
=============================================================================
