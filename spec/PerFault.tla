------------------------------ MODULE PerFault ------------------------------
(***************************************************************************)
(* C14, generate direction: the fault model for NGAP decoding.  From each  *)
(* valid encoding (Seed event) the actions below derive faulty inputs:      *)
(*   Truncate   every proper prefix                                         *)
(*   FlipBit    every single-bit flip (this reaches every extension bit,    *)
(*              presence bit, choice index, length and count field)         *)
(*   SetOctet   every octet replaced by 0x00, 0x7F, 0x80, 0xFF and the      *)
(*              fragment markers 0xC1, 0xC4, 0xC5 (adversarial lengths and   *)
(*              counts: an octet that is a length/count field is driven to  *)
(*              its extremes, a two-octet length to 0x3FFF and beyond)       *)
(*   MaxCount   every pair of adjacent octets replaced by 0xFFFF (largest    *)
(*              two-octet count / length)                                    *)
(*   Insert / Delete one octet at every position (shifts all later fields)   *)
(*   Field      structure-directed (Per!PerFieldStarts of the seed's value  *)
(*              tree gives the bit position at which every field of the     *)
(*              encoding begins: extension bit, presence bitmap, choice     *)
(*              index, length determinant): the octet holding a field start *)
(*              is set to 0x80 / 0xC0 / 0xFF (extension bit set, bitmap all  *)
(*              ones) and the following one or two octets to adversarial     *)
(*              lengths 00, 01, 09, 7F, 80 00, 80 FF, BF FF, C1, C4, FF - a   *)
(*              decoder taking the extension path reads them as the length; *)
(*              and the input is cut right behind the field start            *)
(*   Open       container-consistent faults (see OpenCases): the contents of *)
(*              one open type are corrupted and the PDU re-encoded around    *)
(*              them with Per.tla, so all enclosing lengths are consistent   *)
(* The cases are written as ndjson for the replayer (rec-total -replay).     *)
(***************************************************************************)
EXTENDS Per, Json
CONSTANTS TracePath, OutPath, Budget       \* Budget: at most this many cases per seed and fault kind (evenly spaced positions)
VARIABLES l, out
Seeds == ndJsonDeserialize(TracePath)
Set1(b, i, x) == [b EXCEPT ![i] = x]
FlipAt(b, p) == LET i == (p \div 8) + 1 m == 2^(7 - (p % 8)) IN [b EXCEPT ![i] = IF (@ \div m) % 2 = 1 THEN @ - m ELSE @ + m]
\* at most Budget evenly spaced positions of 1..n
Positions(n) == IF n <= Budget THEN 1..n ELSE {1 + ((k - 1) * n) \div Budget : k \in 1..Budget}
Case(s, kind, pos, bytes) == [id |-> ToString(s.id) \o "-" \o kind \o "-" \o ToString(pos), kind |-> kind, bytes |-> bytes]
SetToSeq(S) == LET RECURSIVE F(_) F(T) == IF T = {} THEN <<>> ELSE LET x == CHOOSE y \in T : TRUE IN <<x>> \o F(T \ {x}) IN F(S)
CasesOf(s) ==
   LET b == s.bytes n == Len(b) IN
   SetToSeq({Case(s, "truncate", i, SubSeq(b, 1, i - 1)) : i \in Positions(n)}
      \cup {Case(s, "flipbit", p, FlipAt(b, p - 1)) : p \in Positions(8 * n)}
      \cup {Case(s, "setoctet" \o ToString(x), i, Set1(b, i, x)) : i \in Positions(n), x \in {0, 127, 128, 255, 193, 196, 197}}
      \cup {Case(s, "maxcount", i, Set1(Set1(b, i, 255), i + 1, 255)) : i \in Positions(n - 1)}
      \cup {Case(s, "insert", i, SubSeq(b, 1, i - 1) \o <<255>> \o SubSeq(b, i, n)) : i \in Positions(n)}
      \cup {Case(s, "delete", i, SubSeq(b, 1, i - 1) \o SubSeq(b, i + 1, n)) : i \in Positions(n)}
      \* decoder dispatch: the procedure code octet (the second octet of every PDU) set to other procedure codes and to undefined ones
      \cup (IF n >= 2 THEN {Case(s, "proc" \o ToString(c), 2, Set1(b, 2, c)) : c \in (IF Budget >= 100 THEN 0..255 ELSE (0..63) \cup {127, 128, 255}) \ {b[2]}} ELSE {}))
\* structure-directed faults; FieldBudget field starts per seed (evenly spaced over the sorted positions)
FieldBudget == Budget
Sorted(S) == LET RECURSIVE F(_) F(T) == IF T = {} THEN <<>> ELSE LET x == CHOOSE y \in T : \A z \in T : y <= z IN <<x>> \o F(T \ {x}) IN F(S)
PickEven(q) == IF Len(q) <= FieldBudget THEN {q[i] : i \in 1..Len(q)} ELSE {q[1 + ((k - 1) * Len(q)) \div FieldBudget] : k \in 1..FieldBudget}
Heads == <<128, 255>>
Tails == << <<0>>, <<1>>, <<9>>, <<127>>, <<128, 0>>, <<191, 255>>, <<255>> >>
LenTails == << <<0>>, <<1>>, <<9>>, <<127>>, <<128, 0>>, <<128, 255>>, <<191, 255>>, <<193>>, <<196>>, <<255>> >>
Overwrite(b, i, w) == Tup([j \in 1..Len(b) |-> IF j >= i /\ j < i + Len(w) THEN w[j - i + 1] ELSE b[j]])
FieldCases(s) ==
   IF "tree" \notin DOMAIN s THEN <<>>
   ELSE LET b == s.bytes n == Len(b)
            mk == PerMarks(PerEmpty, s.tree, 0)
            octs == PickEven(Sorted({(p \div 8) + 1 : p \in {q \in mk.m : q < 8 * n}}))
            lens == {(p \div 8) + 1 : p \in {q \in mk.ln : q < 8 * n}}
            \* open-type length octets that follow an information element's identifier (2 octets) and criticality (1 octet)
            opens == {i \in {(p \div 8) + 1 : p \in {q \in mk.ol : q < 8 * n}} : i >= 6}
            UnkId(i) == Overwrite(b, i - 3, <<255, 240>>)
        IN SetToSeq({Case(s, "field" \o ToString(Heads[h]) \o "x" \o ToString(t), i, Overwrite(b, i, <<Heads[h]>> \o Tails[t]))
                        : i \in octs, h \in 1..Len(Heads), t \in 1..Len(Tails)}
                    \cup {Case(s, "fieldcut", i, SubSeq(b, 1, i)) : i \in octs}
                    \* every octet-aligned length determinant (open-type lengths of the IEs, string and list lengths), no budget on the
                    \* positions: driven to the adversarial lengths, to every smaller value (the content ends early, at most Budget values
                    \* evenly spaced) and to its own value + 1
                    \cup {Case(s, "len" \o ToString(t), i, Overwrite(b, i, LenTails[t])) : i \in lens, t \in 1..Len(LenTails)}
                    \cup UNION {{Case(s, "lenshrink" \o ToString(k - 1), i, Set1(b, i, k - 1)) : k \in Positions(IF b[i] < 128 THEN b[i] ELSE 0)} : i \in lens}
                    \cup {Case(s, "lenplus", i, Set1(b, i, IF b[i] < 255 THEN b[i] + 1 ELSE 255)) : i \in lens}
                    \cup {Case(s, "lencut", i, SubSeq(b, 1, i)) : i \in lens}
                    \* a run of fragment headers in front of a length determinant: a decoder that adds up fragment sizes before it reads
                    \* any content allocates 64K units per input octet
                    \cup {Case(s, "lenrun" \o ToString(k), i, SubSeq(b, 1, i - 1) \o Tup([j \in 1..k |-> 196]) \o SubSeq(b, i, n)) : i \in lens, k \in {4, 64}}
                    \* decoder dispatch on the information element identifier: an identifier no message knows (the value must be skipped or
                    \* refused whatever its length determinant claims: adversarial lengths, input ending right behind the length or a few
                    \* octets later), and identifiers of other information elements (the value is decoded as another type)
                    \cup {Case(s, "unkid", i, UnkId(i)) : i \in opens}
                    \cup {Case(s, "unkidlen" \o ToString(t) \o "c" \o ToString(c), i,
                                LET w == Overwrite(UnkId(i), i, LenTails[t]) e == i + Len(LenTails[t]) - 1 IN
                                IF c = 0 THEN w ELSE SubSeq(w, 1, IF e + c - 1 < n THEN e + c - 1 ELSE n))
                              : i \in opens, t \in {5, 6, 8, 9, 10}, c \in {0, 1, 4}}
                    \cup {Case(s, "othid" \o ToString(x), i, Overwrite(b, i - 3, <<0, x>>)) : i \in opens, x \in {10, 38, 85, 121}})
\* container-consistent faults: the contents of one open type (the message body, the value of one IE, an embedded list item
\* container) are corrupted and the whole PDU is re-encoded around them, so that every enclosing length is right and the decoder
\* gets as far as the corrupted field:  contents cut at a field start; a field start octet set to 0x80 / 0xFF followed by an adversarial
\* length; the contents' own length determinants driven to extremes or preceded by a run of fragment headers; octets appended
InnerBudget == IF Budget >= 100 THEN 24 ELSE 6
PickN(q, n) == IF Len(q) <= n THEN {q[i] : i \in 1..Len(q)} ELSE {q[1 + ((k - 1) * Len(q)) \div n] : k \in 1..n}
InnerTails == << <<0>>, <<9>>, <<128, 0>>, <<255>> >>
OpenCases(s) ==
   IF "tree" \notin DOMAIN s THEN <<>>
   ELSE LET paths == OpenPaths(s.tree, <<>>) IN
        SetToSeq(UNION {
           LET p == paths[pi]
               v == NodeAt(s.tree, p).v
               mk == PerMarks(PerEmpty, v, 0)
               ib == PerComplete(mk.s)
               n == Len(ib)
               octs == PickN(Sorted({(q \div 8) + 1 : q \in {x \in mk.m : x < 8 * n}}), InnerBudget)
               lens == {(q \div 8) + 1 : q \in {x \in mk.ln : x < 8 * n}}
               Re(kind, i, raw) == Case(s, "open" \o ToString(pi) \o kind, i, PerEncode(SetRawAt(s.tree, p, raw)))
           IN {Re("cut", i, SubSeq(ib, 1, i - 1)) : i \in octs}
              \cup {Re("cutafter", i, SubSeq(ib, 1, i)) : i \in octs}
              \cup {Re("start" \o ToString(h) \o "x" \o ToString(t), i, Overwrite(ib, i, <<h>> \o InnerTails[t])) : i \in octs, h \in {128, 255}, t \in 1..Len(InnerTails)}
              \cup {Re("len" \o ToString(t), i, Overwrite(ib, i, LenTails[t])) : i \in lens, t \in 1..Len(LenTails)}
              \cup {Re("lenrun" \o ToString(k), i, SubSeq(ib, 1, i - 1) \o Tup([j \in 1..k |-> 196]) \o SubSeq(ib, i, n)) : i \in lens, k \in {4, 64}}
              \cup {Re("append", n, ib \o <<255>>), Re("empty", 0, <<>>)}
           : pi \in 1..Len(paths)})
\* sizes beyond their bound, everything else consistent: a string or list with a constrained size whose length field (a constrained
\* whole number of ceil(log2(range)) bits, which can say more than the range when that is no power of two) announces ub + 1 units, or the
\* largest number the field can hold, with all the announced units present, the extension bit clear and every enclosing length right
RECURSIVE SizedPaths(_, _)
RECURSIVE SizedPathsSeq(_, _, _, _)
SizedPathsSeq(vs, p, i, isFields) ==
   IF i > Len(vs) THEN <<>>
   ELSE (IF isFields THEN (IF vs[i].present THEN SizedPaths(vs[i].v, Append(p, i)) ELSE <<>>) ELSE SizedPaths(vs[i], Append(p, i)))
        \o SizedPathsSeq(vs, p, i + 1, isFields)
SizedPaths(t, p) ==
   (IF t.k \in {"octstr", "bitstr", "seqof"} /\ t.lb.has /\ t.ub.has /\ ~FixedSize(t) /\ SizeIsCW(t) THEN <<p>> ELSE <<>>)
   \o (CASE t.k \in {"open", "choice"} -> (IF "raw" \in DOMAIN t THEN <<>> ELSE SizedPaths(t.v, Append(p, 0)))
          [] t.k = "seq" -> SizedPathsSeq(t.fields, p, 1, TRUE)
          [] t.k = "seqof" -> SizedPathsSeq(t.v, p, 1, FALSE)
          [] OTHER -> <<>>)
RECURSIVE ReplaceAt(_, _, _)
ReplaceAt(t, p, node) ==
   IF Len(p) = 0 THEN node
   ELSE CASE t.k \in {"open", "choice"} -> [t EXCEPT !.v = ReplaceAt(t.v, Tail(p), node)]
          [] t.k = "seq" -> [t EXCEPT !.fields[Head(p)].v = ReplaceAt(t.fields[Head(p)].v, Tail(p), node)]
          [] t.k = "seqof" -> [t EXCEPT !.v[Head(p)] = ReplaceAt(t.v[Head(p)], Tail(p), node)]
Stretch(node, L) ==
   CASE node.k = "octstr" -> [node EXCEPT !.v = @ \o Tup([i \in 1..(L - Len(@)) |-> 65])] @@ [forceRoot |-> TRUE]
     [] node.k = "bitstr" -> [node EXCEPT !.nbits = L, !.v = @ \o Tup([i \in 1..(((L + 7) \div 8) - Len(@)) |-> 0])] @@ [forceRoot |-> TRUE]
     [] node.k = "seqof" -> [node EXCEPT !.v = @ \o Tup([i \in 1..(L - Len(@)) |-> @[Len(@)]])] @@ [forceRoot |-> TRUE]
OverCases(s) ==
   IF "tree" \notin DOMAIN s THEN <<>>
   ELSE LET paths == SizedPaths(s.tree, <<>>)
            picks == PickN(paths, IF Budget >= 100 THEN 12 ELSE 5) IN
        SetToSeq(UNION {
           LET node == NodeAt(s.tree, p)
               r == node.ub.n - node.lb.n + 1
               top == node.lb.n + (IF r <= 255 THEN 2^BitsFor(r) - 1 ELSE IF r = 256 THEN 255 ELSE 65535)
               Ls == {L \in {node.ub.n + 1, top} : L > node.ub.n /\ L <= 2100 /\ (node.k # "seqof" \/ Len(node.v) > 0)}
           IN {Case(s, "over" \o node.k, L, PerEncode(ReplaceAt(s.tree, p, Stretch(node, L)))) : L \in Ls}
           : p \in picks})
Init == l = 1 /\ out = 0
Next == /\ l <= Len(Seeds)
        /\ \E cs \in {CasesOf(Seeds[l]) \o FieldCases(Seeds[l]) \o OpenCases(Seeds[l]) \o OverCases(Seeds[l])} :
             /\ ndJsonSerialize(OutPath \o "." \o ToString(l), cs)
             /\ out' = out + Len(cs)
        /\ l' = l + 1
Consumed == TLCGet("stats").diameter - 1 = Len(Seeds)
=============================================================================
