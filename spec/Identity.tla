------------------------------ MODULE Identity ------------------------------
(***************************************************************************)
(* Subscriber and PLMN identities.                                         *)
(*  - PLMN identity: TS 24.501 9.11.3.4 / TS 38.413 9.3.3.5 (3 octets):    *)
(*      octet 1 = MCC digit 2 | MCC digit 1                                *)
(*      octet 2 = MNC digit 3 (or 1111 for a 2-digit MNC) | MCC digit 3    *)
(*      octet 3 = MNC digit 2 | MNC digit 1                                *)
(*  - 5GS mobile identity of type SUCI with SUPI format IMSI and the null   *)
(*    protection scheme (TS 24.501 9.11.3.4, figure 9.11.3.4.3).            *)
(* Digits are numbers 0..9; digit strings are sequences of digits.         *)
(***************************************************************************)
EXTENDS Bytes

PlmnOctets(mcc, mnc) ==
   << mcc[2] * 16 + mcc[1],
      (IF Len(mnc) = 2 THEN 15 ELSE mnc[3]) * 16 + mcc[3],
      mnc[2] * 16 + mnc[1] >>
\* inverse: [ok, mcc, mnc]
PlmnDecode(o) ==
   LET d1 == o[1] % 16 d2 == o[1] \div 16 d3 == o[2] % 16 m3 == o[2] \div 16 m1 == o[3] % 16 m2 == o[3] \div 16 IN
   IF d1 > 9 \/ d2 > 9 \/ d3 > 9 \/ m1 > 9 \/ m2 > 9 \/ (m3 > 9 /\ m3 # 15) THEN [ok |-> FALSE]
   ELSE [ok |-> TRUE, mcc |-> <<d1, d2, d3>>, mnc |-> IF m3 = 15 THEN <<m1, m2>> ELSE <<m1, m2, m3>>]

RECURSIVE BcdDigits(_)
\* digits of a BCD string: low nibble first, high nibble second, 1111 as filler in the last high nibble only
BcdDigits(o) == IF Len(o) = 0 THEN <<>>
                ELSE LET lo == Head(o) % 16 hi == Head(o) \div 16 IN
                     IF Len(o) = 1 /\ hi = 15 THEN <<lo>> ELSE <<lo, hi>> \o BcdDigits(Tail(o))
RECURSIVE BcdPack(_)
BcdPack(ds) == IF Len(ds) = 0 THEN <<>> ELSE IF Len(ds) = 1 THEN <<15 * 16 + ds[1]>> ELSE <<ds[2] * 16 + ds[1]>> \o BcdPack(SubSeq(ds, 3, Len(ds)))
AllDigits(ds) == \A i \in 1..Len(ds) : ds[i] \in 0..9

\* the value part of a 5GS mobile identity IE -> [ok, mcc, mnc, msin, routing, scheme, hnpki]
SuciDecode(v) ==
   IF Len(v) < 9 THEN [ok |-> FALSE, why |-> "shorter than a SUCI"]
   ELSE IF v[1] % 8 # 1 THEN [ok |-> FALSE, why |-> "type of identity is not SUCI"]
   ELSE IF (v[1] \div 16) % 8 # 0 THEN [ok |-> FALSE, why |-> "SUPI format is not IMSI"]
   ELSE LET p == PlmnDecode(SubSeq(v, 2, 4))
            msin == BcdDigits(SubSeq(v, 9, Len(v))) IN
        IF ~p.ok THEN [ok |-> FALSE, why |-> "PLMN digits malformed"]
        ELSE IF v[7] % 16 # 0 THEN [ok |-> FALSE, why |-> "protection scheme is not the null scheme"]
        ELSE IF ~AllDigits(msin) THEN [ok |-> FALSE, why |-> "MSIN is not a digit string"]
        ELSE [ok |-> TRUE, mcc |-> p.mcc, mnc |-> p.mnc, msin |-> msin, routing |-> BcdDigits(SubSeq(v, 5, 6)), hnpki |-> v[8]]
\* null-scheme SUCI with routing indicator 0
SuciEncode(mcc, mnc, msin) == <<1>> \o PlmnOctets(mcc, mnc) \o <<240, 255, 0, 0>> \o BcdPack(msin)

\* decimal digit string arithmetic: ds + n (n small), keeping the number of digits (wraps are an error: returns <<>>)
RECURSIVE AddDigits(_, _)
AddDigits(ds, n) ==
   IF n = 0 THEN ds
   ELSE IF Len(ds) = 0 THEN <<-1>>
   ELSE LET sum == ds[Len(ds)] + (n % 10)
            carry == (n \div 10) + (sum \div 10)
            hi == AddDigits(SubSeq(ds, 1, Len(ds) - 1), carry)
        IN Append(hi, sum % 10)
DigitsOfAscii(a) == Tup([i \in 1..Len(a) |-> a[i] - 48])
AsciiOfDigits(d) == Tup([i \in 1..Len(d) |-> d[i] + 48])
=============================================================================
