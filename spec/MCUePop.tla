------------------------------- MODULE MCUePop -------------------------------
(* Exhaustive check of the digit-string arithmetic used by UePop / Amf (Identity!AddDigits). *)
EXTENDS Identity, FiniteSets
VARIABLE s
DigitStrings3 == {<<a, b, c>> : a \in 0..9, b \in 0..9, c \in 0..9}
Val3(d) == d[1] * 100 + d[2] * 10 + d[3]
McInit == s \in DigitStrings3
McNext == UNCHANGED s
AddIsAddition == \A i \in 0..30 : Val3(s) + i < 1000 => (Len(AddDigits(s, i)) = 3 /\ Val3(AddDigits(s, i)) = Val3(s) + i)
AddInjective == \A i, j \in 0..30 : (i # j /\ Val3(s) + i < 1000 /\ Val3(s) + j < 1000) => AddDigits(s, i) # AddDigits(s, j)
======================================================================================================================================================
