------------------------------ MODULE TraceBuild ------------------------------
(***************************************************************************)
(* C13: every gNB-side message builder.  The bytes a builder returns are   *)
(* decoded inside TLC (Per!PerDecode with the NGAP type dictionary) and    *)
(* must be the message TS 38.413 names, carrying exactly the caller's      *)
(* values; identifiers outside their ASN.1 ranges must be refused; the     *)
(* emulator's own messages must be well-formed per the clause 9.2 tables.  *)
(***************************************************************************)
EXTENDS TraceBase, Ngap
VARIABLES l, bad

\* builder -> message of the emulator's path (checked against Msg38413)
PathMsg == [GetNGSetupRequest |-> "NGSetupRequest", GetInitialUEMessage |-> "InitialUEMessage",
            GetUplinkNASTransport |-> "UplinkNASTransport", GetInitialContextSetupResponse |-> "InitialContextSetupResponse",
            GetInitialContextSetupResponseForServiceRequest |-> "InitialContextSetupResponse",
            GetPDUSessionResourceSetupResponse |-> "PDUSessionResourceSetupResponse",
            GetPDUSessionResourceReleaseResponse |-> "PDUSessionResourceReleaseResponse",
            GetUEContextReleaseComplete |-> "UEContextReleaseComplete", GetUEContextReleaseRequest |-> "UEContextReleaseRequest",
            BuildInitialContextSetupResponse |-> "InitialContextSetupResponse", BuildUEContextReleaseRequest |-> "UEContextReleaseRequest",
            BuildPDUSessionResourceSetupResponse |-> "PDUSessionResourceSetupResponse",
            GetPDUSessionResourceSetupResponseForPaging |-> "PDUSessionResourceSetupResponse",
            BuildPDUSessionResourceReleaseResponse |-> "PDUSessionResourceReleaseResponse"]
\* builder -> <<message class, procedure code>> (TS 38.413 9.4.7) for the other builders
Other == [BuildNGReset |-> <<0, 20>>, BuildNGResetAcknowledge |-> <<1, 20>>, BuildErrorIndication |-> <<0, 9>>,
          BuildUEContextModificationResponse |-> <<1, 40>>, BuildInitialContextSetupFailure |-> <<2, 14>>,
          BuildHandoverFailure |-> <<2, 13>>, BuildAMFConfigurationUpdateFailure |-> <<2, 0>>,
          BuildUERadioCapabilityCheckRequest |-> <<0, 43>>, BuildUERadioCapabilityCheckResponse |-> <<1, 43>>,
          BuildHandoverCancel |-> <<0, 10>>, BuildLocationReportingFailureIndication |-> <<0, 17>>,
          BuildPDUSessionResourceModifyResponse |-> <<1, 26>>, BuildPDUSessionResourceNotify |-> <<0, 30>>,
          BuildPDUSessionResourceModifyIndication |-> <<0, 27>>, BuildUEContextModificationFailure |-> <<2, 40>>,
          BuildRRCInactiveTransitionReport |-> <<0, 37>>, BuildUplinkRanStatusTransfer |-> <<0, 49>>,
          BuildNasNonDeliveryIndication |-> <<0, 19>>, BuildRanConfigurationUpdate |-> <<0, 35>>,
          BuildRanConfigurationUpdateAck |-> <<1, 35>>, BuildRanConfigurationUpdateFailure |-> <<2, 35>>,
          BuildUplinkRanConfigurationTransfer |-> <<0, 48>>, BuildUplinkUEAssociatedNRPPATransport |-> <<0, 50>>,
          BuildUplinkNonUEAssociatedNRPPATransport |-> <<0, 47>>, BuildLocationReport |-> <<0, 18>>,
          BuildUERadioCapabilityInfoIndication |-> <<0, 44>>, BuildAMFConfigurationUpdateAcknowledge |-> <<1, 0>>,
          BuildCellTrafficTrace |-> <<0, 2>>, BuildOverloadStop |-> <<0, 23>>, BuildOverloadStart |-> <<0, 22>>,
          BuildPDUSessionResourceReleaseCommand |-> <<0, 28>>, GetPathSwitchRequest |-> <<0, 25>>,
          GetHandoverRequestAcknowledge |-> <<1, 13>>, GetHandoverNotify |-> <<0, 11>>, GetHandoverRequired |-> <<0, 12>>]

Has2(a, f) == f \in DOMAIN a
Max40 == [big |-> <<255, 255, 255, 255, 255>>]
Max32 == [big |-> <<255, 255, 255, 255>>]
Zero == [n |-> 0]
InRangeNum(x, max) == NumGE(x, Zero) /\ NumGE(max, x)
ArgsInRange(a) ==
   /\ (~Has2(a, "amf") \/ InRangeNum(a.amf, Max40))
   /\ (~Has2(a, "ran") \/ InRangeNum(a.ran, Max32))
   /\ (~Has2(a, "psi") \/ InRangeNum(a.psi, [n |-> 255]))
   /\ (~Has2(a, "psis") \/ (Len(a.psis) <= 256 /\ \A i \in 1..Len(a.psis) : a.psis[i] \in 0..255))
   /\ (~Has2(a, "gnbBits") \/ a.gnbBits \in 22..32)         \* gNB-ID: BIT STRING (SIZE(22..32)), TS 38.413 9.3.1.6

\* the integer of IE id in the IE list, as a number record; [n |-> -1] when absent
IeNum(ies, id) == LET f == FindIe(ies, id) IN IF f.found THEN Leaf(IeVal(f.ie)).v ELSE [n |-> -1]
IeOctets(ies, id) == LET f == FindIe(ies, id) IN IF f.found THEN Leaf(IeVal(f.ie)).v ELSE <<-1>>
NumsOf(leaves) == [i \in 1..Len(leaves) |-> leaves[i].v.n]
\* all embedded PDU session resource setup response transfers, decoded
RECURSIVE TransferAddrs(_, _)
TransferAddrs(leaves, name) ==
   IF Len(leaves) = 0 THEN <<>>
   ELSE LET d == TransferDecode(name, Head(leaves).v) IN
        (IF d.ok THEN Named(d.v, "TransportLayerAddress") ELSE << [k |-> "undecodable", v |-> <<>>, nbits |-> 0] >>) \o TransferAddrs(Tail(leaves), name)

\* <<AMF-UE-NGAP-ID or -1, RAN-UE-NGAP-ID or -1>> of every item of the reset type's connection list (identifier 88)
IdOrAbsent(item, name) == LET f == Fld(item, name) IN IF f.present THEN (IF "n" \in DOMAIN Leaf(f.v).v THEN Leaf(f.v).v.n ELSE -3) ELSE -1
ConnPairs(ies) ==
   LET f == FindIe(ies, 88) IN
   IF ~f.found \/ IeVal(f.ie).k # "choice" \/ IeVal(f.ie).v.k # "seq" THEN << <<-2, -2>> >>
   ELSE LET lst == Fld(IeVal(f.ie).v, "List").v.v IN
        [i \in 1..Len(lst) |-> <<IdOrAbsent(lst[i], "AMFUENGAPID"), IdOrAbsent(lst[i], "RANUENGAPID")>>]
CheckArgs(e, t) ==
   LET a == e.args
       ies == PduIEs(t)
       amfId == IF e.fn = "GetPathSwitchRequest" THEN Ie.SourceAMFUENGAPID ELSE Ie.AMFUENGAPID
   IN (IF Has2(a, "amf") /\ ~NumEq(IeNum(ies, amfId), a.amf) THEN {"AMF-UE-NGAP-ID in the encoding is not the argument"} ELSE {})
      \cup (IF Has2(a, "ran") /\ ~NumEq(IeNum(ies, Ie.RANUENGAPID), a.ran) THEN {"RAN-UE-NGAP-ID in the encoding is not the argument"} ELSE {})
      \cup (IF Has2(a, "nas") /\ IeOctets(ies, Ie.NASPDU) # a.nas THEN {"NAS-PDU in the encoding is not the argument"} ELSE {})
      \cup (IF Has2(a, "plmn") /\ \E i \in 1..Len(ies) : Plmns(IeVal(ies[i])) \ {a.plmn} # {} THEN {"a PLMN identity differs from the one announced at NG Setup"} ELSE {})
      \cup (IF Has2(a, "plmn") /\ e.fn = "GetNGSetupRequest" /\ (UNION {Plmns(IeVal(ies[i])) : i \in 1..Len(ies)}) # {a.plmn} THEN {"NG Setup does not announce the given PLMN"} ELSE {})
      \cup (IF Has2(a, "psi") /\ \E i \in 1..Len(ies) : LET ps == Named(IeVal(ies[i]), "PDUSessionID") IN
                                   IeId(ies[i]) \in {70, 72, 75} /\ (Len(ps) # 1 \/ ps[1].v.n # a.psi.n)
            THEN {"PDU session id in the encoding is not the argument"} ELSE {})
      \cup (IF Has2(a, "psi") /\ IeIds(ies) \cap {70, 72, 75} = {} THEN {"no PDU session list in the response"} ELSE {})
      \cup (IF Has2(a, "psis") /\ NumsOf(NamedSeq([i \in 1..Len(ies) |-> IeVal(ies[i])], "PDUSessionID", 1)) # a.psis THEN {"PDU session id list in the encoding is not the argument"} ELSE {})
      \cup (IF Has2(a, "ip") /\ LET addrs == TransferAddrs(NamedSeq([i \in 1..Len(ies) |-> IeVal(ies[i])], "PDUSessionResourceSetupResponseTransfer", 1), "PDUSessionResourceSetupResponseTransfer")
                                IN Len(addrs) = 0 \/ \E i \in 1..Len(addrs) : addrs[i].nbits # 32 \/ addrs[i].v # a.ip
            THEN {"GTP transport layer address in the response transfer is not the argument"} ELSE {})
      \cup (IF Has2(a, "gnbId") /\ LET g == Named(IeVal(FindIe(ies, Ie.GlobalRANNodeID).ie), "GNBID") IN
                                   Len(g) # 1 \/ g[1].nbits # a.gnbBits \/ g[1].v # a.gnbId
            THEN {"gNB id in the encoding is not the argument"} ELSE {})
      \cup (IF Has2(a, "name") /\ IeOctets(ies, Ie.RANNodeName) # a.name THEN {"RAN node name in the encoding is not the argument"} ELSE {})
      \* NG RESET of part of the interface: the connection items, identifier by identifier (-1 = absent)
      \cup (IF Has2(a, "conns") /\ ConnPairs(ies) # a.conns THEN {"the UE-associated logical NG connections in the encoding are not the given ones: " \o Str(ConnPairs(ies))} ELSE {})

\* TS 38.413 9.4.5 constraints of the information elements the emulator fills in, checked on the decoded leaves
\* (the decoder copies the constraints of the tag schema into the value tree): a wrong struct tag shows up here
B(n) == [has |-> TRUE, n |-> n]
BBig(bs) == [has |-> TRUE, big |-> bs]
NoB == [has |-> FALSE]
SameBound(a, b) == a.has = b.has /\ (~a.has \/ NumEq(a, b))
LeafIs(x, k, lb, ub, ext) == x.k = k /\ SameBound(x.lb, lb) /\ SameBound(x.ub, ub) /\ x.ext = ext
AllAre(leaves, k, lb, ub, ext) == \A i \in 1..Len(leaves) : LeafIs(leaves[i], k, lb, ub, ext)
StdConstraints(t) ==
   LET ies == PduIEs(t)
       vals == [i \in 1..Len(ies) |-> IeVal(ies[i])]
       L(name) == NamedSeq(vals, name, 1)
       amf == FindIe(ies, Ie.AMFUENGAPID)
       ran == FindIe(ies, Ie.RANUENGAPID)
       nas == FindIe(ies, Ie.NASPDU)
       nm == FindIe(ies, Ie.RANNodeName)
   IN (IF amf.found /\ ~LeafIs(Leaf(IeVal(amf.ie)), "int", B(0), BBig(<<255, 255, 255, 255, 255>>), FALSE) THEN {"AMF-UE-NGAP-ID is not INTEGER (0..2^40-1)"} ELSE {})
      \cup (IF ran.found /\ ~LeafIs(Leaf(IeVal(ran.ie)), "int", B(0), BBig(<<255, 255, 255, 255>>), FALSE) THEN {"RAN-UE-NGAP-ID is not INTEGER (0..2^32-1)"} ELSE {})
      \cup (IF nas.found /\ ~LeafIs(Leaf(IeVal(nas.ie)), "octstr", NoB, NoB, FALSE) THEN {"NAS-PDU is not an unconstrained OCTET STRING"} ELSE {})
      \cup (IF nm.found /\ ~LeafIs(Leaf(IeVal(nm.ie)), "octstr", B(1), B(150), TRUE) THEN {"RANNodeName is not PrintableString (SIZE(1..150, ...))"} ELSE {})
      \cup (IF ~AllAre(L("PLMNIdentity"), "octstr", B(3), B(3), FALSE) THEN {"PLMNIdentity is not OCTET STRING (SIZE(3))"} ELSE {})
      \cup (IF ~AllAre(L("TAC"), "octstr", B(3), B(3), FALSE) THEN {"TAC is not OCTET STRING (SIZE(3))"} ELSE {})
      \cup (IF ~AllAre(L("NRCellIdentity"), "bitstr", B(36), B(36), FALSE) THEN {"NRCellIdentity is not BIT STRING (SIZE(36))"} ELSE {})
      \cup (IF ~AllAre(L("PDUSessionID"), "int", B(0), B(255), FALSE) THEN {"PDUSessionID is not INTEGER (0..255)"} ELSE {})
      \cup (IF ~AllAre(L("GNBID"), "bitstr", B(22), B(32), FALSE) THEN {"gNB-ID is not BIT STRING (SIZE(22..32))"} ELSE {})
      \cup (IF \E i \in 1..Len(ies) : ~LeafIs(Leaf(Fld(ies[i], "Id").v), "int", B(0), B(65535), FALSE) THEN {"ProtocolIE-ID is not INTEGER (0..65535)"} ELSE {})
      \cup (IF \E i \in 1..Len(ies) : ~(Leaf(Fld(ies[i], "Criticality").v).k = "enum" /\ Leaf(Fld(ies[i], "Criticality").v).ub.n = 2 /\ ~Leaf(Fld(ies[i], "Criticality").v).ext) THEN {"Criticality is not ENUMERATED {reject, ignore, notify}"} ELSE {})
      \cup (IF ~LeafIs(Leaf(Fld(t.v, "ProcedureCode").v), "int", B(0), B(255), FALSE) THEN {"ProcedureCode is not INTEGER (0..255)"} ELSE {})
      \cup (IF ~(t.k = "choice" /\ t.ub.n = 2 /\ t.ext) THEN {"NGAP-PDU is not an extensible CHOICE of three"} ELSE {})

Explain(e) ==
   IF e.ev = "Held" THEN HeldVerdict(e)
   ELSE IF e.ev # "Build" THEN No("no action of the specification matches this event")
   ELSE IF ~ArgsInRange(e.args) THEN (IF e.err /\ ~e.panic THEN Ok ELSE No("an out-of-range identifier was not refused with an error"))
   ELSE IF e.err THEN No("builder failed for in-range arguments")
   ELSE LET d == NgapDecode(e.bytes) IN
        IF ~d.ok THEN No("the encoding is not a decodable NGAP PDU: " \o d.why)
        ELSE LET t == d.v
                 hdr == IF e.fn \in DOMAIN PathMsg THEN WellFormed(t, PathMsg[e.fn])
                        ELSE IF e.fn \in DOMAIN Other
                        THEN (IF PduClass(t) = Other[e.fn][1] /\ PduProc(t) = Other[e.fn][2] THEN {}
                              ELSE {"message class / procedure code " \o Str(<<PduClass(t), PduProc(t)>>) \o " is not that of the message"})
                        ELSE {"unknown builder"}
                 complaints == hdr \cup CheckArgs(e, t) \cup (IF e.fn \in DOMAIN PathMsg THEN StdConstraints(t) ELSE {})
             IN IF complaints = {} THEN Ok ELSE No(Str(complaints))

Init == l = 1 /\ bad = 0
Next == /\ l <= Len(Trace)
        /\ \E r \in {Explain(Trace[l])} : LET e == Trace[l] IN     \* bound once (TLC evaluates an action-level LET at every use)
             /\ Report(l, e, r)
             /\ bad' = bad + (IF r.ok THEN 0 ELSE 1)
        /\ l' = l + 1
Consumed == TLCGet("stats").diameter - 1 = Len(Trace)
=============================================================================
