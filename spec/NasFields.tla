------------------------------ MODULE NasFields ------------------------------
(***************************************************************************)
(* C09 (field values): the positions TS 24.501 clause 9.11 (and the        *)
(* message tables of 8.2 / 8.3 for the shared half-octet pairs) assign to  *)
(* the fields of the information elements on the emulator's path,          *)
(* transcribed by hand, against the bit-field accessors of nasType.        *)
(* Row: <<Go type, accessor (Get/Set name), "bits", octet of the value     *)
(* part (0-based), shift of the least significant bit, width>> or          *)
(* <<type, accessor, "bytes", first octet, number of octets, 0>>.          *)
(* Event Field (rec-nas -fields): what Set(v) does to an all-zero and to   *)
(* an all-ones element, what Get returns on an all-ones element and on     *)
(* every single set bit; for octet-string fields the element after Set and *)
(* the result of Get on a numbered element.                                *)
(***************************************************************************)
EXTENDS TraceBase, FiniteSets
VARIABLES l, bad
Rows == <<
  <<"NgksiAndRegistrationType5GS", "TSC", "bits", 0, 7, 1>>,
  <<"NgksiAndRegistrationType5GS", "NasKeySetIdentifiler", "bits", 0, 4, 3>>,
  <<"NgksiAndRegistrationType5GS", "FOR", "bits", 0, 3, 1>>,
  <<"NgksiAndRegistrationType5GS", "RegistrationType5GS", "bits", 0, 0, 3>>,
  <<"SpareHalfOctetAndNgksi", "SpareHalfOctet", "bits", 0, 4, 4>>,
  <<"SpareHalfOctetAndNgksi", "TSC", "bits", 0, 3, 1>>,
  <<"SpareHalfOctetAndNgksi", "NasKeySetIdentifiler", "bits", 0, 0, 3>>,
  <<"SelectedNASSecurityAlgorithms", "TypeOfCipheringAlgorithm", "bits", 0, 4, 4>>,
  <<"SelectedNASSecurityAlgorithms", "TypeOfIntegrityProtectionAlgorithm", "bits", 0, 0, 4>>,
  <<"SpareHalfOctetAndPayloadContainerType", "PayloadContainerType", "bits", 0, 0, 4>>,
  <<"RequestType", "Iei", "bits", 0, 4, 4>>,
  <<"RequestType", "RequestTypeValue", "bits", 0, 0, 3>>,
  <<"PDUSessionType", "Iei", "bits", 0, 4, 4>>,
  <<"PDUSessionType", "PDUSessionTypeValue", "bits", 0, 0, 3>>,
  <<"SSCMode", "Iei", "bits", 0, 4, 4>>,
  <<"SSCMode", "SSCMode", "bits", 0, 0, 3>>,
  <<"IMEISVRequest", "Iei", "bits", 0, 4, 4>>,
  <<"IMEISVRequest", "IMEISVRequestValue", "bits", 0, 0, 3>>,
  <<"PDUSessionType", "Spare", "bits", 0, 3, 1>>,
  <<"SSCMode", "Spare", "bits", 0, 3, 1>>,
  <<"SelectedSSCModeAndSelectedPDUSessionType", "SSCMode", "bits", 0, 4, 3>>,
  <<"SelectedSSCModeAndSelectedPDUSessionType", "PDUSessionType", "bits", 0, 0, 3>>,
  <<"PDUAddress", "PDUSessionTypeValue", "bits", 0, 0, 3>>,
  <<"PDUAddress", "PDUAddressInformation", "bytes", 1, 12, 0>>,
  <<"NgksiAndDeregistrationType", "TSC", "bits", 0, 7, 1>>,
  <<"NgksiAndDeregistrationType", "NasKeySetIdentifiler", "bits", 0, 4, 3>>,
  <<"NgksiAndDeregistrationType", "SwitchOff", "bits", 0, 3, 1>>,
  <<"NgksiAndDeregistrationType", "ReRegistrationRequired", "bits", 0, 2, 1>>,
  <<"NgksiAndDeregistrationType", "AccessType", "bits", 0, 0, 2>>,
  <<"ServiceTypeAndNgksi", "ServiceTypeValue", "bits", 0, 4, 4>>,
  <<"ServiceTypeAndNgksi", "TSC", "bits", 0, 3, 1>>,
  <<"ServiceTypeAndNgksi", "NasKeySetIdentifiler", "bits", 0, 0, 3>>,
  <<"RegistrationResult5GS", "SMSAllowed", "bits", 0, 3, 1>>,
  <<"RegistrationResult5GS", "RegistrationResultValue5GS", "bits", 0, 0, 3>>,
  <<"UESecurityCapability", "EA0_5G", "bits", 0, 7, 1>>,
  <<"UESecurityCapability", "EA1_128_5G", "bits", 0, 6, 1>>,
  <<"UESecurityCapability", "EA2_128_5G", "bits", 0, 5, 1>>,
  <<"UESecurityCapability", "EA3_128_5G", "bits", 0, 4, 1>>,
  <<"UESecurityCapability", "EA4_5G", "bits", 0, 3, 1>>,
  <<"UESecurityCapability", "EA5_5G", "bits", 0, 2, 1>>,
  <<"UESecurityCapability", "EA6_5G", "bits", 0, 1, 1>>,
  <<"UESecurityCapability", "EA7_5G", "bits", 0, 0, 1>>,
  <<"UESecurityCapability", "IA0_5G", "bits", 1, 7, 1>>,
  <<"UESecurityCapability", "IA1_128_5G", "bits", 1, 6, 1>>,
  <<"UESecurityCapability", "IA2_128_5G", "bits", 1, 5, 1>>,
  <<"UESecurityCapability", "IA3_128_5G", "bits", 1, 4, 1>>,
  <<"UESecurityCapability", "IA4_5G", "bits", 1, 3, 1>>,
  <<"UESecurityCapability", "IA5_5G", "bits", 1, 2, 1>>,
  <<"UESecurityCapability", "IA6_5G", "bits", 1, 1, 1>>,
  <<"UESecurityCapability", "IA7_5G", "bits", 1, 0, 1>>,
  <<"UESecurityCapability", "EEA0", "bits", 2, 7, 1>>,
  <<"UESecurityCapability", "EEA1_128", "bits", 2, 6, 1>>,
  <<"UESecurityCapability", "EEA2_128", "bits", 2, 5, 1>>,
  <<"UESecurityCapability", "EEA3_128", "bits", 2, 4, 1>>,
  <<"UESecurityCapability", "EEA4", "bits", 2, 3, 1>>,
  <<"UESecurityCapability", "EEA5", "bits", 2, 2, 1>>,
  <<"UESecurityCapability", "EEA6", "bits", 2, 1, 1>>,
  <<"UESecurityCapability", "EEA7", "bits", 2, 0, 1>>,
  <<"UESecurityCapability", "EIA0", "bits", 3, 7, 1>>,
  <<"UESecurityCapability", "EIA1_128", "bits", 3, 6, 1>>,
  <<"UESecurityCapability", "EIA2_128", "bits", 3, 5, 1>>,
  <<"UESecurityCapability", "EIA3_128", "bits", 3, 4, 1>>,
  <<"UESecurityCapability", "EIA4", "bits", 3, 3, 1>>,
  <<"UESecurityCapability", "EIA5", "bits", 3, 2, 1>>,
  <<"UESecurityCapability", "EIA6", "bits", 3, 1, 1>>,
  <<"UESecurityCapability", "EIA7", "bits", 3, 0, 1>>,
  <<"ReplayedUESecurityCapabilities", "EA0_5G", "bits", 0, 7, 1>>,
  <<"ReplayedUESecurityCapabilities", "EA1_128_5G", "bits", 0, 6, 1>>,
  <<"ReplayedUESecurityCapabilities", "EA2_128_5G", "bits", 0, 5, 1>>,
  <<"ReplayedUESecurityCapabilities", "EA3_128_5G", "bits", 0, 4, 1>>,
  <<"ReplayedUESecurityCapabilities", "EA4_5G", "bits", 0, 3, 1>>,
  <<"ReplayedUESecurityCapabilities", "EA5_5G", "bits", 0, 2, 1>>,
  <<"ReplayedUESecurityCapabilities", "EA6_5G", "bits", 0, 1, 1>>,
  <<"ReplayedUESecurityCapabilities", "EA7_5G", "bits", 0, 0, 1>>,
  <<"ReplayedUESecurityCapabilities", "IA0_5G", "bits", 1, 7, 1>>,
  <<"ReplayedUESecurityCapabilities", "IA1_128_5G", "bits", 1, 6, 1>>,
  <<"ReplayedUESecurityCapabilities", "IA2_128_5G", "bits", 1, 5, 1>>,
  <<"ReplayedUESecurityCapabilities", "IA3_128_5G", "bits", 1, 4, 1>>,
  <<"ReplayedUESecurityCapabilities", "IA4_5G", "bits", 1, 3, 1>>,
  <<"ReplayedUESecurityCapabilities", "IA5_5G", "bits", 1, 2, 1>>,
  <<"ReplayedUESecurityCapabilities", "IA6_5G", "bits", 1, 1, 1>>,
  <<"ReplayedUESecurityCapabilities", "IA7_5G", "bits", 1, 0, 1>>,
  <<"ReplayedUESecurityCapabilities", "EEA0", "bits", 2, 7, 1>>,
  <<"ReplayedUESecurityCapabilities", "EEA1_128", "bits", 2, 6, 1>>,
  <<"ReplayedUESecurityCapabilities", "EEA2_128", "bits", 2, 5, 1>>,
  <<"ReplayedUESecurityCapabilities", "EEA3_128", "bits", 2, 4, 1>>,
  <<"ReplayedUESecurityCapabilities", "EEA4", "bits", 2, 3, 1>>,
  <<"ReplayedUESecurityCapabilities", "EEA5", "bits", 2, 2, 1>>,
  <<"ReplayedUESecurityCapabilities", "EEA6", "bits", 2, 1, 1>>,
  <<"ReplayedUESecurityCapabilities", "EEA7", "bits", 2, 0, 1>>,
  <<"ReplayedUESecurityCapabilities", "EIA0", "bits", 3, 7, 1>>,
  <<"ReplayedUESecurityCapabilities", "EIA1_128", "bits", 3, 6, 1>>,
  <<"ReplayedUESecurityCapabilities", "EIA2_128", "bits", 3, 5, 1>>,
  <<"ReplayedUESecurityCapabilities", "EIA3_128", "bits", 3, 4, 1>>,
  <<"ReplayedUESecurityCapabilities", "EIA4", "bits", 3, 3, 1>>,
  <<"ReplayedUESecurityCapabilities", "EIA5", "bits", 3, 2, 1>>,
  <<"ReplayedUESecurityCapabilities", "EIA6", "bits", 3, 1, 1>>,
  <<"ReplayedUESecurityCapabilities", "EIA7", "bits", 3, 0, 1>>,
  <<"Capability5GMM", "LPP", "bits", 0, 2, 1>>,
  <<"Capability5GMM", "HOAttach", "bits", 0, 1, 1>>,
  <<"Capability5GMM", "S1Mode", "bits", 0, 0, 1>>,
  <<"SNSSAI", "SST", "bits", 0, 0, 8>>,
  <<"SNSSAI", "SD", "bytes", 1, 3, 0>>,
  <<"SNSSAI", "MappedHPLMNSST", "bits", 4, 0, 8>>,
  <<"SNSSAI", "MappedHPLMNSD", "bytes", 5, 3, 0>>,
  <<"IntegrityProtectionMaximumDataRate", "MaximumDataRatePerUEForUserPlaneIntegrityProtectionForUpLink", "bits", 0, 0, 8>>,
  <<"IntegrityProtectionMaximumDataRate", "MaximumDataRatePerUEForUserPlaneIntegrityProtectionForDownLink", "bits", 1, 0, 8>>,
  <<"SessionAMBR", "UnitForSessionAMBRForDownlink", "bits", 0, 0, 8>>,
  <<"SessionAMBR", "SessionAMBRForDownlink", "bytes", 1, 2, 0>>,
  <<"SessionAMBR", "UnitForSessionAMBRForUplink", "bits", 3, 0, 8>>,
  <<"SessionAMBR", "SessionAMBRForUplink", "bytes", 4, 2, 0>>,
  <<"Cause5GMM", "CauseValue", "bits", 0, 0, 8>>,
  <<"Cause5GSM", "CauseValue", "bits", 0, 0, 8>>,
  <<"PduSessionID2Value", "PduSessionID2Value", "bits", 0, 0, 8>>,
  <<"PDUSessionID", "PDUSessionID", "bits", 0, 0, 8>>,
  <<"PTI", "PTI", "bits", 0, 0, 8>>,
  <<"AuthenticationParameterRAND", "RANDValue", "bytes", 0, 16, 0>>,
  <<"AuthenticationParameterAUTN", "AUTN", "bytes", 0, 16, 0>>,
  <<"AuthenticationResponseParameter", "RES", "bytes", 0, 16, 0>>,
  \* 5G-S-TMSI (figure 9.11.3.4.5) and 5G-GUTI (figure 9.11.3.4.1); "wide": first octet, bits in front of the field in that octet, width
  <<"TMSI5GS", "TypeOfIdentity", "bits", 0, 0, 3>>,
  <<"TMSI5GS", "AMFSetID", "wide", 1, 0, 10>>,
  <<"TMSI5GS", "AMFPointer", "bits", 2, 0, 6>>,
  <<"TMSI5GS", "TMSI5G", "bytes", 3, 4, 0>>,
  <<"GUTI5G", "TypeOfIdentity", "bits", 0, 0, 3>>,
  <<"GUTI5G", "MCCDigit2", "bits", 1, 4, 4>>,
  <<"GUTI5G", "MCCDigit1", "bits", 1, 0, 4>>,
  <<"GUTI5G", "MNCDigit3", "bits", 2, 4, 4>>,
  <<"GUTI5G", "MCCDigit3", "bits", 2, 0, 4>>,
  <<"GUTI5G", "MNCDigit2", "bits", 3, 4, 4>>,
  <<"GUTI5G", "MNCDigit1", "bits", 3, 0, 4>>,
  <<"GUTI5G", "AMFRegionID", "bits", 4, 0, 8>>,
  <<"GUTI5G", "AMFSetID", "wide", 5, 0, 10>>,
  <<"GUTI5G", "AMFPointer", "bits", 6, 0, 6>>,
  <<"GUTI5G", "TMSI5G", "bytes", 7, 4, 0>> >>
RowOf(e) == LET S == {i \in 1..Len(Rows) : Rows[i][1] = e.type /\ Rows[i][2] = e.acc} IN IF S = {} THEN 0 ELSE CHOOSE i \in S : TRUE
Pow2(n) == 2^n
ExplainBits(e, r) ==
   LET idx == r[4] + 1 sh == r[5] w == r[6] mask == (Pow2(w) - 1) * Pow2(sh)
       setOk(s) == \A j \in 1..Len(s[2]) : s[2][j] = (IF j = idx THEN (s[1] % Pow2(w)) * Pow2(sh) ELSE 0)
       badSets == {k \in 1..Len(e.sets) : ~setOk(e.sets[k])}
       getOk(g) == g[3] = (IF g[1] + 1 = idx /\ g[2] >= sh /\ g[2] < sh + w THEN Pow2(g[2] - sh) ELSE 0)
       badGets == {k \in 1..Len(e.getBits) : ~getOk(e.getBits[k])}
   IN FirstBad(<<
        <<~e.panic, "the accessor panicked">>,
        <<e.kind = "bits", "accessor is not a bit-field accessor">>,
        <<idx <= e.valueLen, "the element is shorter than the field position">>,
        <<badSets = {}, IF badSets = {} THEN "" ELSE "Set" \o e.acc \o "(" \o Str(e.sets[CHOOSE k \in badSets : TRUE][1]) \o ") on an all-zero element gives " \o Str(e.sets[CHOOSE k \in badSets : TRUE][2])
                       \o ", TS 24.501 puts the field in octet " \o Str(r[4]) \o " of the value part, bits " \o Str(sh + w) \o ".." \o Str(sh + 1)>>,
        <<\A j \in 1..Len(e.clear) : e.clear[j] = (IF j = idx THEN 255 - mask ELSE 255), "Set" \o e.acc \o "(0) on an all-ones element touches bits outside the field: " \o Str(e.clear)>>,
        <<e.getOnes = Pow2(w) - 1, "Get" \o e.acc \o " on an all-ones element returns " \o Str(e.getOnes) \o ", the field is " \o Str(w) \o " bits wide">>,
        <<badGets = {}, IF badGets = {} THEN "" ELSE "Get" \o e.acc \o " reads a bit outside octet " \o Str(r[4]) \o " bits " \o Str(sh + w) \o ".." \o Str(sh + 1) \o " (or misses one inside): " \o Str(e.getBits[CHOOSE k \in badGets : TRUE])>> >>)
\* a field wider than one octet: it starts r[5] bits into octet r[4] of the value part and is r[6] bits long, most significant bit first.
\* Set is judged on the field's own bits (on an all-zero element nothing else may appear; written over an all-ones element the field
\* must hold exactly the new value - what the setter does to the neighbouring field in that case is not claimed here)
ExplainWide(e, r) ==
   LET start == 8 * r[4] + r[5] w == r[6]
       BitOf(v, i) == (v[(i \div 8) + 1] \div Pow2(7 - (i % 8))) % 2
       FieldOf(v) == LET S[j \in 0..w] == IF j = 0 THEN 0 ELSE 2 * S[j - 1] + BitOf(v, start + j - 1) IN S[w]
       Outside(v) == {i \in 0..(8 * Len(v) - 1) : (i < start \/ i >= start + w) /\ BitOf(v, i) = 1}
       badSets == {k \in 1..Len(e.sets) : FieldOf(e.sets[k][2]) # e.sets[k][1] % Pow2(w) \/ Outside(e.sets[k][2]) # {}}
       badOver == {k \in 1..Len(e.over) : FieldOf(e.over[k][2]) # e.over[k][1] % Pow2(w)}
       getOk(g) == LET i == 8 * g[1] + (7 - g[2]) IN g[3] = (IF i >= start /\ i < start + w THEN Pow2(w - 1 - (i - start)) ELSE 0)
       badGets == {k \in 1..Len(e.getBits) : ~getOk(e.getBits[k])}
   IN FirstBad(<<
        <<~e.panic, "the accessor panicked">>,
        <<e.kind = "wide", "accessor is not a 16-bit field accessor">>,
        <<(start + w + 7) \div 8 <= e.valueLen, "the element is shorter than the field position">>,
        <<badSets = {}, IF badSets = {} THEN "" ELSE "Set" \o e.acc \o "(" \o Str(e.sets[CHOOSE k \in badSets : TRUE][1]) \o ") on an all-zero element gives " \o Str(e.sets[CHOOSE k \in badSets : TRUE][2])
                       \o ", TS 24.501 puts the " \o Str(w) \o "-bit field at bit " \o Str(start) \o " of the value part">>,
        <<badOver = {}, IF badOver = {} THEN "" ELSE "Set" \o e.acc \o "(" \o Str(e.over[CHOOSE k \in badOver : TRUE][1]) \o ") over an element that holds another value leaves " \o Str(e.over[CHOOSE k \in badOver : TRUE][2])
                       \o ": the field does not hold the new value">>,
        <<e.getOnes = Pow2(w) - 1, "Get" \o e.acc \o " on an all-ones element returns " \o Str(e.getOnes) \o ", the field is " \o Str(w) \o " bits wide">>,
        <<badGets = {}, IF badGets = {} THEN "" ELSE "Get" \o e.acc \o " reads a bit outside the field (or misses one inside): " \o Str(e.getBits[CHOOSE k \in badGets : TRUE])>> >>)
ExplainBytes(e, r) ==
   LET st == r[4] n == r[5] IN
   FirstBad(<<
        <<~e.panic, "the accessor panicked">>,
        <<e.kind = "bytes" /\ e.n = n, "octet-string field of " \o Str(n) \o " octets expected">>,
        <<\A j \in 1..Len(e.afterSet) : e.afterSet[j] = (IF j > st /\ j <= st + n THEN 128 + (j - st) ELSE 0), "Set" \o e.acc \o " writes " \o Str(e.afterSet) \o ", the field is octets " \o Str(st) \o ".." \o Str(st + n - 1) \o " of the value part">>,
        <<\A j \in 1..Len(e.got) : e.got[j] = 16 + st + j, "Get" \o e.acc \o " returns " \o Str(e.got) \o " from an element numbered 17, 18, ...">> >>)
Explain(e) == IF e.ev # "Field" THEN No("no action of the specification matches this event")
              ELSE LET i == RowOf(e) IN
                   IF i = 0 THEN Ok                       \* an accessor without a row is not claimed
                   ELSE LET r == IF Rows[i][3] = "bits" THEN ExplainBits(e, Rows[i]) ELSE IF Rows[i][3] = "wide" THEN ExplainWide(e, Rows[i]) ELSE ExplainBytes(e, Rows[i]) IN
                        IF r.ok THEN r ELSE No("C09: " \o e.type \o ": " \o r.why)
Init == l = 1 /\ bad = 0
Next == /\ l <= Len(Trace)
        /\ \E r \in {Explain(Trace[l])} : LET e == Trace[l] IN     \* bound once (TLC evaluates an action-level LET at every use)
             /\ Report(l, e, r)
             /\ (IF e.ev = "Field" /\ RowOf(e) # 0 THEN PrintT("COVERED " \o e.type \o "." \o e.acc) ELSE TRUE)
             /\ bad' = bad + (IF r.ok THEN 0 ELSE 1)
        /\ l' = l + 1
Consumed == TLCGet("stats").diameter - 1 = Len(Trace)
\* every row must have been exercised by some event (a renamed or removed accessor is reported by the driver)
RowNames == {Rows[i][1] \o "." \o Rows[i][2] : i \in 1..Len(Rows)}
=============================================================================
