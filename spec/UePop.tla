-------------------------------- MODULE UePop --------------------------------
(***************************************************************************)
(* C16: the population of emulated UEs.  For a configured initial IMSI and *)
(* n UEs (indices 0..n-1) UE i carries SUPI "imsi-" followed by the decimal *)
(* string of IMSI + i with the same number of digits; consequently the     *)
(* SUPIs are pairwise distinct and stay inside the configured PLMN as long *)
(* as the MSIN digits do not overflow.  RAN-UE-NGAP-IDs are pairwise       *)
(* distinct.  TraceUePop binds this to stgutg.CreateUE; MCUePop checks the *)
(* arithmetic exhaustively for short digit strings.                        *)
(***************************************************************************)
EXTENDS TraceBase, Identity, FiniteSets
VARIABLES l, bad

ImsiPrefix == <<105, 109, 115, 105, 45>>                    \* "imsi-"
SupiOf(imsiDigits, i) == ImsiPrefix \o AsciiOfDigits(AddDigits(imsiDigits, i))
\* the MSIN part accommodates n UEs: no carry into the MNC digits
Fits(imsiDigits, mncLen, n) == LET msin == SubSeq(imsiDigits, 4 + mncLen, Len(imsiDigits))
                                   last == AddDigits(msin, n - 1) IN Len(last) = Len(msin) /\ \A j \in 1..Len(last) : last[j] \in 0..9
PopComplaints(e) ==
   LET imsi == DigitsOfAscii(e.imsi) n == e.n IN
   IF e.panic THEN {"UE creation panicked"}
   ELSE IF ~Fits(imsi, e.mncLen, n) THEN {}              \* population beyond what the MSIN digits can accommodate: outside the claim
   ELSE (IF Len(e.supis) = n /\ Len(e.rans) = n THEN {} ELSE {"wrong number of UE contexts"})
        \cup {"UE " \o Str(i - 1) \o " has SUPI " \o Str(e.supis[i]) \o ", expected initial IMSI + index with the same digits"
                : i \in {x \in 1..Min2(n, Len(e.supis)) : e.supis[x] # SupiOf(imsi, x - 1)}}
        \cup (IF Cardinality({e.supis[i] : i \in 1..Len(e.supis)}) = Len(e.supis) THEN {} ELSE {"SUPIs are not pairwise distinct"})
        \cup (IF \A i \in 1..Len(e.supis) : Len(e.supis[i]) = 5 + Len(imsi) /\ SubSeq(e.supis[i], 6, 8 + e.mncLen) = SubSeq(e.imsi, 1, 3 + e.mncLen) THEN {}
              ELSE {"a SUPI leaves the configured PLMN or changes its number of digits"})
        \cup (IF Cardinality({e.rans[i] : i \in 1..Len(e.rans)}) = Len(e.rans) THEN {} ELSE {"RAN-UE-NGAP-IDs are not pairwise distinct"})
        \cup (IF e.keysEqual THEN {} ELSE {"a UE does not carry the configured K / OP / OPc"})
        \cup (IF e.capsExact THEN {} ELSE {"advertised security capability is not exactly the algorithms of the context"})
\* the capability a context with the given algorithms advertises: octet 1 has exactly the bit of 5G-EA<enc>, octet 2 that of 5G-IA<int>
\* (bit 8 = algorithm 0), information element 2E of length 2
ExplainCaps(e) == FirstBad(<< <<~e.panic, "building the UE security capability panicked">>,
                             <<e.iei = 46 /\ e.len = 2 /\ Len(e.buf) = 2, "UE security capability is not IE 2E with two octets">>,
                             <<Len(e.buf) # 2 \/ e.buf = <<2^(7 - e.enc), 2^(7 - e.int)>>,
                               "a context using 5G-EA" \o Str(e.enc) \o " / 5G-IA" \o Str(e.int) \o " advertises " \o Str(e.buf) \o " instead of exactly these two algorithms">> >>)
Explain(e) == IF e.ev = "Caps" THEN ExplainCaps(e)
              ELSE IF e.ev # "Population" THEN No("no action of the specification matches this event")
              ELSE LET c == PopComplaints(e) IN IF c = {} THEN Ok ELSE No(Str(CHOOSE x \in c : TRUE) \o " (" \o Str(Cardinality(c)) \o " complaint(s))")
Init == l = 1 /\ bad = 0
Next == /\ l <= Len(Trace)
        /\ \E r \in {Explain(Trace[l])} : LET e == Trace[l] IN     \* bound once (TLC evaluates an action-level LET at every use)
             /\ Report(l, e, r)
             /\ bad' = bad + (IF r.ok THEN 0 ELSE 1)
        /\ l' = l + 1
Consumed == TLCGet("stats").diameter - 1 = Len(Trace)

=============================================================================
