------------------------------- MODULE TraceAka -------------------------------
(***************************************************************************)
(* C05: RES*, K_AMF, K_NASenc, K_NASint returned / installed by the UE side *)
(* key derivation equal Milenage!Aka (TS 35.206 + TS 33.501 Annex A).       *)
(* When only OP is configured (opc empty) the effective OPc is             *)
(* OP xor E_K(OP).                                                        *)
(***************************************************************************)
EXTENDS TraceBase, Milenage
VARIABLES l, bad

ExplainDerive(e) ==
   LET opc == IF Len(e.opc) = 0 THEN MilOPc(e.k, e.op) ELSE e.opc
       a == Aka(e.k, opc, e.rand, e.autn, e.mcc, e.mnc, e.supi, e.enc, e.int)
   IN FirstBad(<< <<~e.panic, "derivation panicked">>,
                  <<e.resStar = a.resStar, "RES* differs: expected " \o Str(a.resStar) \o " got " \o Str(e.resStar)>>,
                  <<e.kamf = a.kamf, "K_AMF differs: expected " \o Str(a.kamf) \o " got " \o Str(e.kamf)>>,
                  <<e.kenc = a.kenc, "K_NASenc differs: expected " \o Str(a.kenc) \o " got " \o Str(e.kenc)>>,
                  <<e.kint = a.kint, "K_NASint differs: expected " \o Str(a.kint) \o " got " \o Str(e.kint)>> >>)
Explain(e) == IF e.ev = "Derive" THEN ExplainDerive(e) ELSE IF e.ev = "Held" THEN HeldVerdict(e) ELSE No("no action of the specification matches this event")

Init == l = 1 /\ bad = 0
Next == /\ l <= Len(Trace)
        /\ \E r \in {Explain(Trace[l])} : LET e == Trace[l] IN     \* bound once (TLC evaluates an action-level LET at every use)
             /\ Report(l, e, r)
             /\ bad' = bad + (IF r.ok THEN 0 ELSE 1)
        /\ l' = l + 1
Consumed == TLCGet("stats").diameter - 1 = Len(Trace)
=============================================================================
