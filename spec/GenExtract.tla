----------------------------- MODULE GenExtract -----------------------------
(***************************************************************************)
(* C12, generate direction: well-formed inputs for the two hand-written    *)
(* extractors of the emulator, built by the specification's AMF/SMF:       *)
(*  - PDU SESSION ESTABLISHMENT ACCEPT (any subset of the optional IEs of  *)
(*    table 8.3.2.1.1, QoS rule / flow description lengths, S-NSSAI, DNN)   *)
(*    inside a DL NAS TRANSPORT inside a security protected NAS message    *)
(*    (header types 2 and 4);                                              *)
(*  - PDU Session Resource Setup Request Transfer (X.691 via Per.tla).      *)
(* Each output line carries the values the generator put in; the replayer  *)
(* (rec-extract) adds what the real extractors return; TraceExtract judges.*)
(***************************************************************************)
EXTENDS Amf, TLC
CONSTANTS TracePath, OutPath
VARIABLES l, out
Skel == ndJsonDeserialize(TracePath)
Key0 == Zeros(16)
Sec0(dlc) == [ul |-> 0, dl |-> dlc, kEnc |-> Key0, kInt |-> Key0, encAlg |-> 0, intAlg |-> 2]
\* transfer-only cases (dense sweeps of the aggregate bit rates, TEIDs and addresses): no NAS PDU is built
Case(e) ==
   IF "transferOnly" \in DOMAIN e /\ e.transferOnly
   THEN [ev |-> "Extract", id |-> e.id, nas |-> <<>>, transfer |-> SetupRequestTransfer(e), exp |-> [ip |-> <<>>, teid |-> e.teid, upf |-> e.upf]]
   ELSE
   LET ies == {e.ies[i] : i \in 1..Len(e.ies)}
       \* (tail: information elements of later releases of table 8.3.2.1.1 behind the ones this specification tabulates - 5GSM network
       \* feature support, serving PLMN rate control, ATSSS container, header compression configurations: type-length-value elements a
       \* receiver of an earlier release skips, TS 24.501 7.6.1; their octets are given by the skeleton)
       inner == NasEncode(NasPduAcceptIes(e, e.psi, e.pti, ies)) \o (IF "tail" \in DOMAIN e THEN e.tail ELSE <<>>)
       dlt == NasEncode(NasDlTransport(inner, e.psi))
       prot == DlProtect(Sec0(e.dlCount), dlt, e.hdr)
   IN [ev |-> "Extract", id |-> e.id, nas |-> prot.bytes, transfer |-> SetupRequestTransfer(e),
       exp |-> [ip |-> e.ip, teid |-> e.teid, upf |-> e.upf]]
Init == l = 1 /\ out = <<>>
Next == /\ l <= Len(Skel)
        /\ out' = Append(out, Case(Skel[l]))
        /\ l' = l + 1
        /\ IF l = Len(Skel) THEN ndJsonSerialize(OutPath, out') ELSE TRUE
Consumed == TLCGet("stats").diameter - 1 = Len(Skel)
=============================================================================
