------------------------------- MODULE NasAlg -------------------------------
(***************************************************************************)
(* 128-NEA0/1/2 and 128-NIA1/2 (TS 33.501 Annex D referring to TS 33.401   *)
(* Annex B).  count is a sequence of 4 octets (most significant first).    *)
(***************************************************************************)
EXTENDS Snow3g

RECURSIVE CtrInc(_, _)
CtrInc(b, i) == IF i = 0 THEN b ELSE IF b[i] = 255 THEN CtrInc([b EXCEPT ![i] = 0], i - 1) ELSE [b EXCEPT ![i] = @ + 1]
\* nb blocks of counter-mode keystream from counter block ctr, in runs of 32 blocks (shallow recursion, see Snow3g!SnowGen)
RECURSIVE CtrRun(_, _, _)
CtrRun(ks, ctr, nb) == IF nb = 0 THEN [s |-> <<>>, ctr |-> ctr]
                       ELSE LET r == CtrRun(ks, CtrInc(ctr, 16), nb - 1) IN [s |-> AesEncKS(ks, ctr) \o r.s, ctr |-> r.ctr]
RECURSIVE CtrStream(_, _, _)
CtrStream(ks, ctr, nb) == IF nb <= 32 THEN CtrRun(ks, ctr, nb).s ELSE LET a == CtrRun(ks, ctr, 32) IN a.s \o CtrStream(ks, a.ctr, nb - 32)
Eea2(key, count, bearer, dir, msg) ==
   LET ctr == count \o <<bearer * 8 + dir * 4>> \o Zeros(11)
       st == CtrStream(AesKeySchedule(key), ctr, (Len(msg) + 15) \div 16)
   IN Tup([i \in 1..Len(msg) |-> msg[i] ^^ st[i]])
Eia2(key, count, bearer, dir, msg) ==
   Take(Cmac(key, count \o <<bearer * 8 + dir * 4, 0, 0, 0>> \o msg), 4)

\* alg: 0 = NEA0, 1 = 128-NEA1, 2 = 128-NEA2
Nea(alg, key, count, bearer, dir, msg) ==
   CASE alg = 0 -> msg
     [] alg = 1 -> Eea1(key, count, bearer, dir, msg)
     [] alg = 2 -> Eea2(key, count, bearer, dir, msg)
\* alg: 1 = 128-NIA1, 2 = 128-NIA2 (NIA0: all-zero MAC, TS 33.501 D.1)
Nia(alg, key, count, bearer, dir, msg) ==
   CASE alg = 0 -> <<0, 0, 0, 0>>
     [] alg = 1 -> Eia1(key, count, bearer, dir, msg)
     [] alg = 2 -> Eia2(key, count, bearer, dir, msg)
=============================================================================
