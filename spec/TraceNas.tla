------------------------------- MODULE TraceNas -------------------------------
(***************************************************************************)
(* C08 / C09: the library's plain NAS codec against Nas24501.tla.          *)
(* Event Nas (from GenNas, replayed by rec-nas):                           *)
(*   - the canonical encoding built from the TS 24.501 tables is decoded   *)
(*     by the library to the same abstract content (message, header,        *)
(*     mandatory values in order, optional [IEI, value] list in table       *)
(*     order), re-encoded to exactly the same octets, and                   *)
(*     decode(encode(m)) = m structurally;                                  *)
(*   - with the optional IEs permuted the same content is recognised and    *)
(*     re-encoding yields the canonical octets;                             *)
(*   - an unknown message type is an error.                                 *)
(* Event Path (C09): the messages the emulator's constructors build are    *)
(* parsed by Nas24501!NasDecode to the intended field values.              *)
(***************************************************************************)
EXTENDS TraceBase, Nas24501, FiniteSets
VARIABLES l, bad
SameAbs(a, m) == a.name = m.name /\ a.hdr = m.hdr /\ a.mand = m.mand /\ a.opt = m.opt
Which(a, m) == IF a.name # m.name THEN "message type recognised as " \o a.name
               ELSE IF a.hdr # m.hdr THEN "header octets differ"
               ELSE IF a.mand # m.mand THEN "mandatory part differs: " \o Str(a.mand) \o " instead of " \o Str(m.mand)
               ELSE "optional IEs differ: " \o Str(a.opt) \o " instead of " \o Str(m.opt)
\* C09 and C08 are judged independently on the same event: a decode that departs from the TS 24.501 tables (C09) does not hide that the
\* library fails to re-encode the canonical octets or to round-trip its own encoding (C08), and vice versa
C09Nas(e) ==
   IF e.kind = "unknown" THEN Ok
   ELSE LET m == e.abs o == e.obs IN
        IF o.err THEN No("C09: the TS 24.501 encoding of " \o m.name \o " is rejected by the library")
        ELSE IF ~SameAbs(o.abs, m) THEN No("C09: " \o m.name \o " built per TS 24.501 decodes differently: " \o Which(o.abs, m))
        ELSE IF ~o.reuseAbs THEN No("C09: " \o m.name \o " decodes differently in a Message object that has decoded other messages before (something of an earlier message stays behind)")
        ELSE Ok
C08Nas(e) ==
   IF e.kind = "unknown" THEN (IF e.obs.err /\ ~e.obs.panic THEN Ok ELSE No("C08: an unknown message type was not reported as an error"))
   ELSE LET m == e.abs o == e.obs IN
        IF o.err THEN No("C08: a well-formed " \o m.name \o " in canonical IE order is rejected, so it cannot be re-encoded")
        ELSE IF ~o.abs.lenOK THEN No("C08: a length field of the decoded " \o m.name \o " disagrees with its contents")
        ELSE IF o.reErr \/ o.re # e.canon THEN No("C08: re-encoding the decoded " \o m.name \o " does not reproduce the octets: " \o Str(o.re) \o " instead of " \o Str(e.canon))
        ELSE IF ~o.stable THEN No("C08: decode(encode(m)) differs from m for " \o m.name)
        ELSE IF ~o.reuseRe THEN No("C08: " \o m.name \o " decoded into a Message object that has decoded other messages before is re-encoded to other octets")
        ELSE IF Len(e.perm) = 0 THEN Ok
        ELSE LET p == e.permObs IN
             IF p.err THEN No("C08: " \o m.name \o " with optional IEs in another order is rejected")
             ELSE IF ~(p.abs.name = m.name /\ p.abs.hdr = m.hdr /\ p.abs.mand = m.mand /\ {p.abs.opt[i] : i \in 1..Len(p.abs.opt)} = {m.opt[i] : i \in 1..Len(m.opt)} /\ Len(p.abs.opt) = Len(m.opt))
                  THEN No("C08: optional IEs of " \o m.name \o " are not recognised when they arrive in another order")
             ELSE IF p.reErr \/ p.re # e.canon THEN No("C08: re-encoding " \o m.name \o " decoded from permuted IEs does not give the canonical order")
             ELSE Ok
\* ---- C09: emulator-path constructors parsed by the independent parser ----
Opt(m, iei) == NasOpt(m, iei)
ExplainPath(e) ==
   LET d == NasDecode(e.bytes) a == e.args IN
   IF ~d.ok THEN No("C09: " \o e.fn \o " does not parse per TS 24.501: " \o d.why)
   ELSE LET m == d.m
            inner == IF m.name = "ULNASTransport" THEN NasDecode(m.mand[2]) ELSE [ok |-> FALSE, why |-> ""]
            want(c, msg) == IF c THEN {} ELSE {msg}
            cs == CASE e.fn = "GetRegistrationRequest" ->
                          want(m.name = "RegistrationRequest", "not a REGISTRATION REQUEST")
                          \cup want(m.name # "RegistrationRequest" \/ m.mand[2] = a.suci, "5GS mobile identity is not the given SUCI")
                          \cup want(m.name # "RegistrationRequest" \/ m.mand[1][1] % 8 = 1, "registration type is not initial registration")
                          \cup want(m.name # "RegistrationRequest" \/ (Opt(m, 46).has /\ Opt(m, 46).v = a.capab), "UE security capability (IEI 2E) is not the given one")
                          \cup want(m.name # "RegistrationRequest" \/ Opt(m, 16).has = (Len(a.mm) > 0), "5GMM capability (IEI 10) presence")
                          \cup want(m.name # "RegistrationRequest" \/ ~Opt(m, 16).has \/ Opt(m, 16).v = a.mm, "5GMM capability (IEI 10) contents")
                          \cup want(m.name # "RegistrationRequest" \/ "nssai" \notin DOMAIN a \/ (Opt(m, 47).has /\ Opt(m, 47).v = a.nssai), "requested NSSAI (IEI 2F) is not the given one")
                          \cup want(m.name # "RegistrationRequest" \/ "uds" \notin DOMAIN a \/ (Opt(m, 64).has /\ Opt(m, 64).v = a.uds), "uplink data status (IEI 40) is not the given one")
                          \cup want(m.name # "RegistrationRequest" \/ "container" \notin DOMAIN a \/ (Opt(m, 113).has /\ Opt(m, 113).v = a.container), "NAS message container (IEI 71) is not the given message")
                          \cup want(m.name # "RegistrationRequest" \/ "uds" \in DOMAIN a \/ (~Opt(m, 64).has /\ ~Opt(m, 47).has /\ ~Opt(m, 113).has), "an optional IE that was not asked for is present")
                   [] e.fn = "GetAuthenticationResponse" ->
                          (IF "eap" \in DOMAIN a
                           THEN want(m.name = "AuthenticationResponse" /\ Opt(m, 120).has /\ Opt(m, 120).v = a.eap, "EAP message (IEI 78) is not the given EAP packet")
                                \cup want(m.name # "AuthenticationResponse" \/ ~Opt(m, 45).has, "an authentication response parameter that was not asked for is present")
                           ELSE want(m.name = "AuthenticationResponse" /\ Opt(m, 45).has /\ Opt(m, 45).v = a.res, "authentication response parameter (IEI 2D) is not the given RES*"))
                   [] e.fn = "GetSecurityModeComplete" ->
                          want(m.name = "SecurityModeComplete" /\ Opt(m, 113).has /\ Opt(m, 113).v = a.container, "NAS message container (IEI 71) is not the given message")
                   [] e.fn = "GetRegistrationComplete" -> want(m.name = "RegistrationComplete" /\ m.opt = <<>>, "not a bare REGISTRATION COMPLETE")
                   [] e.fn \in {"GetUlNasTransport_PduSessionEstablishmentRequest", "GetUlNasTransport_PduSessionReleaseRequest", "GetUlNasTransport_PduSessionReleaseComplete"} ->
                          want(m.name = "ULNASTransport", "not a UL NAS TRANSPORT")
                          \cup want(m.name # "ULNASTransport" \/ m.mand[1][1] % 16 = 1, "payload container type is not N1 SM information")
                          \cup want(m.name # "ULNASTransport" \/ (Opt(m, 18).has /\ Opt(m, 18).v = <<a.psi>>), "PDU session ID (IEI 12) is not the given identity")
                          \cup want(m.name # "ULNASTransport" \/ (inner.ok /\ inner.m.hdr[1] = a.psi), "5GSM message does not carry the given PDU session identity")
                          \cup want(m.name # "ULNASTransport" \/ ~inner.ok \/ inner.m.name =
                                      (IF e.fn = "GetUlNasTransport_PduSessionEstablishmentRequest" THEN "PDUSessionEstablishmentRequest"
                                       ELSE IF e.fn = "GetUlNasTransport_PduSessionReleaseRequest" THEN "PDUSessionReleaseRequest" ELSE "PDUSessionReleaseComplete"),
                                  "wrong 5GSM message in the payload container")
                          \cup want(m.name # "ULNASTransport" \/ "dnn" \notin DOMAIN a \/ (Opt(m, 37).has /\ Opt(m, 37).v = <<Len(a.dnn)>> \o a.dnn), "DNN (IEI 25) is not the given name")
                          \cup want(m.name # "ULNASTransport" \/ "sst" \notin DOMAIN a \/ (Opt(m, 34).has /\ Opt(m, 34).v = <<a.sst>> \o a.sd), "S-NSSAI (IEI 22) is not the given slice")
                          \cup want(m.name # "ULNASTransport" \/ "requestType" \notin DOMAIN a \/ (Opt(m, 128).has /\ Opt(m, 128).v[1] % 8 = a.requestType), "request type (IEI 8-) is not the given one")
                   [] e.fn = "GetServiceRequest" ->
                          want(m.name = "ServiceRequest" /\ m.mand[1][1] \div 16 = a.serviceType, "service type is not the given one")
                          \cup want(m.name # "ServiceRequest" \/ Len(m.mand[2]) = 7, "5G-S-TMSI is not a 7-octet identity")
                   [] e.fn = "GetDeregistrationRequest" ->
                          want(m.name = "DeregistrationRequestUEOriginatingDeregistration" /\ m.mand[2] = a.suci, "5GS mobile identity is not the given SUCI")
                          \cup want(m.name # "DeregistrationRequestUEOriginatingDeregistration" \/ m.mand[1][1] \div 16 = a.ngksi, "ngKSI is not the given one")
                          \cup want(m.name # "DeregistrationRequestUEOriginatingDeregistration" \/ m.mand[1][1] % 4 = a.accessType, "access type is not the given one")
                          \cup want(m.name # "DeregistrationRequestUEOriginatingDeregistration" \/ (m.mand[1][1] \div 8) % 2 = a.switchOff, "switch-off bit is not the given one")
                   [] OTHER -> {"unknown constructor"} IN
        IF cs = {} THEN Ok ELSE No("C09: " \o e.fn \o ": " \o (CHOOSE x \in cs : TRUE))
Explain(e) == CASE e.ev = "Path" -> ExplainPath(e) [] e.ev = "Held" -> HeldVerdict(e) [] OTHER -> No("no action of the specification matches this event")
Init == l = 1 /\ bad = 0
Next == /\ l <= Len(Trace)
        /\ LET e == Trace[l] IN
             IF e.ev = "Nas"
             THEN \E r9 \in {C09Nas(e)}, r8 \in {C08Nas(e)} :
                  /\ Report(l, e, r9) /\ Report(l, e, r8)
                  /\ bad' = bad + (IF r9.ok THEN 0 ELSE 1) + (IF r8.ok THEN 0 ELSE 1)
             ELSE \E r \in {Explain(e)} :
                  /\ Report(l, e, r)
                  /\ bad' = bad + (IF r.ok THEN 0 ELSE 1)
        /\ l' = l + 1
Consumed == TLCGet("stats").diameter - 1 = Len(Trace)
=============================================================================
