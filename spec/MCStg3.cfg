CONSTANTS MaxCnt = 3 Faults = {"none"}
SPECIFICATION Spec
INVARIANT AmfNeverRejects
INVARIANT CountFresh
INVARIANT Prereq
INVARIANT ReportedIsAssigned
PROPERTY Completes
CHECK_DEADLOCK FALSE
