-------------------------------- MODULE Aes --------------------------------
(***************************************************************************)
(* AES-128 encryption (FIPS-197) as TLA+ operators over octet sequences.   *)
(* The S-box is derived from its definition (multiplicative inverse in     *)
(* GF(2^8)/0x11B followed by the affine map), not copied from any table.   *)
(***************************************************************************)
EXTENDS Bytes

AesXT(b) == LET s == 2 * b IN IF s >= 256 THEN (s - 256) ^^ 27 ELSE s
RECURSIVE GMul(_, _, _)
\* multiplication in GF(2^8) with reduction constant red (0x1B for AES, 0x69 for SNOW 3G S2)
GMul(a, b, red) == IF b = 0 THEN 0
                   ELSE LET a2 == LET s == 2 * a IN IF s >= 256 THEN (s - 256) ^^ red ELSE s
                        IN (IF b % 2 = 1 THEN a ELSE 0) ^^ GMul(a2, b \div 2, red)
RECURSIVE GPow(_, _, _)
GPow(a, n, red) == IF n = 0 THEN 1 ELSE GMul(a, GPow(a, n - 1, red), red)
\* inverse = a^254
GInv(a) == IF a = 0 THEN 0
           ELSE LET a2 == GMul(a, a, 27) a4 == GMul(a2, a2, 27) a8 == GMul(a4, a4, 27)
                    a16 == GMul(a8, a8, 27) a32 == GMul(a16, a16, 27) a64 == GMul(a32, a32, 27)
                    a128 == GMul(a64, a64, 27)
                IN GMul(a128, GMul(a64, GMul(a32, GMul(a16, GMul(a8, GMul(a4, a2, 27), 27), 27), 27), 27), 27)
RotL8(b, n) == ((b * 2^n) % 256) + (b \div 2^(8 - n))
AesAffine(b) == X5(b, RotL8(b, 1), RotL8(b, 2), RotL8(b, 3), RotL8(b, 4)) ^^ 99
\* algebraic definition; the literal table below was printed by TLC from it and SelfTest re-checks equality
AesSBoxDef == [i \in 1..256 |-> AesAffine(GInv(i - 1))]
AesSBox ==
   <<99,124,119,123,242,107,111,197,48,1,103,43,254,215,171,118,202,130,201,125,250,89,71,240,173,212,162,175,156,
   164,114,192,183,253,147,38,54,63,247,204,52,165,229,241,113,216,49,21,4,199,35,195,24,150,5,154,7,18,128,
   226,235,39,178,117,9,131,44,26,27,110,90,160,82,59,214,179,41,227,47,132,83,209,0,237,32,252,177,91,106,203,
   190,57,74,76,88,207,208,239,170,251,67,77,51,133,69,249,2,127,80,60,159,168,81,163,64,143,146,157,56,245,
   188,182,218,33,16,255,243,210,205,12,19,236,95,151,68,23,196,167,126,61,100,93,25,115,96,129,79,220,34,42,
   144,136,70,238,184,20,222,94,11,219,224,50,58,10,73,6,36,92,194,211,172,98,145,149,228,121,231,200,55,109,
   141,213,78,169,108,86,244,234,101,122,174,8,186,120,37,46,28,166,180,198,232,221,116,31,75,189,139,138,112,
   62,181,102,72,3,246,14,97,53,87,185,134,193,29,158,225,248,152,17,105,217,142,148,155,30,135,233,206,85,40,
   223,140,161,137,13,191,230,66,104,65,153,45,15,176,84,187,22>>
AesSub(b) == AesSBox[b + 1]

AesRotWord(w) == <<w[2], w[3], w[4], w[1]>>
AesSubWord(w) == <<AesSub(w[1]), AesSub(w[2]), AesSub(w[3]), AesSub(w[4])>>
AesRcon == <<1, 2, 4, 8, 16, 32, 64, 128, 27, 54>>
RECURSIVE AesExpand(_, _)
AesExpand(w, i) == IF i = 44 THEN w ELSE
   LET prev == w[i]
       t == IF i % 4 = 0
            THEN LET sw == AesSubWord(AesRotWord(prev)) IN <<sw[1] ^^ AesRcon[i \div 4], sw[2], sw[3], sw[4]>>
            ELSE prev
   IN AesExpand(Append(w, XorBytes(w[i - 3], t)), i + 1)
AesKeySchedule(k) == AesExpand(<<SubSeq(k, 1, 4), SubSeq(k, 5, 8), SubSeq(k, 9, 12), SubSeq(k, 13, 16)>>, 4)
AesRoundKey(ks, r) == ks[4 * r + 1] \o ks[4 * r + 2] \o ks[4 * r + 3] \o ks[4 * r + 4]
AesSubBytes(s) == Tup([i \in 1..16 |-> AesSub(s[i])])
AesShiftRows(s) == Tup([i \in 1..16 |-> LET r == (i - 1) % 4  c == (i - 1) \div 4 IN s[r + 4 * ((c + r) % 4) + 1]])
AesMixCol(a) == LET b == Tup([i \in 1..4 |-> AesXT(a[i])]) IN
   << X5(b[1], a[2], b[2], a[3], a[4]),
      X5(a[1], b[2], a[3], b[3], a[4]),
      X5(a[1], a[2], b[3], a[4], b[4]),
      X5(a[1], b[1], a[2], a[3], b[4]) >>
AesMixColumns(s) == AesMixCol(SubSeq(s, 1, 4)) \o AesMixCol(SubSeq(s, 5, 8)) \o AesMixCol(SubSeq(s, 9, 12)) \o AesMixCol(SubSeq(s, 13, 16))
RECURSIVE AesRounds(_, _, _)
AesRounds(s, ks, r) == IF r = 10 THEN XorBytes(AesShiftRows(AesSubBytes(s)), AesRoundKey(ks, 10))
                       ELSE AesRounds(XorBytes(AesMixColumns(AesShiftRows(AesSubBytes(s))), AesRoundKey(ks, r)), ks, r + 1)
AesEncKS(ks, pt) == AesRounds(XorBytes(pt, AesRoundKey(ks, 0)), ks, 1)
AesEnc(k, pt) == AesEncKS(AesKeySchedule(k), pt)

(***************************************************************************)
(* AES-CMAC (NIST SP 800-38B / RFC 4493).                                  *)
(***************************************************************************)
\* shift a 16-octet block left by one bit
ShiftL1(b) == Tup([i \in 1..Len(b) |-> ((b[i] * 2) % 256) + (IF i < Len(b) THEN b[i + 1] \div 128 ELSE 0)])
CmacDbl(b) == LET s == ShiftL1(b) IN IF b[1] >= 128 THEN [s EXCEPT ![16] = @ ^^ 135] ELSE s
\* process nb full blocks of m, starting with block i (0-based), from chaining value x; in runs of 32 blocks, which keeps the
\* evaluator's recursion shallow for messages of several KiB
RECURSIVE CmacRun(_, _, _, _, _)
CmacRun(ks, x, m, i, nb) == IF nb = 0 \/ Len(x) # 16 THEN x       \* (Len(x): the chaining value is computed block by block, see Snow3g!EiaRun)
                            ELSE CmacRun(ks, AesEncKS(ks, XorBytes(x, SubSeq(m, 16 * i + 1, 16 * i + 16))), m, i + 1, nb - 1)
RECURSIVE CmacChainAt(_, _, _, _, _)
CmacChainAt(ks, x, m, i, nb) == IF nb <= 32 THEN CmacRun(ks, x, m, i, nb) ELSE CmacChainAt(ks, CmacRun(ks, x, m, i, 32), m, i + 32, nb - 32)
\* process the first nb full blocks of m starting from chaining value x
CmacChain(ks, x, m, nb) == CmacChainAt(ks, x, m, 0, nb)
Cmac(k, m) ==
   LET ks == AesKeySchedule(k)
       l  == AesEncKS(ks, Zeros(16))
       k1 == CmacDbl(l)
       k2 == CmacDbl(k1)
       n  == Len(m)
       nb == IF n = 0 THEN 1 ELSE (n + 15) \div 16
       complete == n > 0 /\ n % 16 = 0
       lastRaw == SubSeq(m, 16 * (nb - 1) + 1, n)
       last == IF complete THEN XorBytes(lastRaw, k1)
               ELSE XorBytes(lastRaw \o <<128>> \o Zeros(15 - Len(lastRaw)), k2)
       x == CmacChain(ks, Zeros(16), m, nb - 1)
   IN AesEncKS(ks, XorBytes(x, last))
=============================================================================
