--------------------------- MODULE NasCountLemma ---------------------------
(***************************************************************************)
(* The NAS COUNT arithmetic of NasSec.tla at its real widths (8-bit        *)
(* sequence number, 16-bit overflow counter), for ALL 2^24 counter values, *)
(* discharged symbolically by Apalache (SMT), where TLC explores the same  *)
(* rules exhaustively only for small widths (MCNasSec).                    *)
(*   EstimateExact: a receiver whose last accepted COUNT is `last` and     *)
(*     that receives the sequence number of COUNT last + d, 0 <= d < 256,  *)
(*     reconstructs exactly that COUNT (TS 24.501 4.4.3.1), including the  *)
(*     wrap of the overflow counter;                                       *)
(*   EstimateFailsBeyond: with a gap of a full cycle the estimate is wrong *)
(*     (so the bound d < 256 in the first lemma is tight);                 *)
(*   AddOneIsSuccessor, FieldsRoundTrip: the counter algebra.              *)
(* Operators are textual copies of NasSec.tla (checked by selftest_spec).  *)
(***************************************************************************)
EXTENDS Integers
VARIABLES
  \* @type: Int;
  last,
  \* @type: Int;
  d
SqnMod == 256
OvfMod == 65536
CountMod == SqnMod * OvfMod
Sqn(c) == c % SqnMod
Ovf(c) == c \div SqnMod
AddOne(c) == (c + 1) % CountMod
MkCount(ovf, sqn) == (ovf % OvfMod) * SqnMod + sqn
Estimate(l, sqn) == MkCount(IF sqn < Sqn(l) THEN Ovf(l) + 1 ELSE Ovf(l), sqn)

Init == /\ last \in Int /\ last >= 0 /\ last < CountMod
        /\ d \in Int /\ d >= 0 /\ d < SqnMod
Next == UNCHANGED <<last, d>>

EstimateExact == LET c == (last + d) % CountMod IN Estimate(last, Sqn(c)) = c
EstimateFailsBeyond == LET c == (last + SqnMod) % CountMod IN Estimate(last, Sqn(c)) # c
AddOneIsSuccessor == /\ AddOne(last) \in 0..(CountMod - 1)
                     /\ (last < CountMod - 1 => AddOne(last) = last + 1)
                     /\ (last = CountMod - 1 => AddOne(last) = 0)
FieldsRoundTrip == /\ MkCount(Ovf(last), Sqn(last)) = last
                   /\ Sqn(last) \in 0..(SqnMod - 1) /\ Ovf(last) \in 0..(OvfMod - 1)
                   /\ Sqn(MkCount(Ovf(last), d)) = d /\ Ovf(MkCount(Ovf(last), d)) = Ovf(last)
Lemmas == EstimateExact /\ EstimateFailsBeyond /\ AddOneIsSuccessor /\ FieldsRoundTrip
=============================================================================
