------------------------------ MODULE Totality ------------------------------
(***************************************************************************)
(* C14: the outcome of decoding any byte string is a value or an error,    *)
(* within time and memory bounded by the input size and the schema's own   *)
(* list-size limits.                                                       *)
(***************************************************************************)
EXTENDS TraceBase
CONSTANTS MaxMs, MaxAllocKiB
VARIABLES l, bad
Explain(e) ==
   IF e.ev # "Decode" THEN No("no action of the specification matches this event")
   ELSE IF e.outcome = "panic" THEN No("decoding panicked")
   ELSE IF e.outcome = "hang" THEN No("decoding did not return")
   ELSE IF e.outcome \notin {"value", "error"} THEN No("unknown outcome")
   ELSE IF e.ms > MaxMs THEN No("decoding a " \o Str(e.len) \o "-octet input took " \o Str(e.ms) \o " ms")
   ELSE IF e.allocKiB > MaxAllocKiB THEN No("decoding a " \o Str(e.len) \o "-octet input allocated " \o Str(e.allocKiB) \o " KiB")
   ELSE Ok
Init == l = 1 /\ bad = 0
Next == /\ l <= Len(Trace)
        /\ \E r \in {Explain(Trace[l])} : LET e == Trace[l] IN     \* bound once (TLC evaluates an action-level LET at every use)
             /\ Report(l, e, r)
             /\ bad' = bad + (IF r.ok THEN 0 ELSE 1)
        /\ l' = l + 1
Consumed == TLCGet("stats").diameter - 1 = Len(Trace)
=============================================================================
