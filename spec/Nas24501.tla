------------------------------ MODULE Nas24501 ------------------------------
(***************************************************************************)
(* Layer 2c: the message tables of TS 24.501 (Release 15) clauses 8.2 and  *)
(* 8.3 and a table-driven plain NAS codec (TS 24.007 clause 11 formats).   *)
(*                                                                         *)
(* A table entry:                                                          *)
(*   [epd: 126 (5GMM) | 46 (5GSM), mt: message type octet,                 *)
(*    mand: Seq(<<name, format, length>>), format \in {"V","LV","LVE"},    *)
(*          length = number of value octets for V (half-octet pairs share   *)
(*          one octet),                                                    *)
(*    opt:  Seq(<<IEI, format, length>>),                                  *)
(*          format "TV1": half-octet IEI in the high nibble (IEI given as   *)
(*                        16 * n), one octet in all;                        *)
(*                 "TV" : IEI + (length-1) value octets;                    *)
(*                 "TLV": IEI, one length octet, value;                     *)
(*                 "TLVE": IEI, two length octets, value ]                  *)
(* An abstract plain message:                                              *)
(*   [name, hdr: <<security header type>> (5GMM) | <<PSI, PTI>> (5GSM),     *)
(*    mand: Seq(octets), opt: Seq([iei, v: octets]) in wire order]          *)
(* for TV1 the value is the one-element sequence holding the low nibble.   *)
(***************************************************************************)
EXTENDS Bytes, TLC

Epd5GMM == 126
Epd5GSM == 46
V1(n) == <<n, "V", 1>>

NasTable == [
  \* ---------------------------------------------------------------- 5GMM (8.2)
  AuthenticationRequest |-> [epd |-> 126, mt |-> 86, mand |-> << V1("ngKSI"), <<"ABBA", "LV", 0>> >>,
      opt |-> << <<33, "TV", 17>>, <<32, "TLV", 0>>, <<120, "TLVE", 0>> >>],
  AuthenticationResponse |-> [epd |-> 126, mt |-> 87, mand |-> <<>>, opt |-> << <<45, "TLV", 0>>, <<120, "TLVE", 0>> >>],
  AuthenticationResult |-> [epd |-> 126, mt |-> 90, mand |-> << V1("ngKSI"), <<"EAPMessage", "LVE", 0>> >>, opt |-> << <<56, "TLV", 0>> >>],
  AuthenticationFailure |-> [epd |-> 126, mt |-> 89, mand |-> << V1("Cause5GMM") >>, opt |-> << <<48, "TLV", 0>> >>],
  AuthenticationReject |-> [epd |-> 126, mt |-> 88, mand |-> <<>>, opt |-> << <<120, "TLVE", 0>> >>],
  RegistrationRequest |-> [epd |-> 126, mt |-> 65, mand |-> << V1("NgksiAndRegistrationType5GS"), <<"MobileIdentity5GS", "LVE", 0>> >>,
      opt |-> << <<192, "TV1", 1>>, <<16, "TLV", 0>>, <<46, "TLV", 0>>, <<47, "TLV", 0>>, <<82, "TV", 7>>, <<23, "TLV", 0>>, <<64, "TLV", 0>>,
                 <<80, "TLV", 0>>, <<176, "TV1", 1>>, <<43, "TLV", 0>>, <<119, "TLVE", 0>>, <<37, "TLV", 0>>, <<24, "TLV", 0>>, <<81, "TLV", 0>>,
                 <<112, "TLVE", 0>>, <<116, "TLVE", 0>>, <<123, "TLVE", 0>>, <<144, "TV1", 1>>, <<83, "TLV", 0>>, <<113, "TLVE", 0>> >>],
  RegistrationAccept |-> [epd |-> 126, mt |-> 66, mand |-> << <<"RegistrationResult5GS", "LV", 0>> >>,
      opt |-> << <<119, "TLVE", 0>>, <<74, "TLV", 0>>, <<84, "TLV", 0>>, <<21, "TLV", 0>>, <<17, "TLV", 0>>, <<49, "TLV", 0>>, <<33, "TLV", 0>>,
                 <<80, "TLV", 0>>, <<38, "TLV", 0>>, <<114, "TLVE", 0>>, <<121, "TLVE", 0>>, <<176, "TV1", 1>>, <<144, "TV1", 1>>, <<39, "TLV", 0>>,
                 <<94, "TLV", 0>>, <<93, "TLV", 0>>, <<22, "TLV", 0>>, <<52, "TLV", 0>>, <<122, "TLVE", 0>>, <<115, "TLVE", 0>>, <<120, "TLVE", 0>>,
                 <<160, "TV1", 1>>, <<118, "TLVE", 0>>, <<81, "TLV", 0>> >>],
  RegistrationComplete |-> [epd |-> 126, mt |-> 67, mand |-> <<>>, opt |-> << <<115, "TLVE", 0>> >>],
  RegistrationReject |-> [epd |-> 126, mt |-> 68, mand |-> << V1("Cause5GMM") >>, opt |-> << <<95, "TLV", 0>>, <<22, "TLV", 0>>, <<120, "TLVE", 0>> >>],
  ULNASTransport |-> [epd |-> 126, mt |-> 103, mand |-> << V1("SpareHalfOctetAndPayloadContainerType"), <<"PayloadContainer", "LVE", 0>> >>,
      opt |-> << <<18, "TV", 2>>, <<89, "TV", 2>>, <<128, "TV1", 1>>, <<34, "TLV", 0>>, <<37, "TLV", 0>>, <<36, "TLV", 0>> >>],
  DLNASTransport |-> [epd |-> 126, mt |-> 104, mand |-> << V1("SpareHalfOctetAndPayloadContainerType"), <<"PayloadContainer", "LVE", 0>> >>,
      opt |-> << <<18, "TV", 2>>, <<36, "TLV", 0>>, <<88, "TV", 2>>, <<55, "TLV", 0>> >>],
  DeregistrationRequestUEOriginatingDeregistration |-> [epd |-> 126, mt |-> 69,
      mand |-> << V1("NgksiAndDeregistrationType"), <<"MobileIdentity5GS", "LVE", 0>> >>, opt |-> <<>>],
  DeregistrationAcceptUEOriginatingDeregistration |-> [epd |-> 126, mt |-> 70, mand |-> <<>>, opt |-> <<>>],
  DeregistrationRequestUETerminatedDeregistration |-> [epd |-> 126, mt |-> 71, mand |-> << V1("SpareHalfOctetAndDeregistrationType") >>,
      opt |-> << <<88, "TV", 2>>, <<95, "TLV", 0>> >>],
  DeregistrationAcceptUETerminatedDeregistration |-> [epd |-> 126, mt |-> 72, mand |-> <<>>, opt |-> <<>>],
  ServiceRequest |-> [epd |-> 126, mt |-> 76, mand |-> << V1("ServiceTypeAndNgksi"), <<"TMSI5GS", "LVE", 0>> >>,
      opt |-> << <<64, "TLV", 0>>, <<80, "TLV", 0>>, <<37, "TLV", 0>>, <<113, "TLVE", 0>> >>],
  ServiceAccept |-> [epd |-> 126, mt |-> 78, mand |-> <<>>, opt |-> << <<80, "TLV", 0>>, <<38, "TLV", 0>>, <<114, "TLVE", 0>>, <<120, "TLVE", 0>> >>],
  ServiceReject |-> [epd |-> 126, mt |-> 77, mand |-> << V1("Cause5GMM") >>, opt |-> << <<80, "TLV", 0>>, <<95, "TLV", 0>>, <<120, "TLVE", 0>> >>],
  ConfigurationUpdateCommand |-> [epd |-> 126, mt |-> 84, mand |-> <<>>,
      opt |-> << <<208, "TV1", 1>>, <<119, "TLVE", 0>>, <<84, "TLV", 0>>, <<21, "TLV", 0>>, <<39, "TLV", 0>>, <<67, "TLV", 0>>, <<69, "TLV", 0>>,
                 <<70, "TV", 2>>, <<71, "TV", 8>>, <<73, "TLV", 0>>, <<121, "TLVE", 0>>, <<176, "TV1", 1>>, <<144, "TV1", 1>>, <<49, "TLV", 0>>,
                 <<17, "TLV", 0>>, <<118, "TLVE", 0>>, <<240, "TV1", 1>> >>],
  ConfigurationUpdateComplete |-> [epd |-> 126, mt |-> 85, mand |-> <<>>, opt |-> <<>>],
  IdentityRequest |-> [epd |-> 126, mt |-> 91, mand |-> << V1("SpareHalfOctetAndIdentityType") >>, opt |-> <<>>],
  IdentityResponse |-> [epd |-> 126, mt |-> 92, mand |-> << <<"MobileIdentity", "LVE", 0>> >>, opt |-> <<>>],
  Notification |-> [epd |-> 126, mt |-> 101, mand |-> << V1("SpareHalfOctetAndAccessType") >>, opt |-> <<>>],
  NotificationResponse |-> [epd |-> 126, mt |-> 102, mand |-> <<>>, opt |-> << <<80, "TLV", 0>> >>],
  SecurityModeCommand |-> [epd |-> 126, mt |-> 93,
      mand |-> << V1("SelectedNASSecurityAlgorithms"), V1("SpareHalfOctetAndNgksi"), <<"ReplayedUESecurityCapabilities", "LV", 0>> >>,
      opt |-> << <<224, "TV1", 1>>, <<87, "TV", 2>>, <<54, "TLV", 0>>, <<120, "TLVE", 0>>, <<56, "TLV", 0>>, <<25, "TLV", 0>> >>],
  SecurityModeComplete |-> [epd |-> 126, mt |-> 94, mand |-> <<>>, opt |-> << <<119, "TLVE", 0>>, <<113, "TLVE", 0>> >>],
  SecurityModeReject |-> [epd |-> 126, mt |-> 95, mand |-> << V1("Cause5GMM") >>, opt |-> <<>>],
  Status5GMM |-> [epd |-> 126, mt |-> 100, mand |-> << V1("Cause5GMM") >>, opt |-> <<>>],
  \* ---------------------------------------------------------------- 5GSM (8.3)
  PDUSessionEstablishmentRequest |-> [epd |-> 46, mt |-> 193, mand |-> << <<"IntegrityProtectionMaximumDataRate", "V", 2>> >>,
      opt |-> << <<144, "TV1", 1>>, <<160, "TV1", 1>>, <<40, "TLV", 0>>, <<85, "TV", 3>>, <<176, "TV1", 1>>, <<57, "TLV", 0>>, <<123, "TLVE", 0>> >>],
  PDUSessionEstablishmentAccept |-> [epd |-> 46, mt |-> 194,
      mand |-> << V1("SelectedSSCModeAndSelectedPDUSessionType"), <<"AuthorizedQosRules", "LVE", 0>>, <<"SessionAMBR", "LV", 0>> >>,
      opt |-> << <<89, "TV", 2>>, <<41, "TLV", 0>>, <<86, "TV", 2>>, <<34, "TLV", 0>>, <<128, "TV1", 1>>, <<117, "TLVE", 0>>, <<120, "TLVE", 0>>,
                 <<121, "TLVE", 0>>, <<123, "TLVE", 0>>, <<37, "TLV", 0>> >>],
  PDUSessionEstablishmentReject |-> [epd |-> 46, mt |-> 195, mand |-> << V1("Cause5GSM") >>,
      opt |-> << <<55, "TLV", 0>>, <<240, "TV1", 1>>, <<120, "TLVE", 0>>, <<123, "TLVE", 0>> >>],
  PDUSessionAuthenticationCommand |-> [epd |-> 46, mt |-> 197, mand |-> << <<"EAPMessage", "LVE", 0>> >>, opt |-> << <<123, "TLVE", 0>> >>],
  PDUSessionAuthenticationComplete |-> [epd |-> 46, mt |-> 198, mand |-> << <<"EAPMessage", "LVE", 0>> >>, opt |-> << <<123, "TLVE", 0>> >>],
  PDUSessionAuthenticationResult |-> [epd |-> 46, mt |-> 199, mand |-> <<>>, opt |-> << <<120, "TLVE", 0>>, <<123, "TLVE", 0>> >>],
  PDUSessionModificationRequest |-> [epd |-> 46, mt |-> 201, mand |-> <<>>,
      opt |-> << <<40, "TLV", 0>>, <<89, "TV", 2>>, <<85, "TV", 3>>, <<176, "TV1", 1>>, <<19, "TV", 3>>, <<122, "TLVE", 0>>, <<121, "TLVE", 0>>,
                 <<127, "TLVE", 0>>, <<123, "TLVE", 0>> >>],
  PDUSessionModificationReject |-> [epd |-> 46, mt |-> 202, mand |-> << V1("Cause5GSM") >>, opt |-> << <<55, "TLV", 0>>, <<123, "TLVE", 0>> >>],
  PDUSessionModificationCommand |-> [epd |-> 46, mt |-> 203, mand |-> <<>>,
      opt |-> << <<89, "TV", 2>>, <<42, "TLV", 0>>, <<86, "TV", 2>>, <<128, "TV1", 1>>, <<122, "TLVE", 0>>, <<127, "TLVE", 0>>, <<121, "TLVE", 0>>,
                 <<123, "TLVE", 0>> >>],
  PDUSessionModificationComplete |-> [epd |-> 46, mt |-> 204, mand |-> <<>>, opt |-> << <<123, "TLVE", 0>> >>],
  PDUSessionModificationCommandReject |-> [epd |-> 46, mt |-> 205, mand |-> << V1("Cause5GSM") >>, opt |-> << <<123, "TLVE", 0>> >>],
  PDUSessionReleaseRequest |-> [epd |-> 46, mt |-> 209, mand |-> <<>>, opt |-> << <<89, "TV", 2>>, <<123, "TLVE", 0>> >>],
  PDUSessionReleaseReject |-> [epd |-> 46, mt |-> 210, mand |-> << V1("Cause5GSM") >>, opt |-> << <<123, "TLVE", 0>> >>],
  PDUSessionReleaseCommand |-> [epd |-> 46, mt |-> 211, mand |-> << V1("Cause5GSM") >>,
      opt |-> << <<55, "TLV", 0>>, <<120, "TLVE", 0>>, <<123, "TLVE", 0>> >>],
  PDUSessionReleaseComplete |-> [epd |-> 46, mt |-> 212, mand |-> <<>>, opt |-> << <<89, "TV", 2>>, <<123, "TLVE", 0>> >>],
  Status5GSM |-> [epd |-> 46, mt |-> 214, mand |-> << V1("Cause5GSM") >>, opt |-> <<>>] ]

NasNames == DOMAIN NasTable
NameOf(epd, mt) == IF \E n \in NasNames : NasTable[n].epd = epd /\ NasTable[n].mt = mt
                   THEN CHOOSE n \in NasNames : NasTable[n].epd = epd /\ NasTable[n].mt = mt ELSE "unknown"

(***************************************************************************)
(* Encoder (canonical: optional IEs in table order)                        *)
(***************************************************************************)
EncMandField(row, v) == CASE row[2] = "V" -> v
                          [] row[2] = "LV" -> <<Len(v)>> \o v
                          [] row[2] = "LVE" -> BE(Len(v), 2) \o v
EncOptIe(row, v) == CASE row[2] = "TV1" -> <<row[1] + v[1]>>
                      [] row[2] = "TV" -> <<row[1]>> \o v
                      [] row[2] = "TLV" -> <<row[1], Len(v)>> \o v
                      [] row[2] = "TLVE" -> <<row[1]>> \o BE(Len(v), 2) \o v
RECURSIVE EncMand(_, _, _)
EncMand(rows, vs, i) == IF i > Len(rows) THEN <<>> ELSE EncMandField(rows[i], vs[i]) \o EncMand(rows, vs, i + 1)
RECURSIVE FindOptRow(_, _, _)
\* row index for a first octet b (0 when none): half-octet IEIs are matched on the high nibble
FindOptRow(rows, b, i) == IF i > Len(rows) THEN 0
                          ELSE IF (rows[i][2] = "TV1" /\ b >= 128 /\ (b \div 16) * 16 = rows[i][1]) \/ (rows[i][2] # "TV1" /\ rows[i][1] = b) THEN i
                          ELSE FindOptRow(rows, b, i + 1)
RECURSIVE EncOptInOrder(_, _)
\* the optional IEs in the order given (used to build permuted encodings)
EncOptInOrder(rows, opts) == IF Len(opts) = 0 THEN <<>>
                             ELSE EncOptIe(rows[FindOptRow(rows, Head(opts).iei, 1)], Head(opts).v) \o EncOptInOrder(rows, Tail(opts))
RECURSIVE EncOptCanon(_, _, _)
EncOptCanon(rows, opts, i) ==
   IF i > Len(rows) THEN <<>>
   ELSE LET mine == SelectSeq(opts, LAMBDA o : o.iei = rows[i][1]) IN
        (IF Len(mine) = 0 THEN <<>> ELSE EncOptIe(rows[i], mine[1].v)) \o EncOptCanon(rows, opts, i + 1)
NasHeader(m) == LET t == NasTable[m.name] IN
                IF t.epd = Epd5GMM THEN <<126, m.hdr[1], t.mt>> ELSE <<46, m.hdr[1], m.hdr[2], t.mt>>
NasEncode(m) == LET t == NasTable[m.name] IN NasHeader(m) \o EncMand(t.mand, m.mand, 1) \o EncOptCanon(t.opt, m.opt, 1)
NasEncodeInOrder(m) == LET t == NasTable[m.name] IN NasHeader(m) \o EncMand(t.mand, m.mand, 1) \o EncOptInOrder(t.opt, m.opt)

(***************************************************************************)
(* Decoder: [ok |-> TRUE, m |-> message] or [ok |-> FALSE, why]            *)
(***************************************************************************)
NErr(why) == [ok |-> FALSE, why |-> why]
RECURSIVE DecMand(_, _, _, _, _)
DecMand(rows, b, p, i, acc) ==
   IF i > Len(rows) THEN [ok |-> TRUE, vs |-> acc, p |-> p]
   ELSE LET row == rows[i] IN
        IF row[2] = "V" THEN (IF p + row[3] - 1 > Len(b) THEN NErr("mandatory field " \o row[1] \o " truncated")
                              ELSE DecMand(rows, b, p + row[3], i + 1, Append(acc, SubSeq(b, p, p + row[3] - 1))))
        ELSE LET w == IF row[2] = "LV" THEN 1 ELSE 2 IN
             IF p + w - 1 > Len(b) THEN NErr("mandatory field " \o row[1] \o " truncated")
             ELSE LET n == IF w = 1 THEN b[p] ELSE b[p] * 256 + b[p + 1] IN
                  IF p + w + n - 1 > Len(b) THEN NErr("mandatory field " \o row[1] \o " longer than the message")
                  ELSE DecMand(rows, b, p + w + n, i + 1, Append(acc, SubSeq(b, p + w, p + w + n - 1)))
RECURSIVE DecOpt(_, _, _, _)
DecOpt(rows, b, p, acc) ==
   IF p > Len(b) THEN [ok |-> TRUE, opts |-> acc]
   ELSE LET r == FindOptRow(rows, b[p], 1) IN
        IF r = 0 THEN NErr("IEI " \o ToString(b[p]) \o " is not an information element of this message")
        ELSE LET row == rows[r] IN
             CASE row[2] = "TV1" -> DecOpt(rows, b, p + 1, Append(acc, [iei |-> row[1], v |-> <<b[p] % 16>>]))
               [] row[2] = "TV" -> IF p + row[3] - 1 > Len(b) THEN NErr("information element " \o ToString(row[1]) \o " truncated")
                                   ELSE DecOpt(rows, b, p + row[3], Append(acc, [iei |-> row[1], v |-> SubSeq(b, p + 1, p + row[3] - 1)]))
               [] row[2] = "TLV" -> IF p + 1 > Len(b) \/ p + 1 + b[p + 1] > Len(b) THEN NErr("information element " \o ToString(row[1]) \o " truncated")
                                    ELSE DecOpt(rows, b, p + 2 + b[p + 1], Append(acc, [iei |-> row[1], v |-> SubSeq(b, p + 2, p + 1 + b[p + 1])]))
               [] row[2] = "TLVE" -> IF p + 2 > Len(b) \/ p + 2 + b[p + 1] * 256 + b[p + 2] > Len(b) THEN NErr("information element " \o ToString(row[1]) \o " truncated")
                                     ELSE LET n == b[p + 1] * 256 + b[p + 2] IN
                                          DecOpt(rows, b, p + 3 + n, Append(acc, [iei |-> row[1], v |-> SubSeq(b, p + 3, p + 2 + n)]))
NasDecode(b) ==
   IF Len(b) < 3 THEN NErr("shorter than a NAS header")
   ELSE IF b[1] = Epd5GMM THEN
        LET name == NameOf(126, b[3]) IN
        IF name = "unknown" THEN NErr("unknown 5GMM message type " \o ToString(b[3]))
        ELSE LET t == NasTable[name]
                 md == DecMand(t.mand, b, 4, 1, <<>>) IN
             IF ~md.ok THEN md
             ELSE LET od == DecOpt(t.opt, b, md.p, <<>>) IN
                  IF ~od.ok THEN od ELSE [ok |-> TRUE, m |-> [name |-> name, hdr |-> <<b[2]>>, mand |-> md.vs, opt |-> od.opts]]
   ELSE IF b[1] = Epd5GSM THEN
        IF Len(b) < 4 THEN NErr("shorter than a 5GSM header")
        ELSE LET name == NameOf(46, b[4]) IN
             IF name = "unknown" THEN NErr("unknown 5GSM message type " \o ToString(b[4]))
             ELSE LET t == NasTable[name]
                      md == DecMand(t.mand, b, 5, 1, <<>>) IN
                  IF ~md.ok THEN md
                  ELSE LET od == DecOpt(t.opt, b, md.p, <<>>) IN
                       IF ~od.ok THEN od ELSE [ok |-> TRUE, m |-> [name |-> name, hdr |-> <<b[2], b[3]>>, mand |-> md.vs, opt |-> od.opts]]
   ELSE NErr("unknown extended protocol discriminator " \o ToString(b[1]))

\* optional IE value by IEI: [has |-> BOOLEAN, v]
NasOpt(m, iei) == LET s == SelectSeq(m.opt, LAMBDA o : o.iei = iei) IN IF Len(s) = 0 THEN [has |-> FALSE, v |-> <<>>] ELSE [has |-> TRUE, v |-> s[1].v]
Mk5GMM(name, mand, opt) == [name |-> name, hdr |-> <<0>>, mand |-> mand, opt |-> opt]
Mk5GSM(name, psi, pti, mand, opt) == [name |-> name, hdr |-> <<psi, pti>>, mand |-> mand, opt |-> opt]
=============================================================================
