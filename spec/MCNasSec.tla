------------------------------ MODULE MCNasSec ------------------------------
(***************************************************************************)
(* Exhaustive model of the NAS security envelope between one UE and its    *)
(* AMF over a lossless FIFO N1 path, with symbolic cryptography and small  *)
(* counter widths (so that the sequence-number wrap and the COUNT wrap     *)
(* both occur within the explored depth).  Checks the statements of C06    *)
(* and C10 on the specification itself:                                    *)
(*   NthCount    the n-th uplink message of a context carries COUNT n-1    *)
(*   CountFresh  no (key, COUNT) pair protects two uplink messages         *)
(*   Recovered   each receiver verifies the MAC and recovers the plain     *)
(*               message that was submitted                                *)
(*   DlEstimate  the UE's downlink estimate equals the COUNT the AMF used  *)
(* The UE side uses NasSec!Protect/Unprotect exactly as TraceNasSec binds  *)
(* them to tglib.NASEncode/NASDecode; the AMF side is the conformant peer. *)
(***************************************************************************)
EXTENDS Integers, Sequences, FiniteSets, TLC
CONSTANTS SqnMod, OvfMod, MaxMsgs, MaxKeys, Payloads
Msgs == [m : Payloads, l : {<<>>}]

\* symbolic cryptography: a ciphertext is a record naming its parameters; deciphering with the
\* same parameters returns the plain text, with others something else
\* a message is [m: payload, l: stack of cipher parameter tuples]
SymCipher(alg, key, count, bearer, dir, m) ==
   IF alg = 0 THEN m
   ELSE LET p == <<alg, key, count, bearer, dir>> IN
        IF m.l # <<>> /\ Head(m.l) = p THEN [m EXCEPT !.l = Tail(m.l)] ELSE [m EXCEPT !.l = <<p>> \o m.l]
SymMac(alg, key, count, bearer, dir, m) == <<alg, key, count, bearer, dir, m>>

S == INSTANCE NasSec WITH Cipher <- SymCipher, Mac <- SymMac

VARIABLES ue, amf,        \* security states; amf.ul = COUNT of the last accepted uplink message, amf.dl = next downlink COUNT
          upQ, downQ,     \* FIFO queues of PDUs in flight, with ghost fields
          ulHist,         \* ghost: uplink messages sent: [key, count, n] (n = index since the context was taken into use)
          sentUl,         \* ghost: messages since context activation (UE)
          nmsgs, alarm
vars == <<ue, amf, upQ, downQ, ulHist, sentUl, nmsgs, alarm>>

Algs == {<<2, 0>>, <<2, 1>>}      \* <<integrity, ciphering>>: NIA2 with NEA0 or a real cipher

Sec(k, a) == [ul |-> 0, dl |-> 0, kEnc |-> <<"enc", k>>, kInt |-> <<"int", k>>, intAlg |-> a[1], encAlg |-> a[2], key |-> k]
Init == \E a \in Algs :
        /\ ue = Sec(0, a) /\ amf = [Sec(0, a) EXCEPT !.ul = -1]
        /\ upQ = <<>> /\ downQ = <<>> /\ ulHist = <<>> /\ sentUl = 0 /\ nmsgs = 0 /\ alarm = {}

\* UE sends the first message under the current context (Security Mode Complete, header type 4)
\* or a later one (header types 1 or 2)
UeSend(m, hdr) ==
   /\ nmsgs < MaxMsgs
   /\ IF sentUl = 0 THEN hdr = 4 ELSE hdr \in {1, 2}
   /\ LET r == S!Protect(ue, m, hdr, sentUl = 0, S!DirUp) IN
        /\ ue' = r.sec
        /\ upQ' = Append(upQ, [pdu |-> r.pdu, plain |-> m, key |-> ue.key])
        /\ ulHist' = Append(ulHist, [key |-> ue.key, count |-> r.count, n |-> sentUl])
   /\ sentUl' = sentUl + 1 /\ nmsgs' = nmsgs + 1
   /\ UNCHANGED <<amf, downQ, alarm>>

\* AMF receives the head of the uplink queue with the conformant receiver rule
AmfRecv ==
   /\ upQ # <<>>
   /\ LET x == Head(upQ)
          a0 == IF x.pdu.hdr = 4 /\ amf.ul = -1 THEN [amf EXCEPT !.ul = 0] ELSE amf
          r == S!Unprotect(a0, x.pdu, S!DirUp) IN
        /\ amf' = r.sec
        /\ alarm' = alarm \cup (IF r.macOk THEN {} ELSE {"amf: MAC check failed"})
                          \cup (IF r.plain = x.plain THEN {} ELSE {"amf: recovered message differs"})
   /\ upQ' = Tail(upQ)
   /\ UNCHANGED <<ue, downQ, ulHist, sentUl, nmsgs>>

\* AMF sends a downlink message, possibly skipping sequence numbers (consecutive COUNTs differ by less than SqnMod)
AmfSend(m, hdr, skip) ==
   /\ nmsgs < MaxMsgs /\ amf.ul # -1           \* after Security Mode Complete arrived
   /\ hdr \in {1, 2}
   /\ LET a0 == [amf EXCEPT !.dl = (amf.dl + skip) % S!CountMod]
          r == S!Protect(a0, m, hdr, FALSE, S!DirDown) IN
        /\ amf' = [r.sec EXCEPT !.ul = amf.ul]
        /\ downQ' = Append(downQ, [pdu |-> r.pdu, plain |-> m, count |-> r.count])
   /\ nmsgs' = nmsgs + 1
   /\ UNCHANGED <<ue, upQ, ulHist, sentUl, alarm>>

UeRecv ==
   /\ downQ # <<>>
   /\ LET x == Head(downQ) r == S!Unprotect(ue, x.pdu, S!DirDown) IN
        /\ ue' = r.sec
        /\ alarm' = alarm \cup (IF r.macOk THEN {} ELSE {"ue: MAC check failed"})
                          \cup (IF r.plain = x.plain THEN {} ELSE {"ue: recovered message differs"})
                          \cup (IF r.count = x.count THEN {} ELSE {"ue: downlink COUNT estimate differs from the COUNT used"})
   /\ downQ' = Tail(downQ)
   /\ UNCHANGED <<amf, upQ, ulHist, sentUl, nmsgs>>

\* A new authentication + security mode control run: both sides derive the next key; the AMF's
\* Security Mode Command (header type 3, COUNT 0 under the new key) is delivered when the queues
\* are empty; the UE answers with header type 4 (UeSend with sentUl = 0).
Rekey ==
   /\ ue.key < MaxKeys /\ upQ = <<>> /\ downQ = <<>> /\ amf.ul # -1
   /\ \E a \in Algs :
        /\ ue' = Sec(ue.key + 1, a)
        /\ amf' = [Sec(ue.key + 1, a) EXCEPT !.ul = -1, !.dl = 1]    \* SMC itself used downlink COUNT 0
   /\ sentUl' = 0
   /\ UNCHANGED <<upQ, downQ, ulHist, nmsgs, alarm>>

Next == \/ \E m \in Msgs, h \in {1, 2, 4} : UeSend(m, h)
        \/ AmfRecv
        \/ \E m \in Msgs, h \in {1, 2}, k \in 0..(SqnMod - 2) : AmfSend(m, h, k)
        \/ UeRecv
        \/ Rekey
Spec == Init /\ [][Next]_vars

NoAlarm == alarm = {}
NthCount == \A i \in 1..Len(ulHist) : ulHist[i].count = ulHist[i].n % S!CountMod
\* freshness is only promised while fewer than CountMod messages were sent under one key
\* (TS 33.501 6.9.4.1 / TS 24.501 4.4.3.1 demand a new context before the COUNT wraps)
CountFresh == \A i, j \in 1..Len(ulHist) :
                 (i # j /\ ulHist[i].key = ulHist[j].key /\ ulHist[i].n < S!CountMod /\ ulHist[j].n < S!CountMod)
                    => ulHist[i].count # ulHist[j].count
\* the downlink never gets ahead by a full sequence-number cycle (lossless FIFO, skip < SqnMod)
Bound == Len(upQ) + Len(downQ) <= 3
View == <<ue, amf, upQ, downQ, sentUl, nmsgs, alarm>>
=============================================================================
