----------------------------- MODULE TraceCrypto -----------------------------
(***************************************************************************)
(* C07: every recorded call of the NAS encrypt / MAC entry points must be  *)
(* the 3GPP algorithm of module NasAlg; applying the cipher twice restores *)
(* the input; the exported SNOW 3G tables equal the algebraic definitions. *)
(* The spec has no state besides the cursor: the algorithms are functions  *)
(* of their arguments only, so any dependence of the implementation on     *)
(* earlier calls shows up as a pointwise mismatch.                         *)
(***************************************************************************)
EXTENDS TraceBase, NasAlg
VARIABLES l, bad

ExplainEnc(e) ==
   LET exp == Nea(e.alg, e.key, e.count, e.bearer, e.dir, e.in) IN
   FirstBad(<< <<~e.err, "encrypt returned an error or panicked">>,
               <<e.out = exp, "ciphertext differs from 128-NEA" \o Str(e.alg) \o ": expected " \o Str(exp) \o " got " \o Str(e.out)>>,
               <<~e.err2 /\ e.out2 = e.in, "applying the cipher twice does not restore the input">> >>)
ExplainMac(e) ==
   LET exp == Nia(e.alg, e.key, e.count, e.bearer, e.dir, e.in) IN
   FirstBad(<< <<~e.err, "MAC calculation returned an error or panicked">>,
               <<e.out = exp, "MAC differs from 128-NIA" \o Str(e.alg) \o ": expected " \o Str(exp) \o " got " \o Str(e.out)>> >>)
ExplainTables(e) ==
   FirstBad(<< <<e.sr = AesSBox, "S-box SR differs from the Rijndael S-box">>,
               <<e.sq = SnowSQTab, "S-box SQ differs from the Dickson-polynomial definition">>,
               <<e.mula = SnowMulAlphaTab, "MULalpha table differs">>,
               <<e.diva = SnowDivAlphaTab, "DIValpha table differs">> >>)
ExplainSBox32(e) ==
   FirstBad(<< <<e.s1 = SnowS1(e.w), "S1 differs">>, <<e.s2 = SnowS2(e.w), "S2 differs">> >>)
Explain(e) ==
   CASE e.ev = "Enc" -> ExplainEnc(e)
     [] e.ev = "Mac" -> ExplainMac(e)
     [] e.ev = "Tables" -> ExplainTables(e)
     [] e.ev = "SBox32" -> ExplainSBox32(e)
     [] e.ev = "Held" -> HeldVerdict(e)
     [] OTHER -> No("no action of the specification matches this event")

Init == l = 1 /\ bad = 0
Next == /\ l <= Len(Trace)
        /\ \E r \in {Explain(Trace[l])} : LET e == Trace[l] IN     \* bound once (TLC evaluates an action-level LET at every use)
             /\ Report(l, e, r)
             /\ bad' = bad + (IF r.ok THEN 0 ELSE 1)
        /\ l' = l + 1
Consumed == TLCGet("stats").diameter - 1 = Len(Trace)
=============================================================================
