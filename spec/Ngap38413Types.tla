--------------------------- MODULE Ngap38413Types ---------------------------
(***************************************************************************)
(* TS 38.413 (Release 15) clause 9.4.5 / 9.4.7: the ASN.1 constraints of   *)
(* the named simple types, list sizes (maxnoof... constants) and            *)
(* enumeration sizes, transcribed by hand from the standard - independent  *)
(* of the repository - and compared with the type dictionary that the Go   *)
(* harness exports from the struct tags of ngapType (the schema every      *)
(* other NGAP check decodes and encodes with).  A struct tag that departs  *)
(* from the standard (a wrong valueUB, sizeLB, valueExt ...) is a C03      *)
(* violation: the bytes produced for that field are then not the encoding  *)
(* TS 38.413 prescribes, although encoder and decoder agree with each      *)
(* other.  Only types whose definition I could adjudicate from the         *)
(* standard's text are listed; the others remain tag-trusted (DESIGN 9).   *)
(* Dropped after comparison because I cannot adjudicate it: RATRestrictions *)
(* (tags: SIZE(0..16); my recollection: SIZE(1..maxnoofEPLMNsPlusOne)).     *)
(*                                                                         *)
(* Row: <<Go type name (ASN.1 name without hyphens), kind, lb, ub, ext>>;   *)
(* NoB = no bound; a bound >= 2^31 is given as its big-endian octets.      *)
(***************************************************************************)
EXTENDS Ngap, FiniteSets
VARIABLES l, bad
B(n) == [has |-> TRUE, n |-> n]
Big(bs) == [has |-> TRUE, big |-> bs]
NoB == [has |-> FALSE]

Ints == <<
  <<"AMFUENGAPID", "int", B(0), Big(<<255, 255, 255, 255, 255>>), FALSE>>,
  <<"RANUENGAPID", "int", B(0), Big(<<255, 255, 255, 255>>), FALSE>>,
  <<"AveragingWindow", "int", B(0), B(4095), TRUE>>,
  <<"BitRate", "int", B(0), Big(<<3, 163, 82, 148, 64, 0>>), TRUE>>,
  <<"FiveQI", "int", B(0), B(255), TRUE>>,
  <<"PriorityLevelARP", "int", B(1), B(15), FALSE>>,
  <<"PriorityLevelQos", "int", B(1), B(127), TRUE>>,
  <<"PacketDelayBudget", "int", B(0), B(1023), TRUE>>,
  <<"MaximumDataBurstVolume", "int", B(0), B(4095), TRUE>>,
  <<"PDUSessionID", "int", B(0), B(255), FALSE>>,
  <<"QosFlowIdentifier", "int", B(0), B(63), TRUE>>,
  <<"RelativeAMFCapacity", "int", B(0), B(255), FALSE>>,
  <<"RANPagingPriority", "int", B(1), B(256), FALSE>>,
  <<"IndexToRFSP", "int", B(1), B(256), TRUE>>,
  <<"NextHopChainingCount", "int", B(0), B(7), FALSE>>,
  <<"NumberOfBroadcastsRequested", "int", B(0), B(65535), FALSE>>,
  <<"NumberOfBroadcasts", "int", B(0), B(65535), FALSE>>,
  <<"RepetitionPeriod", "int", B(0), B(131071), FALSE>>,
  <<"TrafficLoadReductionIndication", "int", B(1), B(99), FALSE>>,
  <<"ExpectedActivityPeriod", "int", B(1), B(181), TRUE>>,
  <<"ExpectedIdlePeriod", "int", B(1), B(181), TRUE>>,
  <<"ProcedureCode", "int", B(0), B(255), FALSE>>,
  <<"ProtocolIEID", "int", B(0), B(65535), FALSE>>,
  <<"ProtocolExtensionID", "int", B(0), B(65535), FALSE>>,
  <<"TimeUEStayedInCell", "int", B(0), B(4095), FALSE>>,
  <<"TimeUEStayedInCellEnhancedGranularity", "int", B(0), B(40950), FALSE>>,
  <<"PagingAttemptCount", "int", B(1), B(16), TRUE>>,
  <<"IntendedNumberOfPagingAttempts", "int", B(1), B(16), TRUE>>,
  <<"DRBID", "int", B(1), B(32), TRUE>>,
  <<"ERABID", "int", B(0), B(15), TRUE>>,
  <<"LocationReportingReferenceID", "int", B(1), B(64), TRUE>>,
  <<"PacketLossRate", "int", B(0), B(1000), TRUE>>,
  <<"TNLAddressWeightFactor", "int", B(0), B(255), FALSE>>,
  <<"NetworkInstance", "int", B(1), B(256), TRUE>> >>

Strings == <<
  <<"SecurityKey", "bitstr", B(256), B(256), FALSE>>,
  <<"MaskedIMEISV", "bitstr", B(64), B(64), FALSE>>,
  <<"AMFRegionID", "bitstr", B(8), B(8), FALSE>>,
  <<"AMFSetID", "bitstr", B(10), B(10), FALSE>>,
  <<"AMFPointer", "bitstr", B(6), B(6), FALSE>>,
  <<"NRCellIdentity", "bitstr", B(36), B(36), FALSE>>,
  <<"EUTRACellIdentity", "bitstr", B(28), B(28), FALSE>>,
  <<"TransportLayerAddress", "bitstr", B(1), B(160), TRUE>>,
  <<"NRencryptionAlgorithms", "bitstr", B(16), B(16), TRUE>>,
  <<"NRintegrityProtectionAlgorithms", "bitstr", B(16), B(16), TRUE>>,
  <<"EUTRAencryptionAlgorithms", "bitstr", B(16), B(16), TRUE>>,
  <<"EUTRAintegrityProtectionAlgorithms", "bitstr", B(16), B(16), TRUE>>,
  <<"RATRestrictionInformation", "bitstr", B(8), B(8), TRUE>>,
  <<"InterfacesToTrace", "bitstr", B(8), B(8), FALSE>>,
  <<"MessageIdentifier", "bitstr", B(16), B(16), FALSE>>,
  <<"SerialNumber", "bitstr", B(16), B(16), FALSE>>,
  <<"DataCodingScheme", "bitstr", B(8), B(8), FALSE>>,
  <<"PeriodicRegistrationUpdateTimer", "bitstr", B(8), B(8), FALSE>>,
  <<"FiveGTMSI", "octstr", B(4), B(4), FALSE>>,
  <<"TAC", "octstr", B(3), B(3), FALSE>>,
  <<"PLMNIdentity", "octstr", B(3), B(3), FALSE>>,
  <<"SST", "octstr", B(1), B(1), FALSE>>,
  <<"SD", "octstr", B(3), B(3), FALSE>>,
  <<"GTPTEID", "octstr", B(4), B(4), FALSE>>,
  <<"PortNumber", "octstr", B(2), B(2), FALSE>>,
  <<"EmergencyAreaID", "octstr", B(3), B(3), FALSE>>,
  <<"NGRANTraceID", "octstr", B(8), B(8), FALSE>>,
  <<"TimeStamp", "octstr", B(4), B(4), FALSE>>,
  <<"WarningType", "octstr", B(2), B(2), FALSE>>,
  <<"WarningSecurityInfo", "octstr", B(50), B(50), FALSE>>,
  <<"WarningMessageContents", "octstr", B(1), B(9600), FALSE>>,
  <<"WarningAreaCoordinates", "octstr", B(1), B(1024), FALSE>>,
  <<"NASPDU", "octstr", NoB, NoB, FALSE>>,
  <<"NRPPaPDU", "octstr", NoB, NoB, FALSE>>,
  <<"UERadioCapability", "octstr", NoB, NoB, FALSE>>,
  <<"RoutingID", "octstr", NoB, NoB, FALSE>>,
  <<"NASSecurityParametersFromNGRAN", "octstr", NoB, NoB, FALSE>>,
  <<"SourceToTargetTransparentContainer", "octstr", NoB, NoB, FALSE>>,
  <<"TargetToSourceTransparentContainer", "octstr", NoB, NoB, FALSE>>,
  <<"RANNodeName", "octstr", B(1), B(150), TRUE>>,
  <<"AMFName", "octstr", B(1), B(150), TRUE>>,
  <<"EPSTAC", "octstr", B(2), B(2), FALSE>>,
  <<"UERadioCapabilityForPagingOfNR", "octstr", NoB, NoB, FALSE>>,
  <<"UERadioCapabilityForPagingOfEUTRA", "octstr", NoB, NoB, FALSE>> >>

\* SEQUENCE (SIZE(1..maxnoof...)) OF
Lists == <<
  <<"AllowedNSSAI", "seqof", B(1), B(8), FALSE>>,
  <<"AllowedTACs", "seqof", B(1), B(16), FALSE>>,
  <<"BroadcastPLMNList", "seqof", B(1), B(12), FALSE>>,
  <<"PLMNSupportList", "seqof", B(1), B(12), FALSE>>,
  <<"SliceSupportList", "seqof", B(1), B(1024), FALSE>>,
  <<"SupportedTAList", "seqof", B(1), B(256), FALSE>>,
  <<"ServedGUAMIList", "seqof", B(1), B(256), FALSE>>,
  <<"TAIListForPaging", "seqof", B(1), B(16), FALSE>>,
  <<"TAIListForRestart", "seqof", B(1), B(2048), FALSE>>,
  <<"EmergencyAreaIDList", "seqof", B(1), B(65535), FALSE>>,
  <<"ForbiddenTACs", "seqof", B(1), B(4096), FALSE>>,
  <<"ForbiddenAreaInformation", "seqof", B(1), B(16), FALSE>>,
  <<"ServiceAreaInformation", "seqof", B(1), B(16), FALSE>>,
  <<"NotAllowedTACs", "seqof", B(1), B(16), FALSE>>,
  <<"EquivalentPLMNs", "seqof", B(1), B(15), FALSE>>,
  <<"PDUSessionResourceSetupListSUReq", "seqof", B(1), B(256), FALSE>>,
  <<"PDUSessionResourceSetupListSURes", "seqof", B(1), B(256), FALSE>>,
  <<"PDUSessionResourceSetupListCxtReq", "seqof", B(1), B(256), FALSE>>,
  <<"PDUSessionResourceSetupListCxtRes", "seqof", B(1), B(256), FALSE>>,
  <<"PDUSessionResourceToReleaseListRelCmd", "seqof", B(1), B(256), FALSE>>,
  <<"PDUSessionResourceReleasedListRelRes", "seqof", B(1), B(256), FALSE>>,
  <<"PDUSessionResourceFailedToSetupListSURes", "seqof", B(1), B(256), FALSE>>,
  <<"QosFlowSetupRequestList", "seqof", B(1), B(64), FALSE>>,
  <<"AssociatedQosFlowList", "seqof", B(1), B(64), FALSE>>,
  <<"QosFlowList", "seqof", B(1), B(64), FALSE>>,
  <<"AMFTNLAssociationSetupList", "seqof", B(1), B(32), FALSE>>,
  <<"AMFTNLAssociationToAddList", "seqof", B(1), B(32), FALSE>>,
  <<"TNLAssociationList", "seqof", B(1), B(32), FALSE>>,
  <<"UEAssociatedLogicalNGConnectionList", "seqof", B(1), B(65536), FALSE>>,
  <<"RecommendedCellList", "seqof", B(1), B(16), FALSE>>,
  <<"RecommendedRANNodeList", "seqof", B(1), B(16), FALSE>>,
  <<"UEHistoryInformation", "seqof", B(1), B(16), FALSE>>,
  <<"AreaOfInterestTAIList", "seqof", B(1), B(16), FALSE>>,
  <<"AreaOfInterestCellList", "seqof", B(1), B(256), FALSE>>,
  <<"AreaOfInterestRANNodeList", "seqof", B(1), B(64), FALSE>>,
  <<"AreaOfInterestList", "seqof", B(1), B(64), FALSE>>,
  <<"UEPresenceInAreaOfInterestList", "seqof", B(1), B(64), FALSE>>,
  <<"EUTRACGIList", "seqof", B(1), B(256), FALSE>>,
  <<"NRCGIList", "seqof", B(1), B(16384), FALSE>>,
  <<"SliceOverloadList", "seqof", B(1), B(1024), FALSE>>,
  <<"DRBsSubjectToStatusTransferList", "seqof", B(1), B(32), FALSE>>,
  <<"DataForwardingResponseDRBList", "seqof", B(1), B(32), FALSE>>,
  <<"DRBsToQosFlowsMappingList", "seqof", B(1), B(32), FALSE>>,
  <<"QosFlowPerTNLInformationList", "seqof", B(1), B(3), FALSE>>,
  <<"UPTransportLayerInformationPairList", "seqof", B(1), B(3), FALSE>>,
  <<"CriticalityDiagnosticsIEList", "seqof", B(1), B(256), FALSE>>,
  <<"CellIDBroadcastEUTRA", "seqof", B(1), B(65535), FALSE>>,
  <<"CellIDBroadcastNR", "seqof", B(1), B(65535), FALSE>>,
  <<"CellIDCancelledEUTRA", "seqof", B(1), B(65535), FALSE>>,
  <<"CellIDCancelledNR", "seqof", B(1), B(65535), FALSE>>,
  <<"TAIBroadcastEUTRA", "seqof", B(1), B(65535), FALSE>>,
  <<"TAIBroadcastNR", "seqof", B(1), B(65535), FALSE>>,
  <<"TAICancelledEUTRA", "seqof", B(1), B(65535), FALSE>>,
  <<"TAICancelledNR", "seqof", B(1), B(65535), FALSE>>,
  <<"EmergencyAreaIDBroadcastEUTRA", "seqof", B(1), B(65535), FALSE>>,
  <<"EmergencyAreaIDBroadcastNR", "seqof", B(1), B(65535), FALSE>>,
  <<"EmergencyAreaIDCancelledEUTRA", "seqof", B(1), B(65535), FALSE>>,
  <<"EmergencyAreaIDCancelledNR", "seqof", B(1), B(65535), FALSE>>,
  <<"CompletedCellsInTAIEUTRA", "seqof", B(1), B(65535), FALSE>>,
  <<"CompletedCellsInTAINR", "seqof", B(1), B(65535), FALSE>>,
  <<"CompletedCellsInEAIEUTRA", "seqof", B(1), B(65535), FALSE>>,
  <<"CompletedCellsInEAINR", "seqof", B(1), B(65535), FALSE>>,
  <<"CancelledCellsInTAIEUTRA", "seqof", B(1), B(65535), FALSE>>,
  <<"CancelledCellsInTAINR", "seqof", B(1), B(65535), FALSE>>,
  <<"CancelledCellsInEAIEUTRA", "seqof", B(1), B(65535), FALSE>>,
  <<"CancelledCellsInEAINR", "seqof", B(1), B(65535), FALSE>>,
  <<"EUTRACGIListForWarning", "seqof", B(1), B(65535), FALSE>>,
  <<"NRCGIListForWarning", "seqof", B(1), B(65535), FALSE>>,
  <<"TAIListForWarning", "seqof", B(1), B(65535), FALSE>>,
  <<"EmergencyAreaIDListForRestart", "seqof", B(1), B(256), FALSE>>,
  <<"TAIListForInactive", "seqof", B(1), B(16), FALSE>>,
  <<"UnavailableGUAMIList", "seqof", B(1), B(256), FALSE>>,
  <<"OverloadStartNSSAIList", "seqof", B(1), B(1024), FALSE>>,
  <<"AMFTNLAssociationToRemoveList", "seqof", B(1), B(32), FALSE>>,
  <<"AMFTNLAssociationToUpdateList", "seqof", B(1), B(32), FALSE>>,
  <<"XnTLAs", "seqof", B(1), B(16), FALSE>>,
  <<"XnGTPTLAs", "seqof", B(1), B(16), FALSE>>,
  <<"ExpectedUEMovingTrajectory", "seqof", B(1), B(16), FALSE>> >>

\* ENUMERATED: lb unused (-1), ub = number of root values - 1
Enums == <<
  <<"CauseRadioNetwork", "enum", NoB, B(44), TRUE>>,
  <<"CauseTransport", "enum", NoB, B(1), TRUE>>,
  <<"CauseNas", "enum", NoB, B(3), TRUE>>,
  <<"CauseProtocol", "enum", NoB, B(6), TRUE>>,
  <<"CauseMisc", "enum", NoB, B(5), TRUE>>,
  <<"Criticality", "enum", NoB, B(2), FALSE>>,
  <<"TriggeringMessage", "enum", NoB, B(2), FALSE>>,
  <<"TypeOfError", "enum", NoB, B(1), TRUE>>,
  <<"PagingDRX", "enum", NoB, B(3), TRUE>>,
  <<"PagingPriority", "enum", NoB, B(7), TRUE>>,
  <<"PagingOrigin", "enum", NoB, B(0), TRUE>>,
  <<"PDUSessionType", "enum", NoB, B(4), TRUE>>,
  <<"RRCEstablishmentCause", "enum", NoB, B(9), TRUE>>,
  <<"RRCInactiveTransitionReportRequest", "enum", NoB, B(2), TRUE>>,
  <<"RRCState", "enum", NoB, B(1), TRUE>>,
  <<"UEContextRequest", "enum", NoB, B(0), TRUE>>,
  <<"PreEmptionCapability", "enum", NoB, B(1), TRUE>>,
  <<"PreEmptionVulnerability", "enum", NoB, B(1), TRUE>>,
  <<"NotificationControl", "enum", NoB, B(0), TRUE>>,
  <<"NotificationCause", "enum", NoB, B(1), TRUE>>,
  <<"ReflectiveQosAttribute", "enum", NoB, B(0), TRUE>>,
  <<"AdditionalQosFlowInformation", "enum", NoB, B(0), TRUE>>,
  <<"DelayCritical", "enum", NoB, B(1), TRUE>>,
  <<"HandoverType", "enum", NoB, B(2), TRUE>>,
  <<"DirectForwardingPathAvailability", "enum", NoB, B(0), TRUE>>,
  <<"DataForwardingAccepted", "enum", NoB, B(0), TRUE>>,
  <<"DataForwardingNotPossible", "enum", NoB, B(0), TRUE>>,
  <<"DLForwarding", "enum", NoB, B(0), TRUE>>,
  <<"ULForwarding", "enum", NoB, B(0), TRUE>>,
  <<"EmergencyFallbackRequestIndicator", "enum", NoB, B(0), TRUE>>,
  <<"EmergencyServiceTargetCN", "enum", NoB, B(1), TRUE>>,
  <<"EventType", "enum", NoB, B(5), TRUE>>,
  <<"ReportArea", "enum", NoB, B(0), TRUE>>,
  <<"IMSVoiceSupportIndicator", "enum", NoB, B(1), TRUE>>,
  <<"IntegrityProtectionIndication", "enum", NoB, B(2), TRUE>>,
  <<"ConfidentialityProtectionIndication", "enum", NoB, B(2), TRUE>>,
  <<"IntegrityProtectionResult", "enum", NoB, B(1), TRUE>>,
  <<"ConfidentialityProtectionResult", "enum", NoB, B(1), TRUE>>,
  <<"MaximumIntegrityProtectedDataRate", "enum", NoB, B(1), TRUE>>,
  <<"NewSecurityContextInd", "enum", NoB, B(0), TRUE>>,
  <<"OverloadAction", "enum", NoB, B(3), TRUE>>,
  <<"ConcurrentWarningMessageInd", "enum", NoB, B(0), TRUE>>,
  <<"CancelAllWarningMessages", "enum", NoB, B(0), TRUE>>,
  <<"UEPresence", "enum", NoB, B(2), TRUE>>,
  <<"TimerApproachForGUAMIRemoval", "enum", NoB, B(0), TRUE>>,
  <<"TimeToWait", "enum", NoB, B(5), TRUE>>,
  <<"TNLAssociationUsage", "enum", NoB, B(2), TRUE>>,
  <<"TraceDepth", "enum", NoB, B(5), TRUE>>,
  <<"UERetentionInformation", "enum", NoB, B(0), TRUE>>,
  <<"CellSize", "enum", NoB, B(3), TRUE>>,
  <<"SONInformationRequest", "enum", NoB, B(0), TRUE>>,
  <<"ExpectedHOInterval", "enum", NoB, B(6), TRUE>>,
  <<"ExpectedUEMobility", "enum", NoB, B(1), TRUE>>,
  <<"MICOModeIndication", "enum", NoB, B(0), TRUE>>,
  <<"NextPagingAreaScope", "enum", NoB, B(1), TRUE>>,
  <<"ResetAll", "enum", NoB, B(0), TRUE>>,
  <<"SourceOfUEActivityBehaviourInformation", "enum", NoB, B(1), TRUE>> >>

Rows == Ints \o Strings \o Lists \o Enums

Bd(x) == x
SameBd(a, b) == a.has = b.has /\ (~a.has \/ NumEq(a, b))
\* the simple type a named Go type stands for: SEQUENCE {Value X} / SEQUENCE {List X} wrappers are looked through
Inner(t) == IF t.k = "seq" /\ Len(t.fields) = 1 /\ t.fields[1].name \in {"Value", "List"} THEN t.fields[1].t ELSE t
NameOf(key) == LET RECURSIVE Cut(_) Cut(i) == IF i > Len(key) THEN key ELSE IF SubSeq(key, i, i) = "|" THEN SubSeq(key, 1, i - 1) ELSE Cut(i + 1) IN Cut(1)
KeysOf(name) == {k \in DOMAIN NgapTypes : k = name \/ (Len(k) > Len(name) /\ SubSeq(k, 1, Len(name) + 1) = name \o "|")}
RowComplaint(r) ==
   LET keys == KeysOf(r[1]) IN
   IF keys = {} THEN "absent"
   ELSE LET badKeys == {k \in keys :
                 LET t == Inner(NgapTypes[k]) IN
                 ~(/\ t.k = r[2]
                   /\ (r[2] = "enum" \/ SameBd(t.lb, Bd(r[3])))
                   /\ SameBd(t.ub, Bd(r[4]))
                   /\ t.ext = r[5])} IN
        IF badKeys = {} THEN "ok"
        ELSE LET k == CHOOSE x \in badKeys : TRUE t == Inner(NgapTypes[k]) IN
             "struct tags give " \o ToString([k |-> t.k, lb |-> IF "lb" \in DOMAIN t THEN t.lb ELSE [has |-> FALSE], ub |-> t.ub, ext |-> t.ext])
             \o " but TS 38.413 defines " \o ToString(r)

\* generic rule: an ENUMERATED type always has a root with a known number of values, so every ENUMERATED component of every type of
\* the dictionary must carry a value bound (without one the library can neither encode nor decode the component)
RECURSIVE Unbounded(_, _)
Unbounded(t, path) ==
   CASE t.k = "enum" -> IF t.ub.has THEN {} ELSE {path}
     [] t.k = "seq" -> UNION {Unbounded(t.fields[i].t, path \o "." \o t.fields[i].name) : i \in 1..Len(t.fields)}
     [] t.k = "seqof" -> Unbounded(t.t, path \o "[]")
     [] t.k \in {"choice", "open"} -> UNION {Unbounded(t.alts[i].t, path \o "." \o t.alts[i].name) : i \in 1..Len(t.alts)}
     [] OTHER -> {}
UnboundedAll == UNION {Unbounded(NgapTypes[k], NameOf(k)) : k \in DOMAIN NgapTypes}
\* components defined inline in TS 38.413 (no named type of their own): <<type, field, number of root values - 1, extensible>>
Inline == << <<"AssociatedQosFlowItem", "QosFlowMappingIndication", 1, TRUE>> >>     \* ENUMERATED {ul, dl, ...}
InlineComplaint(r) ==
   LET keys == KeysOf(r[1]) IN
   IF keys = {} THEN "absent"
   ELSE LET k == CHOOSE x \in keys : TRUE
            fs == NgapTypes[k].fields
            I == {i \in 1..Len(fs) : fs[i].name = r[2]} IN
        IF I = {} THEN "absent"
        ELSE LET t == fs[CHOOSE i \in I : TRUE].t IN
             IF t.k = "enum" /\ t.ub.has /\ t.ub.n = r[3] /\ t.ext = r[4] THEN "ok"
             ELSE "struct tags give " \o ToString(t) \o " but TS 38.413 defines an ENUMERATED with " \o ToString(r[3] + 1) \o " root values, extensible " \o ToString(r[4])
\* SEQUENCE and CHOICE definitions of the types on the emulator's path (uplink messages it builds, downlink messages it decodes):
\* extension marker, components in order, OPTIONAL flags (CHOICE: alternatives in order) - TS 38.413 9.4.4 / 9.4.5.  The specification's
\* own AMF encodes and decodes with the dictionary exported from the struct tags, so a wrong `optional` or extension marker on one of
\* these types would be invisible to the online checks; here it is compared with the standard.
Structs == <<
  <<"GlobalGNBID", "seq", TRUE, << <<"PLMNIdentity", FALSE>>, <<"GNBID", FALSE>>, <<"IEExtensions", TRUE>> >> >>,
  <<"SupportedTAItem", "seq", TRUE, << <<"TAC", FALSE>>, <<"BroadcastPLMNList", FALSE>>, <<"IEExtensions", TRUE>> >> >>,
  <<"BroadcastPLMNItem", "seq", TRUE, << <<"PLMNIdentity", FALSE>>, <<"TAISliceSupportList", FALSE>>, <<"IEExtensions", TRUE>> >> >>,
  <<"SliceSupportItem", "seq", TRUE, << <<"SNSSAI", FALSE>>, <<"IEExtensions", TRUE>> >> >>,
  <<"SNSSAI", "seq", TRUE, << <<"SST", FALSE>>, <<"SD", TRUE>>, <<"IEExtensions", TRUE>> >> >>,
  <<"UserLocationInformationNR", "seq", TRUE, << <<"NRCGI", FALSE>>, <<"TAI", FALSE>>, <<"TimeStamp", TRUE>>, <<"IEExtensions", TRUE>> >> >>,
  <<"NRCGI", "seq", TRUE, << <<"PLMNIdentity", FALSE>>, <<"NRCellIdentity", FALSE>>, <<"IEExtensions", TRUE>> >> >>,
  <<"TAI", "seq", TRUE, << <<"PLMNIdentity", FALSE>>, <<"TAC", FALSE>>, <<"IEExtensions", TRUE>> >> >>,
  <<"FiveGSTMSI", "seq", TRUE, << <<"AMFSetID", FALSE>>, <<"AMFPointer", FALSE>>, <<"FiveGTMSI", FALSE>>, <<"IEExtensions", TRUE>> >> >>,
  <<"PDUSessionResourceSetupItemCxtRes", "seq", TRUE, << <<"PDUSessionID", FALSE>>, <<"PDUSessionResourceSetupResponseTransfer", FALSE>>, <<"IEExtensions", TRUE>> >> >>,
  <<"PDUSessionResourceSetupItemSURes", "seq", TRUE, << <<"PDUSessionID", FALSE>>, <<"PDUSessionResourceSetupResponseTransfer", FALSE>>, <<"IEExtensions", TRUE>> >> >>,
  <<"PDUSessionResourceSetupResponseTransfer", "seq", TRUE, << <<"QosFlowPerTNLInformation", FALSE>>, <<"AdditionalQosFlowPerTNLInformation", TRUE>>, <<"SecurityResult", TRUE>>, <<"QosFlowFailedToSetupList", TRUE>>, <<"IEExtensions", TRUE>> >> >>,
  <<"QosFlowPerTNLInformation", "seq", TRUE, << <<"UPTransportLayerInformation", FALSE>>, <<"AssociatedQosFlowList", FALSE>>, <<"IEExtensions", TRUE>> >> >>,
  <<"GTPTunnel", "seq", TRUE, << <<"TransportLayerAddress", FALSE>>, <<"GTPTEID", FALSE>>, <<"IEExtensions", TRUE>> >> >>,
  <<"AssociatedQosFlowItem", "seq", TRUE, << <<"QosFlowIdentifier", FALSE>>, <<"QosFlowMappingIndication", TRUE>>, <<"IEExtensions", TRUE>> >> >>,
  <<"PDUSessionResourceReleasedItemRelRes", "seq", TRUE, << <<"PDUSessionID", FALSE>>, <<"PDUSessionResourceReleaseResponseTransfer", FALSE>>, <<"IEExtensions", TRUE>> >> >>,
  <<"PDUSessionResourceReleaseResponseTransfer", "seq", TRUE, << <<"IEExtensions", TRUE>> >> >>,
  <<"PDUSessionResourceItemCxtRelCpl", "seq", TRUE, << <<"PDUSessionID", FALSE>>, <<"IEExtensions", TRUE>> >> >>,
  <<"InitiatingMessage", "seq", FALSE, << <<"ProcedureCode", FALSE>>, <<"Criticality", FALSE>>, <<"Value", FALSE>> >> >>,
  <<"SuccessfulOutcome", "seq", FALSE, << <<"ProcedureCode", FALSE>>, <<"Criticality", FALSE>>, <<"Value", FALSE>> >> >>,
  <<"UnsuccessfulOutcome", "seq", FALSE, << <<"ProcedureCode", FALSE>>, <<"Criticality", FALSE>>, <<"Value", FALSE>> >> >>,
  <<"NGSetupRequest", "seq", TRUE, << <<"ProtocolIEs", FALSE>> >> >>,
  <<"InitialUEMessage", "seq", TRUE, << <<"ProtocolIEs", FALSE>> >> >>,
  <<"UplinkNASTransport", "seq", TRUE, << <<"ProtocolIEs", FALSE>> >> >>,
  <<"InitialContextSetupResponse", "seq", TRUE, << <<"ProtocolIEs", FALSE>> >> >>,
  <<"PDUSessionResourceSetupResponse", "seq", TRUE, << <<"ProtocolIEs", FALSE>> >> >>,
  <<"PDUSessionResourceReleaseResponse", "seq", TRUE, << <<"ProtocolIEs", FALSE>> >> >>,
  <<"UEContextReleaseComplete", "seq", TRUE, << <<"ProtocolIEs", FALSE>> >> >>,
  <<"UEContextReleaseRequest", "seq", TRUE, << <<"ProtocolIEs", FALSE>> >> >>,
  <<"NGSetupResponse", "seq", TRUE, << <<"ProtocolIEs", FALSE>> >> >>,
  <<"DownlinkNASTransport", "seq", TRUE, << <<"ProtocolIEs", FALSE>> >> >>,
  <<"InitialContextSetupRequest", "seq", TRUE, << <<"ProtocolIEs", FALSE>> >> >>,
  <<"PDUSessionResourceSetupRequest", "seq", TRUE, << <<"ProtocolIEs", FALSE>> >> >>,
  <<"PDUSessionResourceReleaseCommand", "seq", TRUE, << <<"ProtocolIEs", FALSE>> >> >>,
  <<"UEContextReleaseCommand", "seq", TRUE, << <<"ProtocolIEs", FALSE>> >> >>,
  <<"ErrorIndication", "seq", TRUE, << <<"ProtocolIEs", FALSE>> >> >>,
  <<"ServedGUAMIItem", "seq", TRUE, << <<"GUAMI", FALSE>>, <<"BackupAMFName", TRUE>>, <<"IEExtensions", TRUE>> >> >>,
  <<"GUAMI", "seq", TRUE, << <<"PLMNIdentity", FALSE>>, <<"AMFRegionID", FALSE>>, <<"AMFSetID", FALSE>>, <<"AMFPointer", FALSE>>, <<"IEExtensions", TRUE>> >> >>,
  <<"PLMNSupportItem", "seq", TRUE, << <<"PLMNIdentity", FALSE>>, <<"SliceSupportList", FALSE>>, <<"IEExtensions", TRUE>> >> >>,
  <<"UEAggregateMaximumBitRate", "seq", TRUE, << <<"UEAggregateMaximumBitRateDL", FALSE>>, <<"UEAggregateMaximumBitRateUL", FALSE>>, <<"IEExtensions", TRUE>> >> >>,
  <<"PDUSessionResourceSetupItemCxtReq", "seq", TRUE, << <<"PDUSessionID", FALSE>>, <<"NASPDU", TRUE>>, <<"SNSSAI", FALSE>>, <<"PDUSessionResourceSetupRequestTransfer", FALSE>>, <<"IEExtensions", TRUE>> >> >>,
  <<"PDUSessionResourceSetupItemSUReq", "seq", TRUE, << <<"PDUSessionID", FALSE>>, <<"PDUSessionNASPDU", TRUE>>, <<"SNSSAI", FALSE>>, <<"PDUSessionResourceSetupRequestTransfer", FALSE>>, <<"IEExtensions", TRUE>> >> >>,
  <<"AllowedNSSAIItem", "seq", TRUE, << <<"SNSSAI", FALSE>>, <<"IEExtensions", TRUE>> >> >>,
  <<"UESecurityCapabilities", "seq", TRUE, << <<"NRencryptionAlgorithms", FALSE>>, <<"NRintegrityProtectionAlgorithms", FALSE>>, <<"EUTRAencryptionAlgorithms", FALSE>>, <<"EUTRAintegrityProtectionAlgorithms", FALSE>>, <<"IEExtensions", TRUE>> >> >>,
  <<"MobilityRestrictionList", "seq", TRUE, << <<"ServingPLMN", FALSE>>, <<"EquivalentPLMNs", TRUE>>, <<"RATRestrictions", TRUE>>, <<"ForbiddenAreaInformation", TRUE>>, <<"ServiceAreaInformation", TRUE>>, <<"IEExtensions", TRUE>> >> >>,
  <<"PDUSessionResourceSetupRequestTransfer", "seq", TRUE, << <<"ProtocolIEs", FALSE>> >> >>,
  <<"PDUSessionAggregateMaximumBitRate", "seq", TRUE, << <<"PDUSessionAggregateMaximumBitRateDL", FALSE>>, <<"PDUSessionAggregateMaximumBitRateUL", FALSE>>, <<"IEExtensions", TRUE>> >> >>,
  <<"QosFlowSetupRequestItem", "seq", TRUE, << <<"QosFlowIdentifier", FALSE>>, <<"QosFlowLevelQosParameters", FALSE>>, <<"ERABID", TRUE>>, <<"IEExtensions", TRUE>> >> >>,
  <<"QosFlowLevelQosParameters", "seq", TRUE, << <<"QosCharacteristics", FALSE>>, <<"AllocationAndRetentionPriority", FALSE>>, <<"GBRQosInformation", TRUE>>, <<"ReflectiveQosAttribute", TRUE>>, <<"AdditionalQosFlowInformation", TRUE>>, <<"IEExtensions", TRUE>> >> >>,
  <<"NonDynamic5QIDescriptor", "seq", TRUE, << <<"FiveQI", FALSE>>, <<"PriorityLevelQos", TRUE>>, <<"AveragingWindow", TRUE>>, <<"MaximumDataBurstVolume", TRUE>>, <<"IEExtensions", TRUE>> >> >>,
  <<"AllocationAndRetentionPriority", "seq", TRUE, << <<"PriorityLevelARP", FALSE>>, <<"PreEmptionCapability", FALSE>>, <<"PreEmptionVulnerability", FALSE>>, <<"IEExtensions", TRUE>> >> >>,
  <<"PDUSessionResourceToReleaseItemRelCmd", "seq", TRUE, << <<"PDUSessionID", FALSE>>, <<"PDUSessionResourceReleaseCommandTransfer", FALSE>>, <<"IEExtensions", TRUE>> >> >>,
  <<"PDUSessionResourceReleaseCommandTransfer", "seq", TRUE, << <<"Cause", FALSE>>, <<"IEExtensions", TRUE>> >> >>,
  <<"UENGAPIDPair", "seq", TRUE, << <<"AMFUENGAPID", FALSE>>, <<"RANUENGAPID", FALSE>>, <<"IEExtensions", TRUE>> >> >>,
  <<"NGAPPDU", "choice", TRUE, << <<"InitiatingMessage", FALSE>>, <<"SuccessfulOutcome", FALSE>>, <<"UnsuccessfulOutcome", FALSE>> >> >>,
  <<"GlobalRANNodeID", "choice", FALSE, << <<"GlobalGNBID", FALSE>>, <<"GlobalNgENBID", FALSE>>, <<"GlobalN3IWFID", FALSE>>, <<"ChoiceExtensions", FALSE>> >> >>,
  <<"GNBID", "choice", FALSE, << <<"GNBID", FALSE>>, <<"ChoiceExtensions", FALSE>> >> >>,
  <<"UserLocationInformation", "choice", FALSE, << <<"UserLocationInformationEUTRA", FALSE>>, <<"UserLocationInformationNR", FALSE>>, <<"UserLocationInformationN3IWF", FALSE>>, <<"ChoiceExtensions", FALSE>> >> >>,
  <<"UPTransportLayerInformation", "choice", FALSE, << <<"GTPTunnel", FALSE>>, <<"ChoiceExtensions", FALSE>> >> >>,
  <<"QosCharacteristics", "choice", FALSE, << <<"NonDynamic5QI", FALSE>>, <<"Dynamic5QI", FALSE>>, <<"ChoiceExtensions", FALSE>> >> >>,
  <<"UENGAPIDs", "choice", FALSE, << <<"UENGAPIDPair", FALSE>>, <<"AMFUENGAPID", FALSE>>, <<"ChoiceExtensions", FALSE>> >> >>,
  <<"Cause", "choice", FALSE, << <<"RadioNetwork", FALSE>>, <<"Transport", FALSE>>, <<"Nas", FALSE>>, <<"Protocol", FALSE>>, <<"Misc", FALSE>>, <<"ChoiceExtensions", FALSE>> >> >>,
   \* the other structured types of 9.4.5 and the transfer types (transcribed in the third session; 163 of 165 recalled definitions agreed
   \* with the tags at once, the two that did not - an OPTIONAL flag each, PDUSessionResourceModifyItemModRes and SONConfigurationTransfer -
   \* could not be adjudicated without the text of the standard and are left out)
   <<"AMFPagingTarget", "choice", FALSE, << <<"GlobalRANNodeID", FALSE>>, <<"TAI", FALSE>>, <<"ChoiceExtensions", FALSE>> >> >>,
   <<"AMFTNLAssociationSetupItem", "seq", TRUE, << <<"AMFTNLAssociationAddress", FALSE>>, <<"IEExtensions", TRUE>> >> >>,
   <<"AMFTNLAssociationToAddItem", "seq", TRUE, << <<"AMFTNLAssociationAddress", FALSE>>, <<"TNLAssociationUsage", TRUE>>, <<"TNLAddressWeightFactor", FALSE>>, <<"IEExtensions", TRUE>> >> >>,
   <<"AMFTNLAssociationToRemoveItem", "seq", TRUE, << <<"AMFTNLAssociationAddress", FALSE>>, <<"IEExtensions", TRUE>> >> >>,
   <<"AMFTNLAssociationToUpdateItem", "seq", TRUE, << <<"AMFTNLAssociationAddress", FALSE>>, <<"TNLAssociationUsage", TRUE>>, <<"TNLAddressWeightFactor", TRUE>>, <<"IEExtensions", TRUE>> >> >>,
   <<"AreaOfInterest", "seq", TRUE, << <<"AreaOfInterestTAIList", TRUE>>, <<"AreaOfInterestCellList", TRUE>>, <<"AreaOfInterestRANNodeList", TRUE>>, <<"IEExtensions", TRUE>> >> >>,
   <<"AreaOfInterestCellItem", "seq", TRUE, << <<"NGRANCGI", FALSE>>, <<"IEExtensions", TRUE>> >> >>,
   <<"AreaOfInterestItem", "seq", TRUE, << <<"AreaOfInterest", FALSE>>, <<"LocationReportingReferenceID", FALSE>>, <<"IEExtensions", TRUE>> >> >>,
   <<"AreaOfInterestRANNodeItem", "seq", TRUE, << <<"GlobalRANNodeID", FALSE>>, <<"IEExtensions", TRUE>> >> >>,
   <<"AreaOfInterestTAIItem", "seq", TRUE, << <<"TAI", FALSE>>, <<"IEExtensions", TRUE>> >> >>,
   <<"AssistanceDataForPaging", "seq", TRUE, << <<"AssistanceDataForRecommendedCells", TRUE>>, <<"PagingAttemptInformation", TRUE>>, <<"IEExtensions", TRUE>> >> >>,
   <<"AssistanceDataForRecommendedCells", "seq", TRUE, << <<"RecommendedCellsForPaging", FALSE>>, <<"IEExtensions", TRUE>> >> >>,
   <<"BroadcastCancelledAreaList", "choice", FALSE, << <<"CellIDCancelledEUTRA", FALSE>>, <<"TAICancelledEUTRA", FALSE>>, <<"EmergencyAreaIDCancelledEUTRA", FALSE>>, <<"CellIDCancelledNR", FALSE>>, <<"TAICancelledNR", FALSE>>, <<"EmergencyAreaIDCancelledNR", FALSE>>, <<"ChoiceExtensions", FALSE>> >> >>,
   <<"BroadcastCompletedAreaList", "choice", FALSE, << <<"CellIDBroadcastEUTRA", FALSE>>, <<"TAIBroadcastEUTRA", FALSE>>, <<"EmergencyAreaIDBroadcastEUTRA", FALSE>>, <<"CellIDBroadcastNR", FALSE>>, <<"TAIBroadcastNR", FALSE>>, <<"EmergencyAreaIDBroadcastNR", FALSE>>, <<"ChoiceExtensions", FALSE>> >> >>,
   <<"COUNTValueForPDCPSN12", "seq", TRUE, << <<"PDCPSN12", FALSE>>, <<"HFNPDCPSN12", FALSE>>, <<"IEExtensions", TRUE>> >> >>,
   <<"COUNTValueForPDCPSN18", "seq", TRUE, << <<"PDCPSN18", FALSE>>, <<"HFNPDCPSN18", FALSE>>, <<"IEExtensions", TRUE>> >> >>,
   <<"CPTransportLayerInformation", "choice", FALSE, << <<"EndpointIPAddress", FALSE>>, <<"ChoiceExtensions", FALSE>> >> >>,
   <<"CancelledCellsInEAIEUTRAItem", "seq", TRUE, << <<"EUTRACGI", FALSE>>, <<"NumberOfBroadcasts", FALSE>>, <<"IEExtensions", TRUE>> >> >>,
   <<"CancelledCellsInEAINRItem", "seq", TRUE, << <<"NRCGI", FALSE>>, <<"NumberOfBroadcasts", FALSE>>, <<"IEExtensions", TRUE>> >> >>,
   <<"CancelledCellsInTAIEUTRAItem", "seq", TRUE, << <<"EUTRACGI", FALSE>>, <<"NumberOfBroadcasts", FALSE>>, <<"IEExtensions", TRUE>> >> >>,
   <<"CancelledCellsInTAINRItem", "seq", TRUE, << <<"NRCGI", FALSE>>, <<"NumberOfBroadcasts", FALSE>>, <<"IEExtensions", TRUE>> >> >>,
   <<"CellIDBroadcastEUTRAItem", "seq", TRUE, << <<"EUTRACGI", FALSE>>, <<"IEExtensions", TRUE>> >> >>,
   <<"CellIDBroadcastNRItem", "seq", TRUE, << <<"NRCGI", FALSE>>, <<"IEExtensions", TRUE>> >> >>,
   <<"CellIDCancelledEUTRAItem", "seq", TRUE, << <<"EUTRACGI", FALSE>>, <<"NumberOfBroadcasts", FALSE>>, <<"IEExtensions", TRUE>> >> >>,
   <<"CellIDCancelledNRItem", "seq", TRUE, << <<"NRCGI", FALSE>>, <<"NumberOfBroadcasts", FALSE>>, <<"IEExtensions", TRUE>> >> >>,
   <<"CellIDListForRestart", "choice", FALSE, << <<"EUTRACGIListforRestart", FALSE>>, <<"NRCGIListforRestart", FALSE>>, <<"ChoiceExtensions", FALSE>> >> >>,
   <<"CellType", "seq", TRUE, << <<"CellSize", FALSE>>, <<"IEExtensions", TRUE>> >> >>,
   <<"CompletedCellsInEAIEUTRAItem", "seq", TRUE, << <<"EUTRACGI", FALSE>>, <<"IEExtensions", TRUE>> >> >>,
   <<"CompletedCellsInEAINRItem", "seq", TRUE, << <<"NRCGI", FALSE>>, <<"IEExtensions", TRUE>> >> >>,
   <<"CompletedCellsInTAIEUTRAItem", "seq", TRUE, << <<"EUTRACGI", FALSE>>, <<"IEExtensions", TRUE>> >> >>,
   <<"CompletedCellsInTAINRItem", "seq", TRUE, << <<"NRCGI", FALSE>>, <<"IEExtensions", TRUE>> >> >>,
   <<"CoreNetworkAssistanceInformation", "seq", TRUE, << <<"UEIdentityIndexValue", FALSE>>, <<"UESpecificDRX", TRUE>>, <<"PeriodicRegistrationUpdateTimer", FALSE>>, <<"MICOModeIndication", TRUE>>, <<"TAIListForInactive", FALSE>>, <<"ExpectedUEBehaviour", TRUE>>, <<"IEExtensions", TRUE>> >> >>,
   <<"CriticalityDiagnostics", "seq", TRUE, << <<"ProcedureCode", TRUE>>, <<"TriggeringMessage", TRUE>>, <<"ProcedureCriticality", TRUE>>, <<"IEsCriticalityDiagnostics", TRUE>>, <<"IEExtensions", TRUE>> >> >>,
   <<"CriticalityDiagnosticsIEItem", "seq", TRUE, << <<"IECriticality", FALSE>>, <<"IEID", FALSE>>, <<"TypeOfError", FALSE>>, <<"IEExtensions", TRUE>> >> >>,
   <<"DRBStatusDL", "choice", FALSE, << <<"DRBStatusDL12", FALSE>>, <<"DRBStatusDL18", FALSE>>, <<"ChoiceExtensions", FALSE>> >> >>,
   <<"DRBStatusDL12", "seq", TRUE, << <<"DLCOUNTValue", FALSE>>, <<"IEExtension", TRUE>> >> >>,
   <<"DRBStatusDL18", "seq", TRUE, << <<"DLCOUNTValue", FALSE>>, <<"IEExtension", TRUE>> >> >>,
   <<"DRBStatusUL", "choice", FALSE, << <<"DRBStatusUL12", FALSE>>, <<"DRBStatusUL18", FALSE>>, <<"ChoiceExtensions", FALSE>> >> >>,
   <<"DRBStatusUL12", "seq", TRUE, << <<"ULCOUNTValue", FALSE>>, <<"ReceiveStatusOfULPDCPSDUs", TRUE>>, <<"IEExtension", TRUE>> >> >>,
   <<"DRBStatusUL18", "seq", TRUE, << <<"ULCOUNTValue", FALSE>>, <<"ReceiveStatusOfULPDCPSDUs", TRUE>>, <<"IEExtension", TRUE>> >> >>,
   <<"DRBsSubjectToStatusTransferItem", "seq", TRUE, << <<"DRBID", FALSE>>, <<"DRBStatusUL", FALSE>>, <<"DRBStatusDL", FALSE>>, <<"IEExtension", TRUE>> >> >>,
   <<"DRBsToQosFlowsMappingItem", "seq", TRUE, << <<"DRBID", FALSE>>, <<"AssociatedQosFlowList", FALSE>>, <<"IEExtensions", TRUE>> >> >>,
   <<"DataForwardingResponseDRBItem", "seq", TRUE, << <<"DRBID", FALSE>>, <<"DLForwardingUPTNLInformation", TRUE>>, <<"ULForwardingUPTNLInformation", TRUE>>, <<"IEExtensions", TRUE>> >> >>,
   <<"Dynamic5QIDescriptor", "seq", TRUE, << <<"PriorityLevelQos", FALSE>>, <<"PacketDelayBudget", FALSE>>, <<"PacketErrorRate", FALSE>>, <<"FiveQI", TRUE>>, <<"DelayCritical", TRUE>>, <<"AveragingWindow", TRUE>>, <<"MaximumDataBurstVolume", TRUE>>, <<"IEExtensions", TRUE>> >> >>,
   <<"EPSTAI", "seq", TRUE, << <<"PLMNIdentity", FALSE>>, <<"EPSTAC", FALSE>>, <<"IEExtensions", TRUE>> >> >>,
   <<"ERABInformationItem", "seq", TRUE, << <<"ERABID", FALSE>>, <<"DLForwarding", TRUE>>, <<"IEExtensions", TRUE>> >> >>,
   <<"EUTRACGI", "seq", TRUE, << <<"PLMNIdentity", FALSE>>, <<"EUTRACellIdentity", FALSE>>, <<"IEExtensions", TRUE>> >> >>,
   <<"EmergencyAreaIDBroadcastEUTRAItem", "seq", TRUE, << <<"EmergencyAreaID", FALSE>>, <<"CompletedCellsInEAIEUTRA", FALSE>>, <<"IEExtensions", TRUE>> >> >>,
   <<"EmergencyAreaIDBroadcastNRItem", "seq", TRUE, << <<"EmergencyAreaID", FALSE>>, <<"CompletedCellsInEAINR", FALSE>>, <<"IEExtensions", TRUE>> >> >>,
   <<"EmergencyAreaIDCancelledEUTRAItem", "seq", TRUE, << <<"EmergencyAreaID", FALSE>>, <<"CancelledCellsInEAIEUTRA", FALSE>>, <<"IEExtensions", TRUE>> >> >>,
   <<"EmergencyAreaIDCancelledNRItem", "seq", TRUE, << <<"EmergencyAreaID", FALSE>>, <<"CancelledCellsInEAINR", FALSE>>, <<"IEExtensions", TRUE>> >> >>,
   <<"EmergencyFallbackIndicator", "seq", TRUE, << <<"EmergencyFallbackRequestIndicator", FALSE>>, <<"EmergencyServiceTargetCN", TRUE>>, <<"IEExtensions", TRUE>> >> >>,
   <<"ExpectedUEActivityBehaviour", "seq", TRUE, << <<"ExpectedActivityPeriod", TRUE>>, <<"ExpectedIdlePeriod", TRUE>>, <<"SourceOfUEActivityBehaviourInformation", TRUE>>, <<"IEExtensions", TRUE>> >> >>,
   <<"ExpectedUEBehaviour", "seq", TRUE, << <<"ExpectedUEActivityBehaviour", TRUE>>, <<"ExpectedHOInterval", TRUE>>, <<"ExpectedUEMobility", TRUE>>, <<"ExpectedUEMovingTrajectory", TRUE>>, <<"IEExtensions", TRUE>> >> >>,
   <<"ExpectedUEMovingTrajectoryItem", "seq", TRUE, << <<"NGRANCGI", FALSE>>, <<"TimeStayedInCell", TRUE>>, <<"IEExtensions", TRUE>> >> >>,
   <<"ForbiddenAreaInformationItem", "seq", TRUE, << <<"PLMNIdentity", FALSE>>, <<"ForbiddenTACs", FALSE>>, <<"IEExtensions", TRUE>> >> >>,
   <<"GBRQosInformation", "seq", TRUE, << <<"MaximumFlowBitRateDL", FALSE>>, <<"MaximumFlowBitRateUL", FALSE>>, <<"GuaranteedFlowBitRateDL", FALSE>>, <<"GuaranteedFlowBitRateUL", FALSE>>, <<"NotificationControl", TRUE>>, <<"MaximumPacketLossRateDL", TRUE>>, <<"MaximumPacketLossRateUL", TRUE>>, <<"IEExtensions", TRUE>> >> >>,
   <<"GlobalN3IWFID", "seq", TRUE, << <<"PLMNIdentity", FALSE>>, <<"N3IWFID", FALSE>>, <<"IEExtensions", TRUE>> >> >>,
   <<"GlobalNgENBID", "seq", TRUE, << <<"PLMNIdentity", FALSE>>, <<"NgENBID", FALSE>>, <<"IEExtensions", TRUE>> >> >>,
   <<"HandoverCommandTransfer", "seq", TRUE, << <<"DLForwardingUPTNLInformation", TRUE>>, <<"QosFlowToBeForwardedList", TRUE>>, <<"DataForwardingResponseDRBList", TRUE>>, <<"IEExtensions", TRUE>> >> >>,
   <<"HandoverPreparationUnsuccessfulTransfer", "seq", TRUE, << <<"Cause", FALSE>>, <<"IEExtensions", TRUE>> >> >>,
   <<"HandoverRequestAcknowledgeTransfer", "seq", TRUE, << <<"DLNGUUPTNLInformation", FALSE>>, <<"DLForwardingUPTNLInformation", TRUE>>, <<"SecurityResult", TRUE>>, <<"QosFlowSetupResponseList", FALSE>>, <<"QosFlowFailedToSetupList", TRUE>>, <<"DataForwardingResponseDRBList", TRUE>>, <<"IEExtensions", TRUE>> >> >>,
   <<"HandoverRequiredTransfer", "seq", TRUE, << <<"DirectForwardingPathAvailability", TRUE>>, <<"IEExtensions", TRUE>> >> >>,
   <<"HandoverResourceAllocationUnsuccessfulTransfer", "seq", TRUE, << <<"Cause", FALSE>>, <<"CriticalityDiagnostics", TRUE>>, <<"IEExtensions", TRUE>> >> >>,
   <<"InfoOnRecommendedCellsAndRANNodesForPaging", "seq", TRUE, << <<"RecommendedCellsForPaging", FALSE>>, <<"RecommendRANNodesForPaging", FALSE>>, <<"IEExtensions", TRUE>> >> >>,
   <<"LastVisitedCellInformation", "choice", FALSE, << <<"NGRANCell", FALSE>>, <<"EUTRANCell", FALSE>>, <<"UTRANCell", FALSE>>, <<"GERANCell", FALSE>>, <<"ChoiceExtensions", FALSE>> >> >>,
   <<"LastVisitedCellItem", "seq", TRUE, << <<"LastVisitedCellInformation", FALSE>>, <<"IEExtensions", TRUE>> >> >>,
   <<"LastVisitedNGRANCellInformation", "seq", TRUE, << <<"GlobalCellID", FALSE>>, <<"CellType", FALSE>>, <<"TimeUEStayedInCell", FALSE>>, <<"TimeUEStayedInCellEnhancedGranularity", TRUE>>, <<"HOCauseValue", TRUE>>, <<"IEExtensions", TRUE>> >> >>,
   <<"LocationReportingRequestType", "seq", TRUE, << <<"EventType", FALSE>>, <<"ReportArea", FALSE>>, <<"AreaOfInterestList", TRUE>>, <<"LocationReportingReferenceIDToBeCancelled", TRUE>>, <<"IEExtensions", TRUE>> >> >>,
   <<"MultipleTNLInformation", "seq", TRUE, << <<"TNLInformationList", FALSE>>, <<"IEExtensions", TRUE>> >> >>,
   <<"N3IWFID", "choice", FALSE, << <<"N3IWFID", FALSE>>, <<"ChoiceExtensions", FALSE>> >> >>,
   <<"NGRANCGI", "choice", FALSE, << <<"NRCGI", FALSE>>, <<"EUTRACGI", FALSE>>, <<"ChoiceExtensions", FALSE>> >> >>,
   <<"NgENBID", "choice", FALSE, << <<"MacroNgENBID", FALSE>>, <<"ShortMacroNgENBID", FALSE>>, <<"LongMacroNgENBID", FALSE>>, <<"ChoiceExtensions", FALSE>> >> >>,
   <<"OverloadResponse", "choice", FALSE, << <<"OverloadAction", FALSE>>, <<"ChoiceExtensions", FALSE>> >> >>,
   <<"OverloadStartNSSAIItem", "seq", TRUE, << <<"SliceOverloadList", FALSE>>, <<"SliceOverloadResponse", TRUE>>, <<"SliceTrafficLoadReductionIndication", TRUE>>, <<"IEExtensions", TRUE>> >> >>,
   <<"PDUSessionResourceAdmittedItem", "seq", TRUE, << <<"PDUSessionID", FALSE>>, <<"HandoverRequestAcknowledgeTransfer", FALSE>>, <<"IEExtensions", TRUE>> >> >>,
   <<"PDUSessionResourceFailedToModifyItemModCfm", "seq", TRUE, << <<"PDUSessionID", FALSE>>, <<"PDUSessionResourceModifyIndicationUnsuccessfulTransfer", FALSE>>, <<"IEExtensions", TRUE>> >> >>,
   <<"PDUSessionResourceFailedToModifyItemModRes", "seq", TRUE, << <<"PDUSessionID", FALSE>>, <<"PDUSessionResourceModifyUnsuccessfulTransfer", FALSE>>, <<"IEExtensions", TRUE>> >> >>,
   <<"PDUSessionResourceFailedToSetupItemCxtFail", "seq", TRUE, << <<"PDUSessionID", FALSE>>, <<"PDUSessionResourceSetupUnsuccessfulTransfer", FALSE>>, <<"IEExtensions", TRUE>> >> >>,
   <<"PDUSessionResourceFailedToSetupItemCxtRes", "seq", TRUE, << <<"PDUSessionID", FALSE>>, <<"PDUSessionResourceSetupUnsuccessfulTransfer", FALSE>>, <<"IEExtensions", TRUE>> >> >>,
   <<"PDUSessionResourceFailedToSetupItemHOAck", "seq", TRUE, << <<"PDUSessionID", FALSE>>, <<"HandoverResourceAllocationUnsuccessfulTransfer", FALSE>>, <<"IEExtensions", TRUE>> >> >>,
   <<"PDUSessionResourceFailedToSetupItemPSReq", "seq", TRUE, << <<"PDUSessionID", FALSE>>, <<"PathSwitchRequestSetupFailedTransfer", FALSE>>, <<"IEExtensions", TRUE>> >> >>,
   <<"PDUSessionResourceFailedToSetupItemSURes", "seq", TRUE, << <<"PDUSessionID", FALSE>>, <<"PDUSessionResourceSetupUnsuccessfulTransfer", FALSE>>, <<"IEExtensions", TRUE>> >> >>,
   <<"PDUSessionResourceHandoverItem", "seq", TRUE, << <<"PDUSessionID", FALSE>>, <<"HandoverCommandTransfer", FALSE>>, <<"IEExtensions", TRUE>> >> >>,
   <<"PDUSessionResourceInformationItem", "seq", TRUE, << <<"PDUSessionID", FALSE>>, <<"QosFlowInformationList", FALSE>>, <<"DRBsToQosFlowsMappingList", TRUE>>, <<"IEExtensions", TRUE>> >> >>,
   <<"PDUSessionResourceItemCxtRelReq", "seq", TRUE, << <<"PDUSessionID", FALSE>>, <<"IEExtensions", TRUE>> >> >>,
   <<"PDUSessionResourceItemHORqd", "seq", TRUE, << <<"PDUSessionID", FALSE>>, <<"HandoverRequiredTransfer", FALSE>>, <<"IEExtensions", TRUE>> >> >>,
   <<"PDUSessionResourceModifyIndicationUnsuccessfulTransfer", "seq", TRUE, << <<"Cause", FALSE>>, <<"IEExtensions", TRUE>> >> >>,
   <<"PDUSessionResourceModifyItemModCfm", "seq", TRUE, << <<"PDUSessionID", FALSE>>, <<"PDUSessionResourceModifyConfirmTransfer", FALSE>>, <<"IEExtensions", TRUE>> >> >>,
   <<"PDUSessionResourceModifyItemModInd", "seq", TRUE, << <<"PDUSessionID", FALSE>>, <<"PDUSessionResourceModifyIndicationTransfer", FALSE>>, <<"IEExtensions", TRUE>> >> >>,
   <<"PDUSessionResourceModifyItemModReq", "seq", TRUE, << <<"PDUSessionID", FALSE>>, <<"NASPDU", TRUE>>, <<"PDUSessionResourceModifyRequestTransfer", FALSE>>, <<"IEExtensions", TRUE>> >> >>,
   <<"PDUSessionResourceModifyUnsuccessfulTransfer", "seq", TRUE, << <<"Cause", FALSE>>, <<"CriticalityDiagnostics", TRUE>>, <<"IEExtensions", TRUE>> >> >>,
   <<"PDUSessionResourceNotifyItem", "seq", TRUE, << <<"PDUSessionID", FALSE>>, <<"PDUSessionResourceNotifyTransfer", FALSE>>, <<"IEExtensions", TRUE>> >> >>,
   <<"PDUSessionResourceNotifyReleasedTransfer", "seq", TRUE, << <<"Cause", FALSE>>, <<"IEExtensions", TRUE>> >> >>,
   <<"PDUSessionResourceNotifyTransfer", "seq", TRUE, << <<"QosFlowNotifyList", TRUE>>, <<"QosFlowReleasedList", TRUE>>, <<"IEExtensions", TRUE>> >> >>,
   <<"PDUSessionResourceReleasedItemNot", "seq", TRUE, << <<"PDUSessionID", FALSE>>, <<"PDUSessionResourceNotifyReleasedTransfer", FALSE>>, <<"IEExtensions", TRUE>> >> >>,
   <<"PDUSessionResourceReleasedItemPSAck", "seq", TRUE, << <<"PDUSessionID", FALSE>>, <<"PathSwitchRequestUnsuccessfulTransfer", FALSE>>, <<"IEExtensions", TRUE>> >> >>,
   <<"PDUSessionResourceReleasedItemPSFail", "seq", TRUE, << <<"PDUSessionID", FALSE>>, <<"PathSwitchRequestUnsuccessfulTransfer", FALSE>>, <<"IEExtensions", TRUE>> >> >>,
   <<"PDUSessionResourceSetupItemHOReq", "seq", TRUE, << <<"PDUSessionID", FALSE>>, <<"SNSSAI", FALSE>>, <<"HandoverRequestTransfer", FALSE>>, <<"IEExtensions", TRUE>> >> >>,
   <<"PDUSessionResourceSetupUnsuccessfulTransfer", "seq", TRUE, << <<"Cause", FALSE>>, <<"CriticalityDiagnostics", TRUE>>, <<"IEExtensions", TRUE>> >> >>,
   <<"PDUSessionResourceSwitchedItem", "seq", TRUE, << <<"PDUSessionID", FALSE>>, <<"PathSwitchRequestAcknowledgeTransfer", FALSE>>, <<"IEExtensions", TRUE>> >> >>,
   <<"PDUSessionResourceToBeSwitchedDLItem", "seq", TRUE, << <<"PDUSessionID", FALSE>>, <<"PathSwitchRequestTransfer", FALSE>>, <<"IEExtensions", TRUE>> >> >>,
   <<"PDUSessionResourceToReleaseItemHOCmd", "seq", TRUE, << <<"PDUSessionID", FALSE>>, <<"HandoverPreparationUnsuccessfulTransfer", FALSE>>, <<"IEExtensions", TRUE>> >> >>,
   <<"PWSFailedCellIDList", "choice", FALSE, << <<"EUTRACGIPWSFailedList", FALSE>>, <<"NRCGIPWSFailedList", FALSE>>, <<"ChoiceExtensions", FALSE>> >> >>,
   <<"PacketErrorRate", "seq", TRUE, << <<"PERScalar", FALSE>>, <<"PERExponent", FALSE>>, <<"IEExtensions", TRUE>> >> >>,
   <<"PagingAttemptInformation", "seq", TRUE, << <<"PagingAttemptCount", FALSE>>, <<"IntendedNumberOfPagingAttempts", FALSE>>, <<"NextPagingAreaScope", TRUE>>, <<"IEExtensions", TRUE>> >> >>,
   <<"PathSwitchRequestAcknowledgeTransfer", "seq", TRUE, << <<"ULNGUUPTNLInformation", TRUE>>, <<"SecurityIndication", TRUE>>, <<"IEExtensions", TRUE>> >> >>,
   <<"PathSwitchRequestSetupFailedTransfer", "seq", TRUE, << <<"Cause", FALSE>>, <<"IEExtensions", TRUE>> >> >>,
   <<"PathSwitchRequestTransfer", "seq", TRUE, << <<"DLNGUUPTNLInformation", FALSE>>, <<"DLNGUTNLInformationReused", TRUE>>, <<"UserPlaneSecurityInformation", TRUE>>, <<"QosFlowAcceptedList", FALSE>>, <<"IEExtensions", TRUE>> >> >>,
   <<"PathSwitchRequestUnsuccessfulTransfer", "seq", TRUE, << <<"Cause", FALSE>>, <<"IEExtensions", TRUE>> >> >>,
   <<"QosFlowAcceptedItem", "seq", TRUE, << <<"QosFlowIdentifier", FALSE>>, <<"IEExtensions", TRUE>> >> >>,
   <<"QosFlowAddOrModifyRequestItem", "seq", TRUE, << <<"QosFlowIdentifier", FALSE>>, <<"QosFlowLevelQosParameters", TRUE>>, <<"ERABID", TRUE>>, <<"IEExtensions", TRUE>> >> >>,
   <<"QosFlowAddOrModifyResponseItem", "seq", TRUE, << <<"QosFlowIdentifier", FALSE>>, <<"IEExtensions", TRUE>> >> >>,
   <<"QosFlowInformationItem", "seq", TRUE, << <<"QosFlowIdentifier", FALSE>>, <<"DLForwarding", TRUE>>, <<"IEExtensions", TRUE>> >> >>,
   <<"QosFlowItem", "seq", TRUE, << <<"QosFlowIdentifier", FALSE>>, <<"Cause", FALSE>>, <<"IEExtensions", TRUE>> >> >>,
   <<"QosFlowModifyConfirmItem", "seq", TRUE, << <<"QosFlowIdentifier", FALSE>>, <<"IEExtensions", TRUE>> >> >>,
   <<"QosFlowNotifyItem", "seq", TRUE, << <<"QosFlowIdentifier", FALSE>>, <<"NotificationCause", FALSE>>, <<"IEExtensions", TRUE>> >> >>,
   <<"QosFlowSetupResponseItemHOReqAck", "seq", TRUE, << <<"QosFlowIdentifier", FALSE>>, <<"DataForwardingAccepted", TRUE>>, <<"IEExtensions", TRUE>> >> >>,
   <<"QosFlowToBeForwardedItem", "seq", TRUE, << <<"QosFlowIdentifier", FALSE>>, <<"IEExtensions", TRUE>> >> >>,
   <<"RANStatusTransferTransparentContainer", "seq", TRUE, << <<"DRBsSubjectToStatusTransferList", FALSE>>, <<"IEExtensions", TRUE>> >> >>,
   <<"RATRestrictionsItem", "seq", TRUE, << <<"PLMNIdentity", FALSE>>, <<"RATRestrictionInformation", FALSE>>, <<"IEExtensions", TRUE>> >> >>,
   <<"RecommendedCellItem", "seq", TRUE, << <<"NGRANCGI", FALSE>>, <<"TimeStayedInCell", TRUE>>, <<"IEExtensions", TRUE>> >> >>,
   <<"RecommendedCellsForPaging", "seq", TRUE, << <<"RecommendedCellList", FALSE>>, <<"IEExtensions", TRUE>> >> >>,
   <<"RecommendedRANNodeItem", "seq", TRUE, << <<"AMFPagingTarget", FALSE>>, <<"IEExtensions", TRUE>> >> >>,
   <<"RecommendedRANNodesForPaging", "seq", TRUE, << <<"RecommendedRANNodeList", FALSE>>, <<"IEExtensions", TRUE>> >> >>,
   <<"ResetType", "choice", FALSE, << <<"NGInterface", FALSE>>, <<"PartOfNGInterface", FALSE>>, <<"ChoiceExtensions", FALSE>> >> >>,
   <<"SONInformation", "choice", FALSE, << <<"SONInformationRequest", FALSE>>, <<"SONInformationReply", FALSE>>, <<"ChoiceExtensions", FALSE>> >> >>,
   <<"SONInformationReply", "seq", TRUE, << <<"XnTNLConfigurationInfo", TRUE>>, <<"IEExtensions", TRUE>> >> >>,
   <<"SecurityContext", "seq", TRUE, << <<"NextHopChainingCount", FALSE>>, <<"NextHopNH", FALSE>>, <<"IEExtensions", TRUE>> >> >>,
   <<"SecurityIndication", "seq", TRUE, << <<"IntegrityProtectionIndication", FALSE>>, <<"ConfidentialityProtectionIndication", FALSE>>, <<"MaximumIntegrityProtectedDataRate", TRUE>>, <<"IEExtensions", TRUE>> >> >>,
   <<"SecurityResult", "seq", TRUE, << <<"IntegrityProtectionResult", FALSE>>, <<"ConfidentialityProtectionResult", FALSE>>, <<"IEExtensions", TRUE>> >> >>,
   <<"ServiceAreaInformationItem", "seq", TRUE, << <<"PLMNIdentity", FALSE>>, <<"AllowedTACs", TRUE>>, <<"NotAllowedTACs", TRUE>>, <<"IEExtensions", TRUE>> >> >>,
   <<"SingleTNLInformation", "seq", TRUE, << <<"UPTransportLayerInformation", FALSE>>, <<"IEExtensions", TRUE>> >> >>,
   <<"SliceOverloadItem", "seq", TRUE, << <<"SNSSAI", FALSE>>, <<"IEExtensions", TRUE>> >> >>,
   <<"SourceNGRANNodeToTargetNGRANNodeTransparentContainer", "seq", TRUE, << <<"RRCContainer", FALSE>>, <<"PDUSessionResourceInformationList", TRUE>>, <<"ERABInformationList", TRUE>>, <<"TargetCellID", FALSE>>, <<"IndexToRFSP", TRUE>>, <<"UEHistoryInformation", FALSE>>, <<"IEExtensions", TRUE>> >> >>,
   <<"SourceRANNodeID", "seq", TRUE, << <<"GlobalRANNodeID", FALSE>>, <<"SelectedTAI", FALSE>>, <<"IEExtensions", TRUE>> >> >>,
   <<"TAIBroadcastEUTRAItem", "seq", TRUE, << <<"TAI", FALSE>>, <<"CompletedCellsInTAIEUTRA", FALSE>>, <<"IEExtensions", TRUE>> >> >>,
   <<"TAIBroadcastNRItem", "seq", TRUE, << <<"TAI", FALSE>>, <<"CompletedCellsInTAINR", FALSE>>, <<"IEExtensions", TRUE>> >> >>,
   <<"TAICancelledEUTRAItem", "seq", TRUE, << <<"TAI", FALSE>>, <<"CancelledCellsInTAIEUTRA", FALSE>>, <<"IEExtensions", TRUE>> >> >>,
   <<"TAICancelledNRItem", "seq", TRUE, << <<"TAI", FALSE>>, <<"CancelledCellsInTAINR", FALSE>>, <<"IEExtensions", TRUE>> >> >>,
   <<"TAIListForInactiveItem", "seq", TRUE, << <<"TAI", FALSE>>, <<"IEExtensions", TRUE>> >> >>,
   <<"TAIListForPagingItem", "seq", TRUE, << <<"TAI", FALSE>>, <<"IEExtensions", TRUE>> >> >>,
   <<"TNLAssociationItem", "seq", TRUE, << <<"TNLAssociationAddress", FALSE>>, <<"Cause", FALSE>>, <<"IEExtensions", TRUE>> >> >>,
   <<"TNLInformationItem", "seq", TRUE, << <<"QosFlowPerTNLInformation", FALSE>>, <<"IEExtensions", TRUE>> >> >>,
   <<"TargetID", "choice", FALSE, << <<"TargetRANNodeID", FALSE>>, <<"TargeteNBID", FALSE>>, <<"ChoiceExtensions", FALSE>> >> >>,
   <<"TargetNGRANNodeToSourceNGRANNodeTransparentContainer", "seq", TRUE, << <<"RRCContainer", FALSE>>, <<"IEExtensions", TRUE>> >> >>,
   <<"TargetRANNodeID", "seq", TRUE, << <<"GlobalRANNodeID", FALSE>>, <<"SelectedTAI", FALSE>>, <<"IEExtensions", TRUE>> >> >>,
   <<"TargeteNBID", "seq", TRUE, << <<"GlobalENBID", FALSE>>, <<"SelectedEPSTAI", FALSE>>, <<"IEExtensions", TRUE>> >> >>,
   <<"TraceActivation", "seq", TRUE, << <<"NGRANTraceID", FALSE>>, <<"InterfacesToTrace", FALSE>>, <<"TraceDepth", FALSE>>, <<"TraceCollectionEntityIPAddress", FALSE>>, <<"IEExtensions", TRUE>> >> >>,
   <<"UEAssociatedLogicalNGConnectionItem", "seq", TRUE, << <<"AMFUENGAPID", TRUE>>, <<"RANUENGAPID", TRUE>>, <<"IEExtensions", TRUE>> >> >>,
   <<"UEIdentityIndexValue", "choice", FALSE, << <<"IndexLength10", FALSE>>, <<"ChoiceExtensions", FALSE>> >> >>,
   <<"UEPagingIdentity", "choice", FALSE, << <<"FiveGSTMSI", FALSE>>, <<"ChoiceExtensions", FALSE>> >> >>,
   <<"UEPresenceInAreaOfInterestItem", "seq", TRUE, << <<"LocationReportingReferenceID", FALSE>>, <<"UEPresence", FALSE>>, <<"IEExtensions", TRUE>> >> >>,
   <<"UERadioCapabilityForPaging", "seq", TRUE, << <<"UERadioCapabilityForPagingOfNR", TRUE>>, <<"UERadioCapabilityForPagingOfEUTRA", TRUE>>, <<"IEExtensions", TRUE>> >> >>,
   <<"ULNGUUPTNLModifyItem", "seq", TRUE, << <<"ULNGUUPTNLInformation", FALSE>>, <<"DLNGUUPTNLInformation", FALSE>>, <<"IEExtensions", TRUE>> >> >>,
   <<"UPTNLInformation", "choice", FALSE, << <<"SingleTNLInformation", FALSE>>, <<"MultipleTNLInformation", FALSE>>, <<"ChoiceExtensions", FALSE>> >> >>,
   <<"UnavailableGUAMIItem", "seq", TRUE, << <<"GUAMI", FALSE>>, <<"TimerApproachForGUAMIRemoval", TRUE>>, <<"BackupAMFName", TRUE>>, <<"IEExtensions", TRUE>> >> >>,
   <<"UserLocationInformationEUTRA", "seq", TRUE, << <<"EUTRACGI", FALSE>>, <<"TAI", FALSE>>, <<"TimeStamp", TRUE>>, <<"IEExtensions", TRUE>> >> >>,
   <<"UserLocationInformationN3IWF", "seq", TRUE, << <<"IPAddress", FALSE>>, <<"PortNumber", FALSE>>, <<"IEExtensions", TRUE>> >> >>,
   <<"UserPlaneSecurityInformation", "seq", TRUE, << <<"SecurityResult", FALSE>>, <<"SecurityIndication", FALSE>>, <<"IEExtensions", TRUE>> >> >>,
   <<"WarningAreaList", "choice", FALSE, << <<"EUTRACGIListForWarning", FALSE>>, <<"NRCGIListForWarning", FALSE>>, <<"TAIListForWarning", FALSE>>, <<"EmergencyAreaIDList", FALSE>>, <<"ChoiceExtensions", FALSE>> >> >>,
   <<"XnExtTLAItem", "seq", TRUE, << <<"IPsecTLA", TRUE>>, <<"GTPTLAs", TRUE>>, <<"IEExtensions", TRUE>> >> >>,
   <<"XnTNLConfigurationInfo", "seq", TRUE, << <<"XnTransportLayerAddresses", FALSE>>, <<"XnExtendedTransportLayerAddresses", TRUE>>, <<"IEExtensions", TRUE>> >> >> >>
StructComplaint(r) ==
   LET keys == KeysOf(r[1]) IN
   IF keys = {} THEN "absent"
   ELSE LET badKeys == {k \in keys :
                 LET t == NgapTypes[k] IN
                 IF r[2] = "seq"
                 THEN ~(t.k = "seq" /\ t.ext = r[3] /\ Len(t.fields) = Len(r[4])
                        /\ \A i \in 1..Len(r[4]) : t.fields[i].name = r[4][i][1] /\ t.fields[i].opt = r[4][i][2])
                 ELSE ~(t.k = "choice" /\ t.ext = r[3] /\ Len(t.alts) = Len(r[4]) /\ \A i \in 1..Len(r[4]) : t.alts[i].name = r[4][i][1])} IN
        IF badKeys = {} THEN "ok"
        ELSE LET t == NgapTypes[CHOOSE x \in badKeys : TRUE] IN
             "struct tags give ext " \o ToString(t.ext) \o ", components "
             \o ToString(IF t.k = "seq" THEN [i \in 1..Len(t.fields) |-> <<t.fields[i].name, t.fields[i].opt>>] ELSE IF t.k = "choice" THEN [i \in 1..Len(t.alts) |-> t.alts[i].name] ELSE <<t.k>>)
             \o " but TS 38.413 defines " \o ToString(<<r[3], r[4]>>)
\* families of list types with one size rule in TS 38.413 9.4: ProtocolIE-Container (SIZE (0..maxProtocolIEs)), ProtocolExtensionContainer and
\* PrivateIE-Container (SIZE (1..65535)), and every PDUSessionResource...List... (SIZE (1..maxnoofPDUSessions), 256)
HasPrefix(str, pre) == Len(str) >= Len(pre) /\ SubSeq(str, 1, Len(pre)) = pre
FamilyRule(name) == IF HasPrefix(name, "ProtocolIEContainer") THEN <<0, 65535>>
                    ELSE IF HasPrefix(name, "ProtocolExtensionContainer") \/ HasPrefix(name, "PrivateIEContainer") THEN <<1, 65535>>
                    ELSE IF HasPrefix(name, "PDUSessionResource") /\ \E i \in 1..(Len(name) - 3) : SubSeq(name, i, i + 3) = "List" THEN <<1, 256>>
                    ELSE <<-1, -1>>
FamilyBad == {k \in DOMAIN NgapTypes :
                 LET r == FamilyRule(NameOf(k)) t == Inner(NgapTypes[k]) IN
                 r[1] >= 0 /\ t.k = "seqof" /\ ~(t.lb.has /\ t.ub.has /\ t.lb.n = r[1] /\ t.ub.n = r[2] /\ ~t.ext)}
FamilyCount == Cardinality({k \in DOMAIN NgapTypes : FamilyRule(NameOf(k))[1] >= 0 /\ Inner(NgapTypes[k]).k = "seqof"})
\* TS 38.413 9.4.7: the protocol IE identifiers (Go spelling of id-<Name>: hyphens dropped, each part capitalised).  Every alternative of
\* an information element container's open type must be tagged with the identifier the standard assigns to the IE of that name
\* (`referenceFieldValue`): the specification's own encoder and decoder take the identifier from the same tags, so a wrong number
\* there is invisible to every check that goes through the type dictionary.
IeNames == <<
   <<0, "AllowedNSSAI">>, <<1, "AMFName">>, <<2, "AMFOverloadResponse">>, <<3, "AMFSetID">>,
   <<4, "AMFTNLAssociationFailedToSetupList">>, <<5, "AMFTNLAssociationSetupList">>, <<6, "AMFTNLAssociationToAddList">>, <<7, "AMFTNLAssociationToRemoveList">>,
   <<8, "AMFTNLAssociationToUpdateList">>, <<9, "AMFTrafficLoadReductionIndication">>, <<10, "AMFUENGAPID">>, <<11, "AssistanceDataForPaging">>,
   <<12, "BroadcastCancelledAreaList">>, <<13, "BroadcastCompletedAreaList">>, <<14, "CancelAllWarningMessages">>, <<15, "Cause">>,
   <<16, "CellIDListForRestart">>, <<17, "ConcurrentWarningMessageInd">>, <<18, "CoreNetworkAssistanceInformation">>, <<19, "CriticalityDiagnostics">>,
   <<20, "DataCodingScheme">>, <<21, "DefaultPagingDRX">>, <<22, "DirectForwardingPathAvailability">>, <<23, "EmergencyAreaIDListForRestart">>,
   <<24, "EmergencyFallbackIndicator">>, <<25, "EUTRACGI">>, <<26, "FiveGSTMSI">>, <<27, "GlobalRANNodeID">>,
   <<28, "GUAMI">>, <<29, "HandoverType">>, <<30, "IMSVoiceSupportIndicator">>, <<31, "IndexToRFSP">>,
   <<32, "InfoOnRecommendedCellsAndRANNodesForPaging">>, <<33, "LocationReportingRequestType">>, <<34, "MaskedIMEISV">>, <<35, "MessageIdentifier">>,
   <<36, "MobilityRestrictionList">>, <<37, "NASC">>, <<38, "NASPDU">>, <<39, "NASSecurityParametersFromNGRAN">>,
   <<40, "NewAMFUENGAPID">>, <<41, "NewSecurityContextInd">>, <<42, "NGAPMessage">>, <<43, "NGRANCGI">>,
   <<44, "NGRANTraceID">>, <<45, "NRCGI">>, <<46, "NRPPaPDU">>, <<47, "NumberOfBroadcastsRequested">>,
   <<48, "OldAMF">>, <<49, "OverloadStartNSSAIList">>, <<50, "PagingDRX">>, <<51, "PagingOrigin">>,
   <<52, "PagingPriority">>, <<53, "PDUSessionResourceAdmittedList">>, <<54, "PDUSessionResourceFailedToModifyListModRes">>, <<55, "PDUSessionResourceFailedToSetupListCxtRes">>,
   <<56, "PDUSessionResourceFailedToSetupListHOAck">>, <<57, "PDUSessionResourceFailedToSetupListPSReq">>, <<58, "PDUSessionResourceFailedToSetupListSURes">>, <<59, "PDUSessionResourceHandoverList">>,
   <<60, "PDUSessionResourceListCxtRelCpl">>, <<61, "PDUSessionResourceListHORqd">>, <<62, "PDUSessionResourceModifyListModCfm">>, <<63, "PDUSessionResourceModifyListModInd">>,
   <<64, "PDUSessionResourceModifyListModReq">>, <<65, "PDUSessionResourceModifyListModRes">>, <<66, "PDUSessionResourceNotifyList">>, <<67, "PDUSessionResourceReleasedListNot">>,
   <<68, "PDUSessionResourceReleasedListPSAck">>, <<69, "PDUSessionResourceReleasedListPSFail">>, <<70, "PDUSessionResourceReleasedListRelRes">>, <<71, "PDUSessionResourceSetupListCxtReq">>,
   <<72, "PDUSessionResourceSetupListCxtRes">>, <<73, "PDUSessionResourceSetupListHOReq">>, <<74, "PDUSessionResourceSetupListSUReq">>, <<75, "PDUSessionResourceSetupListSURes">>,
   <<76, "PDUSessionResourceToBeSwitchedDLList">>, <<77, "PDUSessionResourceSwitchedList">>, <<78, "PDUSessionResourceToReleaseListHOCmd">>, <<79, "PDUSessionResourceToReleaseListRelCmd">>,
   <<80, "PLMNSupportList">>, <<81, "PWSFailedCellIDList">>, <<82, "RANNodeName">>, <<83, "RANPagingPriority">>,
   <<84, "RANStatusTransferTransparentContainer">>, <<85, "RANUENGAPID">>, <<86, "RelativeAMFCapacity">>, <<87, "RepetitionPeriod">>,
   <<88, "ResetType">>, <<89, "RoutingID">>, <<90, "RRCEstablishmentCause">>, <<91, "RRCInactiveTransitionReportRequest">>,
   <<92, "RRCState">>, <<93, "SecurityContext">>, <<94, "SecurityKey">>, <<95, "SerialNumber">>,
   <<96, "ServedGUAMIList">>, <<97, "SliceSupportList">>, <<98, "SONConfigurationTransferDL">>, <<99, "SONConfigurationTransferUL">>,
   <<100, "SourceAMFUENGAPID">>, <<101, "SourceToTargetTransparentContainer">>, <<102, "SupportedTAList">>, <<103, "TAIListForPaging">>,
   <<104, "TAIListForRestart">>, <<105, "TargetID">>, <<106, "TargetToSourceTransparentContainer">>, <<107, "TimeToWait">>,
   <<108, "TraceActivation">>, <<109, "TraceCollectionEntityIPAddress">>, <<110, "UEAggregateMaximumBitRate">>, <<111, "UEAssociatedLogicalNGConnectionList">>,
   <<112, "UEContextRequest">>, <<114, "UENGAPIDs">>, <<115, "UEPagingIdentity">>, <<116, "UEPresenceInAreaOfInterestList">>,
   <<117, "UERadioCapability">>, <<118, "UERadioCapabilityForPaging">>, <<119, "UESecurityCapabilities">>, <<120, "UnavailableGUAMIList">>,
   <<121, "UserLocationInformation">>, <<122, "WarningAreaList">>, <<123, "WarningMessageContents">>, <<124, "WarningSecurityInfo">>,
   <<125, "WarningType">>, <<126, "AdditionalULNGUUPTNLInformation">>, <<127, "DataForwardingNotPossible">>, <<128, "DLNGUUPTNLInformation">>,
   <<129, "NetworkInstance">>, <<130, "PDUSessionAggregateMaximumBitRate">>, <<131, "PDUSessionResourceFailedToModifyListModCfm">>, <<132, "PDUSessionResourceFailedToSetupListCxtFail">>,
   <<133, "PDUSessionResourceListCxtRelReq">>, <<134, "PDUSessionType">>, <<135, "QosFlowAddOrModifyRequestList">>, <<136, "QosFlowSetupRequestList">>,
   <<137, "QosFlowToReleaseList">>, <<138, "SecurityIndication">>, <<139, "ULNGUUPTNLInformation">>, <<140, "ULNGUUPTNLModifyList">>,
   <<141, "WarningAreaCoordinates">>, <<142, "PDUSessionResourceSecondaryRATUsageList">>, <<143, "HandoverFlag">>, <<144, "SecondaryRATUsageInformation">>,
   <<145, "PDUSessionResourceReleaseResponseTransfer">>, <<146, "RedirectionVoiceFallback">>, <<147, "UERetentionInformation">>, <<148, "SNSSAI">>,
   <<149, "PSCellInformation">>, <<150, "LastEUTRANPLMNIdentity">>, <<151, "MaximumIntegrityProtectedDataRateDL">>, <<152, "AdditionalDLForwardingUPTNLInformation">> >>
\* TS 38.413 9.4.3 (elementary procedures): the message of each procedure code, per message class
InitiatingNames == <<
   <<0, "AMFConfigurationUpdate">>, <<1, "AMFStatusIndication">>, <<2, "CellTrafficTrace">>,
   <<3, "DeactivateTrace">>, <<4, "DownlinkNASTransport">>, <<5, "DownlinkNonUEAssociatedNRPPaTransport">>,
   <<6, "DownlinkRANConfigurationTransfer">>, <<7, "DownlinkRANStatusTransfer">>, <<8, "DownlinkUEAssociatedNRPPaTransport">>,
   <<9, "ErrorIndication">>, <<10, "HandoverCancel">>, <<11, "HandoverNotify">>,
   <<12, "HandoverRequired">>, <<13, "HandoverRequest">>, <<14, "InitialContextSetupRequest">>,
   <<15, "InitialUEMessage">>, <<16, "LocationReportingControl">>, <<17, "LocationReportingFailureIndication">>,
   <<18, "LocationReport">>, <<19, "NASNonDeliveryIndication">>, <<20, "NGReset">>,
   <<21, "NGSetupRequest">>, <<22, "OverloadStart">>, <<23, "OverloadStop">>,
   <<24, "Paging">>, <<25, "PathSwitchRequest">>, <<26, "PDUSessionResourceModifyRequest">>,
   <<27, "PDUSessionResourceModifyIndication">>, <<28, "PDUSessionResourceReleaseCommand">>, <<29, "PDUSessionResourceSetupRequest">>,
   <<30, "PDUSessionResourceNotify">>, <<31, "PrivateMessage">>, <<32, "PWSCancelRequest">>,
   <<33, "PWSFailureIndication">>, <<34, "PWSRestartIndication">>, <<35, "RANConfigurationUpdate">>,
   <<36, "RerouteNASRequest">>, <<37, "RRCInactiveTransitionReport">>, <<38, "TraceFailureIndication">>,
   <<39, "TraceStart">>, <<40, "UEContextModificationRequest">>, <<41, "UEContextReleaseCommand">>,
   <<42, "UEContextReleaseRequest">>, <<43, "UERadioCapabilityCheckRequest">>, <<44, "UERadioCapabilityInfoIndication">>,
   <<45, "UETNLABindingReleaseRequest">>, <<46, "UplinkNASTransport">>, <<47, "UplinkNonUEAssociatedNRPPaTransport">>,
   <<48, "UplinkRANConfigurationTransfer">>, <<49, "UplinkRANStatusTransfer">>, <<50, "UplinkUEAssociatedNRPPaTransport">>,
   <<51, "WriteReplaceWarningRequest">> >>
SuccessfulNames == <<
   <<0, "AMFConfigurationUpdateAcknowledge">>, <<10, "HandoverCancelAcknowledge">>, <<12, "HandoverCommand">>,
   <<13, "HandoverRequestAcknowledge">>, <<14, "InitialContextSetupResponse">>, <<20, "NGResetAcknowledge">>,
   <<21, "NGSetupResponse">>, <<25, "PathSwitchRequestAcknowledge">>, <<26, "PDUSessionResourceModifyResponse">>,
   <<27, "PDUSessionResourceModifyConfirm">>, <<28, "PDUSessionResourceReleaseResponse">>, <<29, "PDUSessionResourceSetupResponse">>,
   <<32, "PWSCancelResponse">>, <<35, "RANConfigurationUpdateAcknowledge">>, <<40, "UEContextModificationResponse">>,
   <<41, "UEContextReleaseComplete">>, <<43, "UERadioCapabilityCheckResponse">>, <<51, "WriteReplaceWarningResponse">> >>
UnsuccessfulNames == <<
   <<0, "AMFConfigurationUpdateFailure">>, <<12, "HandoverPreparationFailure">>, <<13, "HandoverFailure">>,
   <<14, "InitialContextSetupFailure">>, <<21, "NGSetupFailure">>, <<25, "PathSwitchRequestFailure">>,
   <<35, "RANConfigurationUpdateFailure">>, <<40, "UEContextModificationFailure">> >>
NameFor(tab, ref) == IF \E i \in 1..Len(tab) : tab[i][1] = ref THEN tab[CHOOSE i \in 1..Len(tab) : tab[i][1] = ref][2] ELSE "(no such identifier)"
TableFor(k) == IF HasPrefix(NameOf(k), "InitiatingMessageValue") THEN InitiatingNames
               ELSE IF HasPrefix(NameOf(k), "SuccessfulOutcomeValue") THEN SuccessfulNames
               ELSE IF HasPrefix(NameOf(k), "UnsuccessfulOutcomeValue") THEN UnsuccessfulNames ELSE IeNames
OpenKeys == {k \in DOMAIN NgapTypes : NgapTypes[k].k = "open"}
\* <<dictionary key, alternative index>> of the alternatives whose identifier is not that of their name, and of identifiers used twice
OpenRefBad == {<<k, i>> \in UNION {{<<k, i>> : i \in 1..Len(NgapTypes[k].alts)} : k \in OpenKeys} :
                 LET a == NgapTypes[k].alts IN
                 NameFor(TableFor(k), a[i].ref) # a[i].name \/ \E j \in 1..Len(a) : j # i /\ a[j].ref = a[i].ref}
\* the three message containers hold exactly the messages of the standard
MsgCountBad == {k \in OpenKeys : TableFor(k) # IeNames /\ Len(NgapTypes[k].alts) # Len(TableFor(k))}
\* generic rule for SEQUENCE types (TS 38.413 9.4.5 / 9.4.4): every information element SEQUENCE ends in
\* "iE-Extensions ProtocolExtensionContainer {{...}} OPTIONAL, ..." and every message SEQUENCE is "{ protocolIEs ProtocolIE-Container {{...}}, ... }":
\* a dictionary entry (type at one use site, with the parameters of the referring field) that has such a component must carry the
\* extension marker, and iE-Extensions must be its last component and OPTIONAL.  The library takes a SEQUENCE's extension marker from
\* the tag of the *referring* field, so one use site can lose it while the others keep it.
SeqMarked == {k \in DOMAIN NgapTypes : NgapTypes[k].k = "seq" /\ \E i \in 1..Len(NgapTypes[k].fields) : NgapTypes[k].fields[i].name \in {"IEExtensions", "ProtocolIEs"}}
SeqRuleBad == {k \in SeqMarked : LET t == NgapTypes[k] n == Len(t.fields) IN
                 ~(t.ext /\ ((\E i \in 1..n : t.fields[i].name = "IEExtensions") => (t.fields[n].name = "IEExtensions" /\ t.fields[n].opt)))}
\* generic rule for CHOICE types: NGAP CHOICEs are not extensible; they end in "choice-Extensions ProtocolIE-SingleContainer {{...}}"
\* instead, and the index is a constrained whole number over exactly the alternatives (NGAP-PDU alone is an extensible CHOICE of three)
ChoiceKeys == {k \in DOMAIN NgapTypes : NgapTypes[k].k = "choice"}
ChoiceBad == {k \in ChoiceKeys : LET t == NgapTypes[k] n == Len(t.alts) IN
                IF HasPrefix(NameOf(k), "NGAPPDU") THEN ~(t.ext /\ n = 3 /\ t.ub.has /\ t.ub.n = 2)
                ELSE IF \E i \in 1..n : t.alts[i].name = "ChoiceExtensions"
                     THEN ~(~t.ext /\ t.alts[n].name = "ChoiceExtensions" /\ t.ub.has /\ t.ub.n = n - 1)
                     ELSE FALSE}
Init == l = 1 /\ bad = 0
Next == /\ l <= Len(Rows)
        /\ (IF l = 1
            THEN /\ PrintT("FAMILY " \o ToString(FamilyCount + Len(Structs) + Cardinality(SeqMarked) + Cardinality(OpenKeys) + Cardinality(ChoiceKeys)))
                 /\ \A p \in OpenRefBad : PrintT("REJECT line=0 id=" \o p[1] \o " ev=Tag why=C03: " \o p[1] \o ": alternative " \o NgapTypes[p[1]].alts[p[2]].name
                                                   \o " is tagged with identifier " \o ToString(NgapTypes[p[1]].alts[p[2]].ref) \o ", which TS 38.413 assigns to "
                                                   \o NameFor(TableFor(p[1]), NgapTypes[p[1]].alts[p[2]].ref) \o " (or the identifier is used twice in this container)")
                 /\ \A k \in MsgCountBad : PrintT("REJECT line=0 id=" \o k \o " ev=Tag why=C03: " \o k \o ": " \o ToString(Len(NgapTypes[k].alts)) \o " messages in this class, TS 38.413 defines " \o ToString(Len(TableFor(k))))
                 /\ \A k \in ChoiceBad : PrintT("REJECT line=0 id=" \o k \o " ev=Tag why=C03: " \o k \o ": a CHOICE of TS 38.413 is not extensible, ends in choice-Extensions and is indexed over exactly its alternatives; struct tags give ext "
                                                  \o ToString(NgapTypes[k].ext) \o ", " \o ToString(Len(NgapTypes[k].alts)) \o " alternatives, index bound " \o ToString(NgapTypes[k].ub))
                 /\ \A k \in SeqRuleBad : PrintT("REJECT line=0 id=" \o k \o " ev=Tag why=C03: " \o k \o ": a SEQUENCE with iE-Extensions / protocolIEs is extensible in TS 38.413 (and iE-Extensions is its last, OPTIONAL component); the struct tags at this use site give ext " \o ToString(NgapTypes[k].ext))
                 /\ \A i \in 1..Len(Structs) : LET c == StructComplaint(Structs[i]) IN
                       IF c = "ok" THEN TRUE
                       ELSE IF c = "absent" THEN PrintT("ABSENTSTRUCT " \o Structs[i][1])
                       ELSE PrintT("REJECT line=0 id=" \o Structs[i][1] \o " ev=Tag why=C03: " \o Structs[i][1] \o ": " \o c)
                 /\ \A k \in FamilyBad : PrintT("REJECT line=0 id=" \o NameOf(k) \o " ev=Tag why=C03: " \o NameOf(k) \o ": struct tags give " \o ToString(Inner(NgapTypes[k]).lb) \o ".." \o ToString(Inner(NgapTypes[k]).ub)
                                                  \o " but TS 38.413 sizes this container / list " \o ToString(FamilyRule(NameOf(k))))
                 /\ \A u \in UnboundedAll : PrintT("REJECT line=0 id=" \o u \o " ev=Tag why=C03: " \o u \o ": ENUMERATED component without a value bound in its struct tag (the library refuses to encode it and cannot decode it)")
                 /\ \A i \in 1..Len(Inline) : LET c == InlineComplaint(Inline[i]) IN
                       IF c \in {"ok", "absent"} THEN TRUE
                       ELSE PrintT("REJECT line=0 id=" \o Inline[i][1] \o "." \o Inline[i][2] \o " ev=Tag why=C03: " \o Inline[i][1] \o "." \o Inline[i][2] \o ": " \o c)
            ELSE TRUE)
        /\ LET c == RowComplaint(Rows[l]) IN
             /\ (IF c \in {"ok", "absent"} THEN TRUE
                 ELSE PrintT("REJECT line=" \o ToString(l) \o " id=" \o Rows[l][1] \o " ev=Tag why=C03: " \o Rows[l][1] \o ": " \o c))
             /\ (IF c = "absent" THEN PrintT("ABSENT " \o Rows[l][1]) ELSE TRUE)
             /\ bad' = bad + (IF c \in {"ok", "absent"} THEN 0 ELSE 1)
        /\ l' = l + 1
Consumed == TLCGet("stats").diameter - 1 = Len(Rows)
=============================================================================
