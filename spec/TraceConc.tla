------------------------------ MODULE TraceConc ------------------------------
(***************************************************************************)
(* C20: results of operations executed under a replayed schedule or in a   *)
(* free-running stress run against the atomic specification: equal to the  *)
(* result of the same operation executed alone (seq), which for the cipher *)
(* operations is also recomputed from NasAlg on a sample; no data race     *)
(* report.                                                                 *)
(***************************************************************************)
EXTENDS TraceBase, NasAlg
VARIABLES l, bad
Explain(e) ==
   CASE e.ev = "Op" ->
          IF e.panic THEN No("operation panicked under concurrency")
          ELSE IF e.result # e.seq THEN No("result of " \o e.op \o " under " \o e.mode \o " differs from the same call executed alone")
          ELSE IF e.check /\ e.op = "NEA1" /\ e.result # Nea(1, e.key, e.count, 1, 0, e.msg) THEN No("result differs from 128-NEA1")
          ELSE IF e.check /\ e.op = "NIA1" /\ e.result # Nia(1, e.key, e.count, 1, 0, e.msg) THEN No("result differs from 128-NIA1")
          ELSE Ok
     [] e.ev = "Race" -> No("the race detector reported " \o Str(e.count) \o " data race(s): " \o e.where)
     [] e.ev = "Sched" -> Ok
     [] OTHER -> No("no action of the specification matches this event")
Init == l = 1 /\ bad = 0
Next == /\ l <= Len(Trace)
        /\ \E r \in {Explain(Trace[l])} : LET e == Trace[l] IN     \* bound once (TLC evaluates an action-level LET at every use)
             /\ Report(l, e, r)
             /\ bad' = bad + (IF r.ok THEN 0 ELSE 1)
        /\ l' = l + 1
Consumed == TLCGet("stats").diameter - 1 = Len(Trace)
=============================================================================
