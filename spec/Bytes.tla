------------------------------- MODULE Bytes -------------------------------
(***************************************************************************)
(* Layer 0.  Octets are naturals 0..255, messages are sequences of octets. *)
(* TLC integers are 32-bit signed, therefore no 32-bit word is ever held   *)
(* in one Int: words are sequences of octets (AES, SNOW 3G) or pairs of    *)
(* 16-bit halves (SHA-256); larger naturals are BigNat = minimal           *)
(* big-endian octet sequences.                                            *)
(***************************************************************************)
EXTENDS Integers, Sequences, Bitwise

Octet == 0..255
\* TLC keeps [i \in S |-> e] as a lazily evaluated function; Tup forces it into a tuple so that chains
\* of such functions are not re-evaluated exponentially often
Tup(f) == f \o <<>>
Zeros(n) == Tup([i \in 1..n |-> 0])
Rep(n, x) == Tup([i \in 1..n |-> x])
XorBytes(a, b) == Tup([i \in 1..Len(a) |-> a[i] ^^ b[i]])
X3(a, b, c) == (a ^^ b) ^^ c
X4(a, b, c, d) == ((a ^^ b) ^^ c) ^^ d
X5(a, b, c, d, e) == (((a ^^ b) ^^ c) ^^ d) ^^ e
Take(s, n) == SubSeq(s, 1, n)
Drop(s, n) == SubSeq(s, n + 1, Len(s))
Last4(s) == SubSeq(s, Len(s) - 3, Len(s))
Min2(a, b) == IF a < b THEN a ELSE b
Max2(a, b) == IF a > b THEN a ELSE b

\* big-endian octets of a natural below 2^31, fixed width n
RECURSIVE BE(_, _)
BE(v, n) == IF n = 0 THEN <<>> ELSE Append(BE(v \div 256, n - 1), v % 256)
\* minimal big-endian octets (at least one octet)
RECURSIVE NatBytes(_)
NatBytes(n) == IF n < 256 THEN <<n>> ELSE Append(NatBytes(n \div 256), n % 256)
\* value of a short big-endian octet string (must stay below 2^31)
RECURSIVE BEVal(_)
BEVal(s) == IF Len(s) = 0 THEN 0 ELSE BEVal(Take(s, Len(s) - 1)) * 256 + s[Len(s)]

(***************************************************************************)
(* BigNat: naturals as minimal big-endian octet sequences (<<0>> is zero). *)
(***************************************************************************)
RECURSIVE StripZ(_)
StripZ(s) == IF Len(s) > 1 /\ s[1] = 0 THEN StripZ(Tail(s)) ELSE s
BigOfNat(n) == NatBytes(n)
PadTo(s, n) == IF Len(s) >= n THEN s ELSE Zeros(n - Len(s)) \o s
\* compare: -1, 0, 1
RECURSIVE CmpSame(_, _)
CmpSame(a, b) == IF Len(a) = 0 THEN 0
                 ELSE IF a[1] < b[1] THEN -1 ELSE IF a[1] > b[1] THEN 1
                 ELSE CmpSame(Tail(a), Tail(b))
BigCmp(a, b) == LET n == Max2(Len(a), Len(b)) IN CmpSame(PadTo(a, n), PadTo(b, n))
\* a - b for a >= b
RECURSIVE SubSame(_, _, _, _)
SubSame(a, b, i, borrow) ==
   IF i = 0 THEN <<>>
   ELSE LET d == a[i] - b[i] - borrow
            o == IF d < 0 THEN d + 256 ELSE d
        IN Append(SubSame(a, b, i - 1, IF d < 0 THEN 1 ELSE 0), o)
BigSub(a, b) == LET n == Max2(Len(a), Len(b)) IN StripZ(SubSame(PadTo(a, n), PadTo(b, n), n, 0))
RECURSIVE AddSame(_, _, _, _)
AddSame(a, b, i, carry) ==
   IF i = 0 THEN (IF carry = 1 THEN <<1>> ELSE <<>>)
   ELSE LET d == a[i] + b[i] + carry IN Append(AddSame(a, b, i - 1, d \div 256), d % 256)
BigAdd(a, b) == LET n == Max2(Len(a), Len(b)) IN StripZ(AddSame(PadTo(a, n), PadTo(b, n), n, 0))
BigIsSmall(a) == Len(a) < 4 \/ (Len(a) = 4 /\ a[1] < 128)
BigToNat(a) == BEVal(a)

\* hex digit helpers (ASCII codes)
IsDigit(c) == c >= 48 /\ c <= 57
DigitVal(c) == c - 48
=============================================================================
