------------------------------ MODULE TraceStg ------------------------------
(***************************************************************************)
(* Binds the abstract system specification Stg.tla (the one TLC checks     *)
(* exhaustively: MCStg) to recorded runs of the real emulator process.     *)
(*                                                                         *)
(* A trace is what the N2 byte pump and the online AMF (StgOnline) saw of  *)
(* one run, projected to Stg's vocabulary by the specification itself      *)
(* (Amf!Abs): line 1 the scenario (repetition counts, fault), then one     *)
(* "ul" line per uplink message in the order the pump received them        *)
(* (message kind, UE in order of first appearance, NAS COUNT of a          *)
(* protected message, number of downlink messages the concrete AMF         *)
(* answered with), and one last line: "exit" (status, banner, session      *)
(* reports) or "hang".                                                     *)
(*                                                                         *)
(* Observed steps: every write of the emulator (EmuNGSetupSend / EmuStep   *)
(* with a "w" script entry) and its termination (EmuFinish or a dying      *)
(* step).  Unobserved steps, inferred by TLC: the emulator's reads and the *)
(* AMF's AmfRecv (bounded: each consumes a message).  The run is accepted  *)
(* iff some interleaving of Stg's actions explains every line; on the way  *)
(* the abstract AMF of Stg must answer each message with as many downlink  *)
(* messages as the concrete AMF (Amf.tla) did, and must not reject what    *)
(* the concrete AMF accepted (refinement check between the two AMFs).      *)
(***************************************************************************)
EXTENDS Stg, Json
CONSTANT TracePath
VARIABLES l,      \* next trace line to explain
          na      \* number of uplink messages the AMF has consumed
Trace == ndJsonDeserialize(TracePath)
Scn0 == Trace[1]
tvars == <<vars, l, na>>

UlLines == SelectSeq(Trace, LAMBDA e : e.ev = "ul")
\* the concrete AMF's note for a message -> the step name of Stg
Matches(note, t) == \/ note = t
                    \/ note = "DeregistrationRequestUEOriginatingDeregistration" /\ t = "DeregistrationRequest"
                    \/ note = "InitialContextSetupResponse" /\ t = "InitialContextSetupResponseSvc"

TraceInit == /\ cnt = [reg |-> Scn0.counts.reg, pdu |-> Scn0.counts.pdu, svc |-> Scn0.counts.svc, rel |-> Scn0.counts.rel, dereg |-> Scn0.counts.dereg]
             /\ fault = [kind |-> Scn0.fault.kind, at |-> IF Scn0.fault.kind = "none" THEN 0 ELSE Scn0.fault.at,
                         fired |-> FALSE, closed |-> FALSE, ioAfter |-> FALSE]
             /\ InitRest
             /\ l = 2 /\ na = 0

\* an observed write of the emulator
TraceUl == /\ l <= Len(Trace) /\ Trace[l].ev = "ul"
           /\ (EmuNGSetupSend \/ EmuStep)
           /\ Len(ul') = Len(ul) + 1 /\ exit' = exit
           /\ LET m == ul'[Len(ul')] e == Trace[l] IN Matches(e.t, m.t) /\ m.u = e.u /\ m.cnt = e.cnt
           /\ l' = l + 1 /\ na' = na
\* an unobserved read of the emulator (one that does not kill it)
TraceRead == /\ (EmuNGSetupRecv \/ EmuStep)
             /\ ul' = ul /\ exit' = exit
             /\ UNCHANGED <<l, na>>
\* the AMF consumes the next uplink message; without a fault it answers with as many messages as the concrete AMF did
TraceAmf == /\ na < Len(UlLines)
            /\ AmfRecv
            /\ (fault.kind = "none" => Len(dl') = Len(dl) + UlLines[na + 1].nout)
            /\ (fault.kind = "none" /\ UlLines[na + 1].bad = 0 => bad' = {})
            /\ na' = na + 1 /\ l' = l
\* the end of the process
Observed(e) == {<<r.u, IF r.ok THEN Assigned(r.u) ELSE -1>> : r \in {e.reports[i] : i \in 1..Len(e.reports)}}
TraceExit == /\ l <= Len(Trace) /\ Trace[l].ev = "exit"
             /\ (EmuFinish \/ EmuStep \/ EmuNGSetupSend \/ EmuNGSetupRecv)
             /\ exit' # -1 /\ ul' = ul
             /\ LET e == Trace[l] IN
                /\ (exit' = 0) = (e.code = 0)
                /\ banner' = e.banner
                /\ Observed(e) \subseteq reports'
                /\ (e.code = 0 => Observed(e) = reports')
             /\ l' = l + 1 /\ na' = na
TraceNext == TraceUl \/ TraceRead \/ TraceAmf \/ TraceExit

\* acceptance: the deepest line reached by any interleaving (single worker); a rejected run is reported, not an error of TLC
ASSUME TLCSet(1, 0)
HighWater == TLCSet(1, IF TLCGet(1) < l THEN l ELSE TLCGet(1))
Describe(e) == IF e.ev = "ul" THEN "uplink message " \o ToString(e.k) \o " (" \o e.t \o " of UE " \o ToString(e.u) \o ", NAS COUNT " \o ToString(e.cnt) \o ")"
               ELSE IF e.ev = "exit" THEN "exit with status " \o ToString(e.code) \o ", banner " \o ToString(e.banner) \o ", session reports " \o ToString(e.reports)
               ELSE "the emulator hangs (no exit within the deadline)"
Accepted == LET h == TLCGet(1) IN
            IF h = Len(Trace) + 1 THEN TRUE
            ELSE PrintT("REJECT line=" \o ToString(h) \o " id=" \o ToString(h) \o " ev=" \o Trace[h].ev
                        \o " why=no behaviour of the system specification (Stg.tla) explains the run from here on: " \o Describe(Trace[h]))
=============================================================================
