------------------------------- MODULE Sha256 -------------------------------
(***************************************************************************)
(* SHA-256 (FIPS 180-4), HMAC (RFC 2104) and the TS 33.220 B.2 KDF.        *)
(* A 32-bit word is <<hi16, lo16>>.                                        *)
(***************************************************************************)
EXTENDS Bytes

ShaK == <<<<17034,12184>>,<<28983,17553>>,<<46528,64463>>,<<59829,56229>>,<<14678,49755>>,<<23025,4593>>,<<37439,33444>>,<<43804,24277>>,<<55303,43672>>,<<4739,23297>>,<<9265,34238>>,<<21772,32195>>,<<29374,23924>>,<<32990,45566>>,<<39900,1703>>,<<49563,61812>>,<<58523,27073>>,<<61374,18310>>,<<4033,40390>>,<<9228,41420>>,<<11753,11375>>,<<19060,33962>>,<<23728,43484>>,<<30457,35034>>,<<38974,20818>>,<<43057,50797>>,<<45059,10184>>,<<48985,32711>>,<<50912,3059>>,<<54695,37191>>,<<1738,25425>>,<<5161,10599>>,<<10167,2693>>,<<11803,8504>>,<<19756,28156>>,<<21304,3347>>,<<25866,29524>>,<<30314,2747>>,<<33218,51502>>,<<37490,11397>>,<<41663,59553>>,<<43034,26187>>,<<49739,35696>>,<<51052,20899>>,<<53650,59417>>,<<54937,1572>>,<<62478,13701>>,<<4202,41072>>,<<6564,49430>>,<<7735,27656>>,<<10056,30540>>,<<13488,48309>>,<<14620,3251>>,<<20184,43594>>,<<23452,51791>>,<<26670,28659>>,<<29839,33518>>,<<30885,25455>>,<<33992,30740>>,<<36039,520>>,<<37054,65530>>,<<42064,27883>>,<<48889,41975>>,<<50801,30962>>>>
ShaH0 == <<<<27145,58983>>,<<47975,44677>>,<<15470,62322>>,<<42319,62778>>,<<20750,21119>>,<<39685,26764>>,<<8067,55723>>,<<23520,52505>>>>
WX(a, b) == <<a[1] ^^ b[1], a[2] ^^ b[2]>>
WA(a, b) == <<a[1] & b[1], a[2] & b[2]>>
WN(a) == <<65535 - a[1], 65535 - a[2]>>
WAdd(a, b) == LET lo == a[2] + b[2] hi == a[1] + b[1] + (lo \div 65536) IN <<hi % 65536, lo % 65536>>
WRotR(a, n) == IF n = 16 THEN <<a[2], a[1]>> ELSE
   LET m == IF n > 16 THEN n - 16 ELSE n
       h == IF n > 16 THEN a[2] ELSE a[1]
       l == IF n > 16 THEN a[1] ELSE a[2]
       p == 2^m  q == 2^(16 - m)
   IN << (h \div p) + (l % p) * q, (l \div p) + (h % p) * q >>
WShR(a, n) == LET p == 2^n q == 2^(16 - n) IN << a[1] \div p, (a[2] \div p) + (a[1] % p) * q >>
WX3(a, b, c) == WX(WX(a, b), c)
ShaBS0(x) == WX3(WRotR(x, 2), WRotR(x, 13), WRotR(x, 22))
ShaBS1(x) == WX3(WRotR(x, 6), WRotR(x, 11), WRotR(x, 25))
ShaSS0(x) == WX3(WRotR(x, 7), WRotR(x, 18), WShR(x, 3))
ShaSS1(x) == WX3(WRotR(x, 17), WRotR(x, 19), WShR(x, 10))
ShaCh(x, y, z) == WX(WA(x, y), WA(WN(x), z))
ShaMaj(x, y, z) == WX3(WA(x, y), WA(x, z), WA(y, z))
RECURSIVE ShaSched(_, _)
ShaSched(w, i) == IF i > 64 THEN w ELSE
   ShaSched(Append(w, WAdd(WAdd(ShaSS1(w[i - 2]), w[i - 7]), WAdd(ShaSS0(w[i - 15]), w[i - 16]))), i + 1)
RECURSIVE ShaRnd(_, _, _)
ShaRnd(s, w, i) == IF i > 64 THEN s ELSE
   LET a == s[1] b == s[2] c == s[3] d == s[4] e == s[5] f == s[6] g == s[7] h == s[8]
       t1 == WAdd(WAdd(WAdd(h, ShaBS1(e)), WAdd(ShaCh(e, f, g), ShaK[i])), w[i])
       t2 == WAdd(ShaBS0(a), ShaMaj(a, b, c))
   IN ShaRnd(<<WAdd(t1, t2), a, b, c, WAdd(d, t1), e, f, g>>, w, i + 1)
ShaCompress(hs, blk) ==
   LET w16 == Tup([i \in 1..16 |-> <<blk[4 * i - 3] * 256 + blk[4 * i - 2], blk[4 * i - 1] * 256 + blk[4 * i]>>])
       w == ShaSched(w16, 17)
       r == ShaRnd(hs, w, 1)
   IN Tup([i \in 1..8 |-> WAdd(hs[i], r[i])])
ShaPad(msg) == LET L == Len(msg)
                   k == (55 - L) % 64
                   bits == L * 8
               IN msg \o <<128>> \o Zeros(k) \o <<0, 0, 0, 0, (bits \div 16777216) % 256, (bits \div 65536) % 256, (bits \div 256) % 256, bits % 256>>
RECURSIVE ShaBlocks(_, _)
ShaBlocks(hs, m) == IF Len(m) = 0 THEN hs ELSE ShaBlocks(ShaCompress(hs, SubSeq(m, 1, 64)), SubSeq(m, 65, Len(m)))
WBytes(x) == <<x[1] \div 256, x[1] % 256, x[2] \div 256, x[2] % 256>>
Sha256(msg) == LET hs == ShaBlocks(ShaH0, ShaPad(msg)) IN
   WBytes(hs[1]) \o WBytes(hs[2]) \o WBytes(hs[3]) \o WBytes(hs[4]) \o WBytes(hs[5]) \o WBytes(hs[6]) \o WBytes(hs[7]) \o WBytes(hs[8])
HmacSha256(key, msg) == LET k0 == IF Len(key) > 64 THEN Sha256(key) ELSE key
                            kp == k0 \o Zeros(64 - Len(k0))
                            ip == Tup([i \in 1..64 |-> kp[i] ^^ 54])
                            op == Tup([i \in 1..64 |-> kp[i] ^^ 92])
                        IN Sha256(op \o Sha256(ip \o msg))

(***************************************************************************)
(* TS 33.220 B.2: S = FC || P0 || L0 || P1 || L1 ...; key = HMAC-SHA-256   *)
(***************************************************************************)
RECURSIVE KdfS(_)
KdfS(ps) == IF Len(ps) = 0 THEN <<>> ELSE Head(ps) \o BE(Len(Head(ps)), 2) \o KdfS(Tail(ps))
Kdf(key, fc, ps) == HmacSha256(key, <<fc>> \o KdfS(ps))
=============================================================================
