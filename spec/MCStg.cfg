CONSTANTS MaxCnt = 2 Faults = {"none", "close", "closeafter", "garbage"}
SPECIFICATION Spec
INVARIANT AmfNeverRejects
INVARIANT CountFresh
INVARIANT Prereq
INVARIANT ReportedIsAssigned
INVARIANT FailStopSafe
PROPERTY Completes
PROPERTY Terminates
CHECK_DEADLOCK FALSE
