// Package ev: ndjson event writer and deterministic generators shared by the recorders.
// The recorders are dumb: they call the real code and log arguments and results;
// every expectation is computed by TLC from the TLA+ specification.
package ev

import (
	"bufio"
	"encoding/json"
	"fmt"
	"math/rand"
	"os"
)

type M = map[string]interface{}

type Writer struct {
	f *os.File
	w *bufio.Writer
	N int
}

func Create(path string) *Writer {
	f, err := os.Create(path)
	if err != nil {
		fmt.Fprintln(os.Stderr, "HARNESS-ERROR:", err)
		os.Exit(2)
	}
	return &Writer{f: f, w: bufio.NewWriterSize(f, 1<<20)}
}

func (w *Writer) Emit(m M) {
	b, err := json.Marshal(m)
	if err != nil {
		fmt.Fprintln(os.Stderr, "HARNESS-ERROR:", err)
		os.Exit(2)
	}
	w.w.Write(b)
	w.w.WriteByte('\n')
	w.N++
}

func (w *Writer) Close() {
	w.w.Flush()
	w.f.Close()
}

// Ints renders bytes as a JSON array of numbers (TLC reads them as a sequence of octets).
func Ints(b []byte) []int {
	r := make([]int, len(b))
	for i, x := range b {
		r[i] = int(x)
	}
	return r
}

func BE32(v uint32) []int { return []int{int(v >> 24), int(v >> 16 & 255), int(v >> 8 & 255), int(v & 255)} }

func Rng(seed int64, salt string) *rand.Rand {
	h := int64(1469598103934665603)
	for _, c := range salt {
		h ^= int64(c)
		h *= 1099511628211
	}
	return rand.New(rand.NewSource(seed*1000003 + h))
}

func Bytes(r *rand.Rand, n int) []byte {
	b := make([]byte, n)
	r.Read(b)
	return b
}

// Corner16 returns corner-case or random 16-octet values.
func Corner16(r *rand.Rand) []byte {
	switch r.Intn(8) {
	case 0:
		return make([]byte, 16)
	case 1:
		b := make([]byte, 16)
		for i := range b {
			b[i] = 0xff
		}
		return b
	}
	return Bytes(r, 16)
}

// Catch runs f and reports a panic as a string ("" when none).
func Catch(f func()) (p string) {
	defer func() {
		if x := recover(); x != nil {
			p = fmt.Sprint(x)
		}
	}()
	f()
	return ""
}
