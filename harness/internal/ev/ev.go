// Package ev: ndjson event writer and deterministic generators shared by the recorders.
// The recorders are dumb: they call the real code and log arguments and results;
// every expectation is computed by TLC from the TLA+ specification.
package ev

import (
	"bufio"
	"encoding/json"
	"fmt"
	"math/rand"
	"os"
)

type M = map[string]interface{}

type Writer struct {
	f *os.File
	w *bufio.Writer
	N int
}

func Create(path string) *Writer {
	f, err := os.Create(path)
	if err != nil {
		fmt.Fprintln(os.Stderr, "HARNESS-ERROR:", err)
		os.Exit(2)
	}
	return &Writer{f: f, w: bufio.NewWriterSize(f, 1<<20)}
}

func (w *Writer) Emit(m M) {
	b, err := json.Marshal(m)
	if err != nil {
		fmt.Fprintln(os.Stderr, "HARNESS-ERROR:", err)
		os.Exit(2)
	}
	w.w.Write(b)
	w.w.WriteByte('\n')
	w.N++
}

func (w *Writer) Close() {
	if heldN > 0 {
		// results (and argument buffers) the recorder kept a reference to: a later call must not have changed them
		w.Emit(M{"ev": "Held", "id": "held", "n": heldN, "changed": HeldChanged()})
	}
	w.w.Flush()
	w.f.Close()
}

type held struct {
	what string
	ref  []byte
	snap []byte
}

var holds []held
var heldN int

// Hold keeps a reference to a byte slice the real code returned (or was given) together with a copy of its present contents.
// When the trace is closed, every kept slice is compared with its copy: a result that aliases a recycled buffer, a shared scratch
// area or another caller's storage has changed by then.  At most 20000 slices are kept (the first 10000 and the latest 10000).
func Hold(what string, b []byte) []byte {
	heldN++
	if len(b) == 0 {
		return b
	}
	h := held{what, b, append([]byte{}, b...)}
	if len(holds) < 20000 {
		holds = append(holds, h)
	} else {
		holds[10000+heldN%10000] = h
	}
	return b
}

// HeldChanged lists (at most 20, without repetition) the descriptions of the kept slices whose contents changed.
func HeldChanged() []string {
	out := []string{}
	seen := map[string]bool{}
	for _, h := range holds {
		same := len(h.ref) == len(h.snap)
		for i := 0; same && i < len(h.snap); i++ {
			same = h.ref[i] == h.snap[i]
		}
		if !same && !seen[h.what] && len(out) < 20 {
			seen[h.what] = true
			out = append(out, h.what)
		}
	}
	return out
}

// Ints renders bytes as a JSON array of numbers (TLC reads them as a sequence of octets).
func Ints(b []byte) []int {
	r := make([]int, len(b))
	for i, x := range b {
		r[i] = int(x)
	}
	return r
}

func BE32(v uint32) []int { return []int{int(v >> 24), int(v >> 16 & 255), int(v >> 8 & 255), int(v & 255)} }

func Rng(seed int64, salt string) *rand.Rand {
	h := int64(1469598103934665603)
	for _, c := range salt {
		h ^= int64(c)
		h *= 1099511628211
	}
	return rand.New(rand.NewSource(seed*1000003 + h))
}

func Bytes(r *rand.Rand, n int) []byte {
	b := make([]byte, n)
	r.Read(b)
	return b
}

// Corner16 returns corner-case or random 16-octet values.
func Corner16(r *rand.Rand) []byte {
	switch r.Intn(8) {
	case 0:
		return make([]byte, 16)
	case 1:
		b := make([]byte, 16)
		for i := range b {
			b[i] = 0xff
		}
		return b
	}
	return Bytes(r, 16)
}

// Catch runs f and reports a panic as a string ("" when none).
func Catch(f func()) (p string) {
	defer func() {
		if x := recover(); x != nil {
			p = fmt.Sprint(x)
		}
	}()
	f()
	return ""
}
