// Package treeexp turns aper-tagged Go values and types into the "typed trees" of spec/Per.tla
// (value trees carrying their constraints, and type trees with named references), and generates
// random constraint-satisfying values by reflection.  It interprets the struct tags exactly like a
// reader of the ASN.1 would: it is a translation of syntax, not an encoder.
package treeexp

import (
	"fmt"
	"math/rand"
	"reflect"
	"strconv"
	"strings"

	"free5gclib/aper"
	"free5gclib/ngap/ngapType"
)

type M = map[string]interface{}

type Params struct {
	Optional, SizeExt, ValueExt, OpenType bool
	SizeLB, SizeUB, ValueLB, ValueUB      *int64
	RefName                               string
	RefValue                              *int64
	Raw                                   string
}

func Parse(tag string) (p Params) {
	p.Raw = tag
	for _, part := range strings.Split(tag, ",") {
		geti := func(pre string) *int64 {
			i, err := strconv.ParseInt(part[len(pre):], 10, 64)
			if err != nil {
				return nil
			}
			return &i
		}
		switch {
		case part == "optional":
			p.Optional = true
		case part == "sizeExt":
			p.SizeExt = true
		case part == "valueExt":
			p.ValueExt = true
		case part == "openType":
			p.OpenType = true
		case strings.HasPrefix(part, "sizeLB:"):
			p.SizeLB = geti("sizeLB:")
		case strings.HasPrefix(part, "sizeUB:"):
			p.SizeUB = geti("sizeUB:")
		case strings.HasPrefix(part, "valueLB:"):
			p.ValueLB = geti("valueLB:")
		case strings.HasPrefix(part, "valueUB:"):
			p.ValueUB = geti("valueUB:")
		case strings.HasPrefix(part, "referenceFieldName:"):
			p.RefName = part[19:]
		case strings.HasPrefix(part, "referenceFieldValue:"):
			p.RefValue = geti("referenceFieldValue:")
		}
	}
	return
}

// Num renders an integer: {"n": i} below 2^30 in magnitude, else {"big": minimal big-endian octets} (non-negative only).
func Num(i int64) M {
	if i > -(1<<30) && i < 1<<30 {
		return M{"n": i}
	}
	if i < 0 {
		return M{"n": i} // negative values of large magnitude are outside the modelled domain; generators avoid them
	}
	var b []int
	for x := uint64(i); x > 0; x >>= 8 {
		b = append([]int{int(x & 0xff)}, b...)
	}
	return M{"big": b}
}

func Bound(p *int64) M {
	if p == nil {
		return M{"has": false}
	}
	m := Num(*p)
	m["has"] = true
	return m
}

func Ints(b []byte) []int {
	r := make([]int, len(b))
	for i, x := range b {
		r[i] = int(x)
	}
	return r
}

func invalid(why string) M { return M{"k": "invalid", "why": why} }

func isChoiceLike(t reflect.Type) bool {
	return t.Kind() == reflect.Struct && t.NumField() > 0 && t.Field(0).Name == "Present"
}

// refValueOf returns the integer a reference field (struct{Value int64} or int) holds.
func refValueOf(v reflect.Value) (int64, bool) {
	for v.Kind() == reflect.Ptr {
		if v.IsNil() {
			return 0, false
		}
		v = v.Elem()
	}
	switch v.Kind() {
	case reflect.Int, reflect.Int32, reflect.Int64:
		return v.Int(), true
	case reflect.Struct:
		if v.NumField() > 0 {
			return refValueOf(v.Field(0))
		}
	}
	return 0, false
}

// Export renders the Go value v (described by the tag parameters p of the field holding it) as a value tree.
func Export(v reflect.Value, p Params) M {
	if !v.IsValid() {
		return invalid("invalid reflect value")
	}
	if v.Kind() == reflect.Ptr || v.Kind() == reflect.Interface {
		if v.IsNil() {
			return invalid("nil component")
		}
		return Export(v.Elem(), p)
	}
	t := v.Type()
	switch t {
	case aper.BitStringType:
		bs := v.Interface().(aper.BitString)
		return M{"k": "bitstr", "lb": Bound(p.SizeLB), "ub": Bound(p.SizeUB), "ext": p.SizeExt, "nbits": bs.BitLength, "v": Ints(bs.Bytes)}
	case aper.OctetStringType:
		return M{"k": "octstr", "lb": Bound(p.SizeLB), "ub": Bound(p.SizeUB), "ext": p.SizeExt, "v": Ints(v.Bytes())}
	case aper.EnumeratedType:
		if p.ValueUB == nil {
			return invalid("enumeration without bound")
		}
		return M{"k": "enum", "ub": Bound(p.ValueUB), "ext": p.ValueExt, "v": v.Uint()}
	case aper.ObjectIdentifierType:
		return invalid("OBJECT IDENTIFIER is not supported")
	}
	switch v.Kind() {
	case reflect.Bool:
		return M{"k": "bool", "v": v.Bool()}
	case reflect.Int, reflect.Int32, reflect.Int64:
		return M{"k": "int", "lb": Bound(p.ValueLB), "ub": Bound(p.ValueUB), "ext": p.ValueExt, "v": Num(v.Int())}
	case reflect.String:
		return M{"k": "octstr", "lb": Bound(p.SizeLB), "ub": Bound(p.SizeUB), "ext": p.SizeExt, "v": Ints([]byte(v.String()))}
	case reflect.Slice:
		el := []M{}
		ep := p
		ep.SizeExt, ep.SizeLB, ep.SizeUB = false, nil, nil
		for i := 0; i < v.Len(); i++ {
			el = append(el, Export(v.Index(i), ep))
		}
		return M{"k": "seqof", "lb": Bound(p.SizeLB), "ub": Bound(p.SizeUB), "ext": p.SizeExt, "v": el}
	case reflect.Struct:
		if isChoiceLike(t) {
			present := int(v.Field(0).Int())
			if present <= 0 || present >= t.NumField() {
				return invalid("CHOICE / open type without a selected alternative")
			}
			fp := Parse(t.Field(present).Tag.Get("aper"))
			if p.OpenType {
				ref, alt := int64(-1), int64(-2)
				if p.RefValue != nil {
					ref = *p.RefValue
				}
				if fp.RefValue != nil {
					alt = *fp.RefValue
				}
				return M{"k": "open", "ref": ref, "altref": alt, "v": Export(v.Field(present), fp)}
			}
			if p.ValueUB == nil {
				return invalid("CHOICE without bound")
			}
			return M{"k": "choice", "ub": Bound(p.ValueUB), "ext": p.ValueExt, "idx": present - 1, "v": Export(v.Field(present), fp)}
		}
		fields := []M{}
		for i := 0; i < t.NumField(); i++ {
			fp := Parse(t.Field(i).Tag.Get("aper"))
			f := M{"name": t.Field(i).Name, "opt": fp.Optional}
			fv := v.Field(i)
			if fp.Optional && (fv.Kind() == reflect.Ptr || fv.Kind() == reflect.Slice) && fv.IsNil() {
				f["present"] = false
			} else {
				f["present"] = true
				if fp.OpenType {
					// the open type is tied to the value of the referenced sibling field
					for j := 0; j < i; j++ {
						if t.Field(j).Name == fp.RefName {
							if rv, ok := refValueOf(v.Field(j)); ok {
								fp.RefValue = &rv
							}
						}
					}
				}
				f["v"] = Export(fv, fp)
			}
			fields = append(fields, f)
		}
		return M{"k": "seq", "ext": p.ValueExt, "fields": fields}
	}
	return invalid("unsupported Go kind " + t.String())
}

// ---------------------------------------------------------------------------------------------------------------
// type trees (schema) with named references
// ---------------------------------------------------------------------------------------------------------------
type Schema struct {
	Types map[string]M
}

func NewSchema() *Schema { return &Schema{Types: map[string]M{}} }

func (s *Schema) TypeOf(t reflect.Type, p Params) M {
	for t.Kind() == reflect.Ptr {
		t = t.Elem()
	}
	switch t {
	case aper.BitStringType:
		return M{"k": "bitstr", "lb": Bound(p.SizeLB), "ub": Bound(p.SizeUB), "ext": p.SizeExt}
	case aper.OctetStringType:
		return M{"k": "octstr", "lb": Bound(p.SizeLB), "ub": Bound(p.SizeUB), "ext": p.SizeExt}
	case aper.EnumeratedType:
		return M{"k": "enum", "ub": Bound(p.ValueUB), "ext": p.ValueExt}
	case aper.ObjectIdentifierType:
		return M{"k": "unsupported"}
	}
	switch t.Kind() {
	case reflect.Bool:
		return M{"k": "bool"}
	case reflect.Int, reflect.Int32, reflect.Int64:
		return M{"k": "int", "lb": Bound(p.ValueLB), "ub": Bound(p.ValueUB), "ext": p.ValueExt}
	case reflect.String:
		return M{"k": "octstr", "lb": Bound(p.SizeLB), "ub": Bound(p.SizeUB), "ext": p.SizeExt}
	case reflect.Slice:
		ep := p
		ep.SizeExt, ep.SizeLB, ep.SizeUB = false, nil, nil
		return M{"k": "seqof", "lb": Bound(p.SizeLB), "ub": Bound(p.SizeUB), "ext": p.SizeExt, "t": s.TypeOf(t.Elem(), ep)}
	case reflect.Struct:
		// structure types are named: the same Go type under the same relevant tag parameters
		key := t.Name() + "|" + fmt.Sprint(p.ValueExt, p.OpenType, p.RefName, deref(p.ValueUB))
		if t.Name() == "" {
			key = t.String() + "|" + key
		}
		if _, ok := s.Types[key]; !ok {
			s.Types[key] = M{"k": "pending"}
			s.Types[key] = s.structType(t, p)
		}
		return M{"k": "ref", "name": key}
	}
	return M{"k": "unsupported"}
}

func deref(p *int64) int64 {
	if p == nil {
		return -1
	}
	return *p
}

func (s *Schema) structType(t reflect.Type, p Params) M {
	if isChoiceLike(t) {
		alts := []M{}
		for i := 1; i < t.NumField(); i++ {
			fp := Parse(t.Field(i).Tag.Get("aper"))
			a := M{"name": t.Field(i).Name, "t": s.TypeOf(t.Field(i).Type, fp)}
			if p.OpenType {
				a["ref"] = deref(fp.RefValue)
			}
			alts = append(alts, a)
		}
		if p.OpenType {
			return M{"k": "open", "ref": p.RefName, "alts": alts}
		}
		return M{"k": "choice", "ub": Bound(p.ValueUB), "ext": p.ValueExt, "alts": alts}
	}
	fields := []M{}
	for i := 0; i < t.NumField(); i++ {
		fp := Parse(t.Field(i).Tag.Get("aper"))
		fields = append(fields, M{"name": t.Field(i).Name, "opt": fp.Optional, "t": s.TypeOf(t.Field(i).Type, fp)})
	}
	return M{"k": "seq", "ext": p.ValueExt, "fields": fields}
}

// ---------------------------------------------------------------------------------------------------------------
// random constraint-satisfying values
// ---------------------------------------------------------------------------------------------------------------
type Gen struct {
	R        *rand.Rand
	MaxList  int // extra elements above the lower bound
	MinList  int // if > 0: lists near the top of the value (the protocol IE lists) get at least this many elements
	Full     int // 1: every protocol IE alternative of a list once, in declared order, every OPTIONAL present, CHOICE alternatives in rotation; 2: every OPTIONAL absent, lists at their lower bound
	forceAlt int // alternative the next open type must take (Full mode)
	rot      int
	Rich     bool // prefer CHOICE alternatives with content (structures, lists) over empty extension containers and enumerations; use extension values of extensible INTEGERs
	MaxStr   int
	Depth    int
	BadProb  float64 // probability of deliberately violating a constraint at a leaf
	Violated bool
}

func (g *Gen) pickSize(lb, ub *int64, ext bool, soft int) int {
	lo, hi := int64(0), int64(-1)
	if lb != nil {
		lo = *lb
	}
	if ub != nil {
		hi = *ub
	}
	if g.BadProb > 0 && g.R.Float64() < g.BadProb && !ext {
		if hi >= 0 && hi < 70000 && g.R.Intn(2) == 0 {
			g.Violated = true
			return int(hi + 1 + int64(g.R.Intn(2)))
		}
		if lo > 0 {
			g.Violated = true
			return int(lo - 1)
		}
	}
	cands := []int64{lo, lo, lo + 1, lo + int64(g.R.Intn(soft+1))}
	if hi >= 0 {
		if hi <= lo+int64(soft) {
			cands = append(cands, hi, hi)
		} else if g.R.Intn(20) == 0 && hi <= 20000 {
			cands = append(cands, hi) // occasionally the upper bound even when it is large
		}
	}
	for _, s := range []int64{127, 128, 129, 255, 256} {
		if g.R.Intn(40) == 0 && s >= lo && (hi < 0 || s <= hi) {
			cands = append(cands, s)
		}
	}
	n := cands[g.R.Intn(len(cands))]
	if hi >= 0 && n > hi {
		n = hi
	}
	return int(n)
}

func (g *Gen) pickInt(lb, ub *int64, ext bool) int64 {
	if lb == nil && ub == nil {
		c := []int64{0, 1, -1, 127, 128, -128, -129, 32767, 32768, -32768, -32769, int64(g.R.Intn(1 << 24)), -int64(g.R.Intn(1 << 24))}
		return c[g.R.Intn(len(c))]
	}
	lo := int64(0)
	if lb != nil {
		lo = *lb
	}
	if ub == nil {
		c := []int64{lo, lo + 1, lo + 127, lo + 128, lo + 255, lo + 256, lo + 65535, lo + 65536, lo + int64(g.R.Intn(1<<24))}
		return c[g.R.Intn(len(c))]
	}
	hi := *ub
	if g.Rich && ext && hi < 1<<50 && g.R.Intn(3) == 0 {
		return hi + 1 + int64(g.R.Intn(300)) // an extension value: encoded with the extension bit set, as an unconstrained INTEGER
	}
	if g.BadProb > 0 && g.R.Float64() < g.BadProb && !ext && hi < 1<<50 {
		g.Violated = true
		if g.R.Intn(2) == 0 && lo > -(1<<29) {
			return lo - 1
		}
		return hi + 1
	}
	c := []int64{lo, hi, lo + (hi-lo)/2}
	if hi > lo {
		c = append(c, lo+1, hi-1, lo+g.R.Int63n(hi-lo+1))
	}
	for _, k := range []uint{7, 8, 15, 16, 23, 24, 31, 32, 39} {
		for _, d := range []int64{-1, 0, 1} {
			x := lo + (int64(1) << k) + d
			if x >= lo && x <= hi {
				c = append(c, x)
			}
		}
	}
	return c[g.R.Intn(len(c))]
}

// Fill sets v (addressable) to a random value of its type under tag parameters p.
func (g *Gen) Fill(v reflect.Value, p Params, depth int) {
	t := v.Type()
	if t.Kind() == reflect.Ptr {
		v.Set(reflect.New(t.Elem()))
		g.Fill(v.Elem(), p, depth)
		return
	}
	switch t {
	case aper.BitStringType:
		n := g.pickSize(p.SizeLB, p.SizeUB, p.SizeExt, 40)
		b := make([]byte, (n+7)/8)
		g.R.Read(b)
		if n%8 != 0 && g.R.Intn(4) != 0 {
			// one value in four keeps random unused bits behind the last bit: they are not part of the value and must not reach the wire
			b[len(b)-1] &= 0xff << uint(8-n%8)
		}
		v.Set(reflect.ValueOf(aper.BitString{Bytes: b, BitLength: uint64(n)}))
		return
	case aper.OctetStringType:
		n := g.pickSize(p.SizeLB, p.SizeUB, p.SizeExt, g.MaxStr)
		b := make([]byte, n)
		g.R.Read(b)
		v.Set(reflect.ValueOf(aper.OctetString(b)))
		return
	case aper.EnumeratedType:
		ub := int64(0)
		if p.ValueUB != nil {
			ub = *p.ValueUB
		}
		x := g.R.Int63n(ub + 1)
		if g.BadProb > 0 && g.R.Float64() < g.BadProb {
			x = ub + 1
			g.Violated = true
		}
		v.SetUint(uint64(x))
		return
	case aper.ObjectIdentifierType:
		return
	}
	switch t.Kind() {
	case reflect.Bool:
		v.SetBool(g.R.Intn(2) == 0)
	case reflect.Int, reflect.Int32, reflect.Int64:
		v.SetInt(g.pickInt(p.ValueLB, p.ValueUB, p.ValueExt))
	case reflect.String:
		n := g.pickSize(p.SizeLB, p.SizeUB, p.SizeExt, 30)
		b := make([]byte, n)
		const cs = "ABCDEFGHIJKLMNOPQRSTUVWXYZabcdefghijklmnopqrstuvwxyz0123456789 '()+,-./:=?"
		for i := range b {
			b[i] = cs[g.R.Intn(len(cs))]
		}
		v.SetString(string(b))
	case reflect.Slice:
		soft := g.MaxList
		if depth > 6 {
			soft = 0
		}
		n := g.pickSize(p.SizeLB, p.SizeUB, p.SizeExt, soft)
		if g.MinList > 0 && depth <= 4 && n < g.MinList && (p.SizeUB == nil || int64(g.MinList) <= *p.SizeUB) {
			n = g.MinList
		}
		if n > 300 {
			n = 300
			if p.SizeLB != nil && int64(n) < *p.SizeLB {
				n = int(*p.SizeLB)
			}
		}
		ep := p
		ep.SizeExt, ep.SizeLB, ep.SizeUB = false, nil, nil
		var alts []int // Full mode: a list of protocol IEs gets one element per alternative of its open type
		hasOpen := false
		if g.Full != 0 {
			lo := 0
			if p.SizeLB != nil {
				lo = int(*p.SizeLB)
			}
			n = lo
			if g.Full == 1 {
				if et := t.Elem(); et.Kind() == reflect.Struct {
					for i := 0; i < et.NumField(); i++ {
						if Parse(et.Field(i).Tag.Get("aper")).OpenType && isChoiceLike(et.Field(i).Type) {
							hasOpen = true
							ot := et.Field(i).Type
							for a := 1; a < ot.NumField(); a++ {
								ft := ot.Field(a).Type
								for ft.Kind() == reflect.Ptr {
									ft = ft.Elem()
								}
								if ft.Kind() == reflect.Struct && (ft.NumField() == 0 || hasNoAlternatives(ft)) {
									continue
								}
								alts = append(alts, a)
							}
						}
					}
				}
				if len(alts) > 0 {
					n = len(alts)
				} else if hasOpen {
					n = lo // a protocol IE list whose IE set is empty
				} else if n < 2 && depth <= 7 {
					n = 2
				}
				if p.SizeUB != nil && int64(n) > *p.SizeUB {
					n = int(*p.SizeUB)
				}
			}
		}
		s := reflect.MakeSlice(t, n, n)
		for i := 0; i < n; i++ {
			if i < len(alts) {
				g.forceAlt = alts[i]
			}
			g.Fill(s.Index(i), ep, depth+1)
			g.forceAlt = 0
		}
		v.Set(s)
	case reflect.Struct:
		if isChoiceLike(t) {
			if t.NumField() <= 1 {
				return
			}
			// alternatives that can hold a value: a choice-Extensions container whose IE set is empty (an empty Go structure) denotes no
			// ASN.1 value at all (the library writes nothing for it and cannot read it back) and is never generated
			var real []int
			for a := 1; a < t.NumField(); a++ {
				ft := t.Field(a).Type
				for ft.Kind() == reflect.Ptr {
					ft = ft.Elem()
				}
				if ft.Kind() == reflect.Struct && (ft.NumField() == 0 || hasNoAlternatives(ft)) {
					continue
				}
				real = append(real, a)
			}
			alt := 1 + g.R.Intn(t.NumField()-1)
			if len(real) > 0 {
				alt = real[g.R.Intn(len(real))]
			}
			if g.Full == 1 && len(real) > 0 {
				if g.forceAlt > 0 && p.OpenType {
					alt, g.forceAlt = g.forceAlt, 0
				} else {
					alt = real[g.rot%len(real)]
					g.rot++
				}
				g.FillAlt(v, alt, depth)
				return
			}
			if g.Rich {
				var cands []int
				for _, a := range real {
					ft := t.Field(a).Type
					for ft.Kind() == reflect.Ptr {
						ft = ft.Elem()
					}
					w := 1
					if ft.Kind() == reflect.Struct && ft.NumField() > 1 || ft.Kind() == reflect.Slice {
						w = 4
					}
					if ft.Kind() == reflect.Struct && ft.NumField() == 1 && ft.Field(0).Type.Kind() == reflect.Slice {
						w = 4 // a list wrapped in a structure
					}
					for k := 0; k < w; k++ {
						cands = append(cands, a)
					}
				}
				if len(cands) > 0 {
					alt = cands[g.R.Intn(len(cands))]
				}
			}
			g.FillAlt(v, alt, depth)
			return
		}
		for i := 0; i < t.NumField(); i++ {
			fp := Parse(t.Field(i).Tag.Get("aper"))
			ft := t.Field(i).Type
			if fp.Optional {
				base := ft
				for base.Kind() == reflect.Ptr {
					base = base.Elem()
				}
				empty := base.Kind() == reflect.Struct && hasNoAlternatives(base)
				skip := g.R.Intn(2) == 0
				if g.Full == 1 {
					skip = false
				} else if g.Full == 2 {
					skip = true
				}
				// optional components deep inside a value are left out of random values (size); the full value of a type has them at every
				// depth (an OPTIONAL ten levels down, such as backupAMFName in a served GUAMI item, is a component like any other)
				if empty && g.BadProb > 0 && !g.Violated && g.R.Float64() < g.BadProb*4 && base.NumField() == 1 && base.Field(0).Type.Kind() == reflect.Slice {
					// a deliberate violation: an extension container whose IE set is empty is given an item all the same - an extension
					// field without a value (there is none it could hold); the encoder has to refuse it
					c := reflect.New(base).Elem()
					c.Field(0).Set(reflect.MakeSlice(base.Field(0).Type, 1, 1))
					if ft.Kind() == reflect.Ptr {
						pc := reflect.New(base)
						pc.Elem().Set(c)
						v.Field(i).Set(pc)
					} else {
						v.Field(i).Set(c)
					}
					g.Violated = true
					continue
				}
				if empty || skip || (depth > 8 && g.Full != 1) || depth > 18 {
					continue
				}
			}
			g.Fill(v.Field(i), fp, depth+1)
			if fp.OpenType {
				// set the referenced field to the identifier of the alternative chosen
				ov := v.Field(i)
				for ov.Kind() == reflect.Ptr {
					ov = ov.Elem()
				}
				present := int(ov.Field(0).Int())
				if present > 0 {
					ap := Parse(ov.Type().Field(present).Tag.Get("aper"))
					if ap.RefValue != nil {
						for j := 0; j < i; j++ {
							if t.Field(j).Name == fp.RefName {
								setRef(v.Field(j), *ap.RefValue)
							}
						}
					}
				}
			}
		}
	}
}

// FillAlt selects alternative alt (1-based field index) of a CHOICE / open type value and fills it.
func (g *Gen) FillAlt(v reflect.Value, alt int, depth int) {
	t := v.Type()
	v.Field(0).SetInt(int64(alt))
	fp := Parse(t.Field(alt).Tag.Get("aper"))
	g.Fill(v.Field(alt), fp, depth+1)
}

func setRef(v reflect.Value, x int64) {
	for v.Kind() == reflect.Ptr {
		v = v.Elem()
	}
	switch v.Kind() {
	case reflect.Int, reflect.Int32, reflect.Int64:
		v.SetInt(x)
	case reflect.Struct:
		setRef(v.Field(0), x)
	}
}

// hasNoAlternatives: an extension container whose open type has no alternative cannot hold a value.
func hasNoAlternatives(t reflect.Type) bool {
	if isChoiceLike(t) {
		return t.NumField() <= 1
	}
	// SEQUENCE { List []X } with X{Id, Criticality, ExtensionValue(open, no alternatives)}
	for i := 0; i < t.NumField(); i++ {
		ft := t.Field(i).Type
		for ft.Kind() == reflect.Ptr || ft.Kind() == reflect.Slice {
			ft = ft.Elem()
		}
		if ft.Kind() == reflect.Struct && ft != t {
			fp := Parse(t.Field(i).Tag.Get("aper"))
			if isChoiceLike(ft) && ft.NumField() <= 1 {
				return true
			}
			if !fp.Optional && hasNoAlternatives(ft) {
				return true
			}
		}
	}
	return false
}

// TransferTypes: the transfer containers embedded in NGAP messages as OCTET STRINGs (decoded with aper.UnmarshalWithParams(b, &T{}, "valueExt"))
var TransferTypes = []interface{}{
	ngapType.HandoverCommandTransfer{}, ngapType.HandoverPreparationUnsuccessfulTransfer{},
	ngapType.HandoverRequestAcknowledgeTransfer{}, ngapType.HandoverRequiredTransfer{},
	ngapType.HandoverResourceAllocationUnsuccessfulTransfer{}, ngapType.PDUSessionResourceModifyConfirmTransfer{},
	ngapType.PDUSessionResourceModifyIndicationTransfer{}, ngapType.PDUSessionResourceModifyIndicationUnsuccessfulTransfer{},
	ngapType.PDUSessionResourceModifyRequestTransfer{}, ngapType.PDUSessionResourceModifyResponseTransfer{},
	ngapType.PDUSessionResourceModifyUnsuccessfulTransfer{}, ngapType.PDUSessionResourceNotifyReleasedTransfer{},
	ngapType.PDUSessionResourceNotifyTransfer{}, ngapType.PDUSessionResourceReleaseCommandTransfer{},
	ngapType.PDUSessionResourceReleaseResponseTransfer{}, ngapType.PDUSessionResourceSetupRequestTransfer{},
	ngapType.PDUSessionResourceSetupResponseTransfer{}, ngapType.PDUSessionResourceSetupUnsuccessfulTransfer{},
	ngapType.PathSwitchRequestAcknowledgeTransfer{}, ngapType.PathSwitchRequestSetupFailedTransfer{},
	ngapType.PathSwitchRequestTransfer{}, ngapType.PathSwitchRequestUnsuccessfulTransfer{},
	ngapType.SourceNGRANNodeToTargetNGRANNodeTransparentContainer{}, ngapType.TargetNGRANNodeToSourceNGRANNodeTransparentContainer{},
}
