// rec-crypto: recorder for C07 (NEA/NIA).  Calls security.NASEncrypt / NASMacCalculate
// on a parameter grid and logs arguments and results; TLC (TraceCrypto.tla) judges.
package main

import (
	"bytes"
	"flag"
	"math/rand"

	"free5gclib/nas/security"
	"free5gclib/nas/security/snow3g"
	"verifharness/internal/ev"
)

type tcase struct {
	kind   string // Enc | Mac
	alg    uint8
	key    [16]byte
	count  uint32
	bearer uint8
	dir    uint8
	msg    []byte
	cls    string
}

func main() {
	seed := flag.Int64("seed", 1, "")
	tier := flag.String("tier", "quick", "")
	out := flag.String("out", "crypto.ndjson", "")
	flag.Parse()
	r := ev.Rng(*seed, "crypto")
	w := ev.Create(*out)
	defer w.Close()

	// exhaustive tables (H3)
	sr, sq, ma, da := snow3g.VerifTables()
	mul := make([][]int, 256)
	div := make([][]int, 256)
	for i := 0; i < 256; i++ {
		mul[i] = ev.BE32(ma[i])
		div[i] = ev.BE32(da[i])
	}
	w.Emit(ev.M{"ev": "Tables", "id": "tables", "sr": ev.Ints(sr[:]), "sq": ev.Ints(sq[:]), "mula": mul, "diva": div})
	// S1/S2 on sample words
	for i := 0; i < 64; i++ {
		x := r.Uint32()
		if i < 4 {
			x = []uint32{0, 0xffffffff, 0x01020304, 0x80000001}[i]
		}
		a, b := snow3g.VerifS1S2(x)
		w.Emit(ev.M{"ev": "SBox32", "id": "sbox32", "w": ev.BE32(x), "s1": ev.BE32(a), "s2": ev.BE32(b)})
	}

	maxLen, reps := 40, 1
	if *tier == "thorough" {
		maxLen, reps = 160, 12
	}
	counts := []uint32{0, 1, 1<<24 - 1, 1 << 31, 1<<32 - 1}
	bearers := []uint8{0, 1, 2, 15, 31}
	var cases []tcase
	mk := func(kind string, alg uint8, n int) tcase {
		c := tcase{kind: kind, alg: alg}
		copy(c.key[:], ev.Corner16(r))
		if r.Intn(2) == 0 {
			c.count = counts[r.Intn(len(counts))]
		} else {
			c.count = r.Uint32()
		}
		c.bearer = bearers[r.Intn(len(bearers))]
		if r.Intn(3) == 0 {
			c.bearer = uint8(r.Intn(32))
		}
		c.dir = uint8(r.Intn(2))
		c.msg = ev.Bytes(r, n)
		return c
	}
	for rep := 0; rep < reps; rep++ {
		for n := 1; n <= maxLen; n++ {
			for _, alg := range []uint8{0, 1, 2} {
				if alg == 0 && n > 6 {
					continue
				}
				cases = append(cases, mk("Enc", alg, n))
			}
			for _, alg := range []uint8{1, 2} {
				cases = append(cases, mk("Mac", alg, n))
			}
		}
	}
	// lengths between the two sweeps for all four algorithms, and the joint corners of COUNT / BEARER / DIRECTION for short messages
	for _, n := range []int{64, 65, 96, 1000} {
		for _, alg := range []uint8{1, 2} {
			cases = append(cases, mk("Enc", alg, n), mk("Mac", alg, n))
		}
	}
	for n := 1; n <= 16; n += 5 {
		for _, cnt := range []uint32{0, 1 << 31, 1<<32 - 1} {
			for _, dir := range []uint8{0, 1} {
				for _, br := range []uint8{0, 31} {
					for _, alg := range []uint8{1, 2} {
						for _, kind := range []string{"Enc", "Mac"} {
							c := mk(kind, alg, n)
							c.count, c.dir, c.bearer = cnt, dir, br
							cases = append(cases, c)
						}
					}
				}
			}
		}
	}
	// longer messages (several keystream blocks)
	for _, n := range []int{127, 128, 129, 255, 256, 257, 300, 511, 512, 513, 1000, 2048} {
		if *tier != "thorough" && n > 257 && n != 513 && n != 2048 {
			continue
		}
		for _, alg := range []uint8{1, 2} {
			cases = append(cases, mk("Enc", alg, n), mk("Mac", alg, n))
		}
	}
	// very long messages: more than 256 keystream blocks (a block counter kept in one octet would wrap), a bit length of 2^16 and more
	// (a length field or a window of the keystream generator kept in 16 bits / 2048 words would wrap)
	for _, n := range []int{4112, 8208, 16400, 32784, 65552} {
		if *tier != "thorough" && n > 8208 {
			continue // (the specification's keystream and MAC chains run in shallow recursion, linear in the length: 8 KiB costs TLC seconds)
		}
		cases = append(cases, mk("Enc", 2, n), mk("Enc", 1, n), mk("Mac", 1, n), mk("Mac", 2, n))
	}
	// structured message contents: all-zero and all-one messages, zero blocks of 8 and 16 octets at aligned and unaligned positions inside
	// otherwise random messages (an evaluation that skips "empty" blocks, a keystream or MAC shortcut for zero input), sparse messages
	for _, n := range []int{8, 16, 24, 33, 40, 64} {
		for _, alg := range []uint8{1, 2} {
			for _, kind := range []string{"Enc", "Mac"} {
				for shape := 0; shape < 5; shape++ {
					c := mk(kind, alg, n)
					switch shape {
					case 0:
						for i := range c.msg {
							c.msg[i] = 0
						}
					case 1:
						for i := range c.msg {
							c.msg[i] = 0xff
						}
					case 2: // an aligned zero block in the middle (the MAC input is COUNT|BEARER|DIR = 8 octets, then the message)
						for i := 8; i < 16 && i < n; i++ {
							c.msg[i] = 0
						}
					case 3: // the same one octet later (not aligned)
						for i := 9; i < 25 && i < n; i++ {
							c.msg[i] = 0
						}
					case 4: // sparse: a single non-zero octet at the front and at the end
						for i := 1; i < n-1; i++ {
							c.msg[i] = 0
						}
					}
					cases = append(cases, c)
				}
			}
		}
	}
	// repeat a slice of the cases later in a different order: results must not depend on call order
	nrep := len(cases) / 8
	for i := 0; i < nrep; i++ {
		cases = append(cases, cases[r.Intn(len(cases))])
	}
	rand.New(rand.NewSource(*seed)).Shuffle(len(cases), func(i, j int) { cases[i], cases[j] = cases[j], cases[i] })
	// the very long messages are spread evenly over the trace (the trace is validated in consecutive chunks by parallel TLC processes;
	// SNOW 3G over 8 KiB takes TLC most of a minute)
	var long, short []tcase
	for _, c := range cases {
		if len(c.msg) >= 4000 {
			long = append(long, c)
		} else {
			short = append(short, c)
		}
	}
	if len(long) > 0 {
		cases = cases[:0]
		every := len(short)/len(long) + 1
		for i, c := range short {
			if i%every == every/2 && len(long) > 0 {
				cases = append(cases, long[0])
				long = long[1:]
			}
			cases = append(cases, c)
		}
		cases = append(cases, long...)
	}

	for i, c := range cases {
		e := ev.M{"ev": c.kind, "id": i, "alg": int(c.alg), "key": ev.Ints(c.key[:]), "count": ev.BE32(c.count),
			"bearer": int(c.bearer), "dir": int(c.dir), "in": ev.Ints(c.msg)}
		// every second message is handed over as the front part of a larger buffer (a piece of a received PDU, a reused buffer): what lies
		// behind the message in memory is no argument of the algorithm, and it must still be there afterwards
		inBuf := func(m []byte) ([]byte, []byte) {
			if i%2 == 0 {
				return append([]byte{}, m...), nil
			}
			big := make([]byte, len(m)+40)
			for j := range big {
				big[j] = byte(0xa5 + j)
			}
			copy(big, m)
			return big[:len(m)], big
		}
		tailOK := func(big []byte, n int) bool {
			for j := n; j < len(big); j++ {
				if big[j] != byte(0xa5+j) {
					return false
				}
			}
			return true
		}
		if c.kind == "Enc" {
			buf, big := inBuf(c.msg)
			var err error
			p := ev.Catch(func() { err = security.NASEncrypt(c.alg, c.key, c.count, c.bearer, c.dir, buf) })
			e["out"] = ev.Ints(buf)
			e["err"] = err != nil || p != "" || !tailOK(big, len(c.msg))
			buf2 := append([]byte{}, buf...)
			p2 := ev.Catch(func() { err = security.NASEncrypt(c.alg, c.key, c.count, c.bearer, c.dir, buf2) })
			e["out2"] = ev.Ints(buf2)
			e["err2"] = err != nil || p2 != ""
		} else {
			var mac []byte
			var err error
			msg, big := inBuf(c.msg)
			p := ev.Catch(func() { mac, err = security.NASMacCalculate(c.alg, c.key, c.count, c.bearer, c.dir, msg) })
			ev.Hold("MAC returned by NASMacCalculate", mac)
			e["out"] = ev.Ints(mac)
			e["err"] = err != nil || p != "" || !tailOK(big, len(c.msg)) || !bytes.Equal(msg, c.msg)
		}
		w.Emit(e)
	}
}
