// rec-aka: recorder for C05.  Calls RanUeContext.DeriveRESstarAndSetKey on a structural grid
// (MNC length x SUPI length x ciphering id x integrity id x OP|OPc) with random and corner values.
package main

import (
	"encoding/hex"
	"flag"
	"fmt"
	"math/rand"
	"strings"

	"free5gclib/milenage"
	"tglib"
	"verifharness/internal/ev"
)

func digits(r *rand.Rand, n int) string {
	b := make([]byte, n)
	for i := range b {
		b[i] = byte('0' + r.Intn(10))
	}
	return string(b)
}

func main() {
	seed := flag.Int64("seed", 1, "")
	tier := flag.String("tier", "quick", "")
	out := flag.String("out", "aka.ndjson", "")
	flag.Parse()
	r := ev.Rng(*seed, "aka")
	w := ev.Create(*out)
	defer w.Close()

	type cls struct {
		mncLen, supiLen, enc, integ int
		opOnly                      bool
	}
	var grid []cls
	for _, ml := range []int{2, 3} {
		for sl := 5; sl <= 15; sl++ {
			for enc := 0; enc < 4; enc++ {
				for integ := 0; integ < 4; integ++ {
					for _, oo := range []bool{true, false} {
						grid = append(grid, cls{ml, sl, enc, integ, oo})
					}
				}
			}
		}
	}
	r.Shuffle(len(grid), func(i, j int) { grid[i], grid[j] = grid[j], grid[i] })
	n := 64
	if *tier == "thorough" {
		n = len(grid)
	} else {
		// quick: greedy cover so that every value of every factor occurs
		seen := map[string]bool{}
		var pick []cls
		for _, c := range grid {
			ks := []string{fmt.Sprint("m", c.mncLen), fmt.Sprint("s", c.supiLen), fmt.Sprint("e", c.enc), fmt.Sprint("i", c.integ), fmt.Sprint("o", c.opOnly)}
			nw := false
			for _, k := range ks {
				if !seen[k] {
					nw = true
				}
			}
			if nw || len(pick) < n {
				pick = append(pick, c)
				for _, k := range ks {
					seen[k] = true
				}
			}
			if len(pick) >= n {
				break
			}
		}
		grid = pick
	}
	var prevOp []byte
	var late func(now int)
	for i, c := range grid {
		if i >= n {
			break
		}
		if *tier != "thorough" {
			// quick tier: the factors are cycled by index, so that neighbouring factors meet in all their pairs within the 64 cases
			// (the operator-constant form cycles slower than both algorithm identities: every (enc, int, OP-only) triple within 32 cases)
			c = cls{2 + (i/11)%2, 5 + i%11, i % 4, (i / 4) % 4, (i/16)%2 == 0}
		}
		k, op, rnd := ev.Corner16(r), ev.Corner16(r), ev.Corner16(r)
		if i%4 == 3 && prevOp != nil {
			op = prevOp // subscribers sharing one operator constant under different keys
		}
		prevOp = op
		autn := ev.Bytes(r, 16)
		if i%5 == 0 {
			copy(autn[0:6], []byte{0, 0, 0, 0, 0, 0})
		}
		if i%7 == 0 {
			copy(autn[0:6], []byte{255, 255, 255, 255, 255, 255})
		}
		if i%5 == 1 {
			autn[0] = 0 // a concealed SQN with one leading zero octet (it enters the K_AUSF derivation with its six octets all the same)
		}
		if i%5 == 2 {
			autn[0], autn[1] = 0, 0
		}
		mcc, mnc := digits(r, 3), digits(r, c.mncLen)
		if i%6 == 0 {
			mcc, mnc = "001", "01"[:2]
			if c.mncLen == 3 {
				mnc = "001"
			}
		}
		supi := digits(r, c.supiLen)
		if c.supiLen > 3+c.mncLen {
			supi = mcc + mnc + digits(r, c.supiLen-3-c.mncLen)
		}
		kh, oph := hex.EncodeToString(k), hex.EncodeToString(op)
		opch := ""
		if !c.opOnly {
			opc, err := milenage.GenerateOPC(k, op)
			if err != nil {
				fmt.Println("HARNESS-ERROR", err)
				return
			}
			if i%2 == 0 {
				opc = ev.Bytes(r, 16) // an OPc unrelated to OP: OPc takes precedence
			}
			if i%16 == 6 {
				opc = make([]byte, 16) // the all-zero block is an OPc like any other (not "no OPc")
			}
			opch = hex.EncodeToString(opc)
		}
		if i%4 == 1 { // upper-case hex in the configuration
			kh = fmt.Sprintf("%X", k)
		}
		if i%8 == 5 && opch != "" {
			oph = "" // OPc alone: the OP key of the configuration left empty
		}
		if i%4 == 2 {
			oph = fmt.Sprintf("%X", op)
			if opch != "" {
				opch = strings.ToUpper(opch)
			}
		}
		ue := tglib.NewRanUeContext("imsi-"+supi, 1, uint8(c.enc), uint8(c.integ))
		ue.AuthenticationSubs = tglib.GetAuthSubscription(kh, opch, oph)
		snn := "5G:mnc" + mnc + ".mcc" + mcc + ".3gppnetwork.org"
		if len(mnc) == 2 {
			snn = "5G:mnc0" + mnc + ".mcc" + mcc + ".3gppnetwork.org"
		}
		opcI := []int{}
		if opch != "" {
			b, _ := hex.DecodeString(opch)
			opcI = ev.Ints(b)
		}
		// a subscriber created earlier authenticates (again) now that a later subscriber with other credentials exists: its context must
		// still hold its own K / OP / OPc
		if late != nil && i%2 == 1 {
			late(i)
		}
		{
			ue, k, op, opcI, snn, mnc, mcc, supi, c, i0 := ue, k, op, opcI, snn, mnc, mcc, supi, c, i
			late = func(now int) {
				rnd, autn := ev.Bytes(r, 16), ev.Bytes(r, 16)
				var a16 [16]byte
				copy(a16[:], autn)
				var res []byte
				p := ev.Catch(func() { res = ue.DeriveRESstarAndSetKey(ue.AuthenticationSubs, a16, rnd, snn, mnc, mcc) })
				w.Emit(ev.M{"ev": "Derive", "id": fmt.Sprintf("%d.late%d", i0, now), "round": 9, "k": ev.Ints(k), "op": ev.Ints(op), "opc": opcI, "rand": ev.Ints(rnd), "autn": ev.Ints(autn),
					"mcc": ev.Ints([]byte(mcc)), "mnc": ev.Ints([]byte(mnc)), "supi": ev.Ints([]byte(supi)), "enc": c.enc, "int": c.integ,
					"resStar": ev.Ints(res), "kamf": ev.Ints(ue.Kamf), "kenc": ev.Ints(ue.KnasEnc[:]), "kint": ev.Ints(ue.KnasInt[:]),
					"panic": p != "", "cls": fmt.Sprintf("mnc%d-supi%d-opOnly%v-late", c.mncLen, c.supiLen, c.opOnly)})
			}
		}
		// re-authentication: every third subscriber runs further AKA rounds on the same UE context with a fresh challenge
		rounds := 1
		if i%3 == 0 {
			rounds = 3
		}
		for round := 0; round < rounds; round++ {
			if round == 1 {
				rnd, autn = ev.Bytes(r, 16), ev.Bytes(r, 16)
			}
			if round == 2 {
				// the challenge of the previous round once more (same RAND) with another concealed SQN, for every second of these subscribers
				// from another serving network: nothing of the previous run may be answered again, K_AUSF depends on AUTN, RES* on the network
				autn = ev.Bytes(r, 16)
				if i%6 == 0 {
					mcc, mnc = digits(r, 3), digits(r, len(mnc))
					snn = "5G:mnc" + mnc + ".mcc" + mcc + ".3gppnetwork.org"
					if len(mnc) == 2 {
						snn = "5G:mnc0" + mnc + ".mcc" + mcc + ".3gppnetwork.org"
					}
				}
			}
			var a16 [16]byte
			copy(a16[:], autn)
			var res []byte
			p := ev.Catch(func() { res = ue.DeriveRESstarAndSetKey(ue.AuthenticationSubs, a16, rnd, snn, mnc, mcc) })
			w.Emit(ev.M{"ev": "Derive", "id": fmt.Sprintf("%d.%d", i, round), "round": round, "k": ev.Ints(k), "op": ev.Ints(op), "opc": opcI, "rand": ev.Ints(rnd), "autn": ev.Ints(autn),
				"mcc": ev.Ints([]byte(mcc)), "mnc": ev.Ints([]byte(mnc)), "supi": ev.Ints([]byte(supi)), "enc": c.enc, "int": c.integ,
				"resStar": ev.Ints(res), "kamf": ev.Ints(ue.Kamf), "kenc": ev.Ints(ue.KnasEnc[:]), "kint": ev.Ints(ue.KnasInt[:]),
				"panic": p != "", "cls": fmt.Sprintf("mnc%d-supi%d-opOnly%v-round%d", c.mncLen, c.supiLen, c.opOnly, round)})
		}
		if i%4 == 2 {
			// contexts that did not come out of the constructor with their final identity: a copy of this subscriber's context that was given
			// another SUPI, and a context written down as a struct literal; K_AMF is derived from the SUPI the context holds now
			supi2 := digits(r, len(supi))
			cp := *ue
			cp.Supi = "imsi-" + supi2
			lit := &tglib.RanUeContext{Supi: "imsi-" + supi2, RanUeNgapId: 2, CipheringAlg: uint8(c.enc), IntegrityAlg: uint8(c.integ)}
			for vi, u2 := range []*tglib.RanUeContext{&cp, lit} {
				var a16 [16]byte
				copy(a16[:], autn)
				var res []byte
				p := ev.Catch(func() { res = u2.DeriveRESstarAndSetKey(ue.AuthenticationSubs, a16, rnd, snn, mnc, mcc) })
				w.Emit(ev.M{"ev": "Derive", "id": fmt.Sprintf("%d.other%d", i, vi), "round": 8, "k": ev.Ints(k), "op": ev.Ints(op), "opc": opcI, "rand": ev.Ints(rnd), "autn": ev.Ints(autn),
					"mcc": ev.Ints([]byte(mcc)), "mnc": ev.Ints([]byte(mnc)), "supi": ev.Ints([]byte(supi2)), "enc": c.enc, "int": c.integ,
					"resStar": ev.Ints(res), "kamf": ev.Ints(u2.Kamf), "kenc": ev.Ints(u2.KnasEnc[:]), "kint": ev.Ints(u2.KnasInt[:]),
					"panic": p != "", "cls": fmt.Sprintf("mnc%d-supi%d-opOnly%v-other%d", c.mncLen, c.supiLen, c.opOnly, vi)})
			}
		}
	}
}
