// rec-milenage: recorder for C15.  Calls the milenage library (F1, F2345, GenerateOPC,
// MilenageGenerate, Milenage_check, Milenage_auts) and logs arguments and results.
package main

import (
	"bytes"
	"encoding/hex"
	"flag"

	"free5gclib/CommonConsumerTestData/UDM/TestGenAuthData"
	"free5gclib/milenage"
	"verifharness/internal/ev"
)

func cp(b []byte) []byte { return append([]byte{}, b...) }

func main() {
	seed := flag.Int64("seed", 1, "")
	tier := flag.String("tier", "quick", "")
	out := flag.String("out", "milenage.ndjson", "")
	flag.Parse()
	r := ev.Rng(*seed, "milenage")
	w := ev.Create(*out)
	defer w.Close()
	nbase := 4
	if *tier == "thorough" {
		nbase = 96
	}
	id := 0
	emit := func(m ev.M) { m["id"] = id; id++; w.Emit(m) }

	for b := 0; b < nbase; b++ {
		k, op, rnd := ev.Corner16(r), ev.Corner16(r), ev.Corner16(r)
		if b == 0 { // TS 35.207 test set 1 inputs
			k = []byte{0x46, 0x5b, 0x5c, 0xe8, 0xb1, 0x99, 0xb4, 0x9f, 0xaa, 0x5f, 0x0a, 0x2e, 0xe2, 0x38, 0xa6, 0xbc}
			op = []byte{0xcd, 0xc2, 0x02, 0xd5, 0x12, 0x3e, 0x20, 0xf6, 0x2b, 0x6d, 0x67, 0x6a, 0xc7, 0x2c, 0xb3, 0x18}
			rnd = []byte{0x23, 0x55, 0x3c, 0xbe, 0x96, 0x37, 0xa8, 0x9d, 0x21, 0x8a, 0xe6, 0x4d, 0xae, 0x47, 0xbf, 0x35}
		}
		amf := ev.Bytes(r, 2)
		if b%3 == 1 {
			amf = []byte{0x80, 0x00}
		}
		sqnNet := ev.Bytes(r, 6)
		if b%4 == 1 {
			sqnNet = []byte{0, 0, 0, 0, 0, 1}
		}
		if b == 1 {
			// the test set the repository itself carries (TS 35.208 set 19; its SQN is what GetAuthSubscription installs): inputs from the
			// table, and the table's own outputs are judged like a library result
			t := TestGenAuthData.MilenageTestSet19
			hx := func(x string) []byte { v, _ := hex.DecodeString(x); return v }
			k, op, rnd, sqnNet, amf = hx(t.K), hx(t.OP), hx(t.RAND), hx(t.SQN), hx(t.AMF)
			emit(ev.M{"ev": "F", "k": ev.Ints(k), "op": ev.Ints(op), "rand": ev.Ints(rnd), "sqn": ev.Ints(sqnNet), "amf": ev.Ints(amf),
				"opc": ev.Ints(hx(t.OPC)), "macA": ev.Ints(hx(t.F1)), "macS": ev.Ints(hx(t.F1star)), "res": ev.Ints(hx(t.F2)), "ck": ev.Ints(hx(t.F3)),
				"ik": ev.Ints(hx(t.F4)), "ak": ev.Ints(hx(t.F5)), "akStar": ev.Ints(hx(t.F5star)), "err": false, "table": true})
		}
		if b == 3 { // all-ones key material, all-zero challenge, network SQN zero, AMF all ones
			for i := range k {
				k[i], op[i], rnd[i] = 255, 255, 0
			}
			sqnNet, amf = make([]byte, 6), []byte{255, 255}
		}
		if b == 2 { // corner values: all-ones network SQN, AMF field all zero, all-zero key material
			sqnNet, amf = []byte{255, 255, 255, 255, 255, 255}, []byte{0, 0}
			k, op = make([]byte, 16), make([]byte, 16)
		}

		// f-functions; the caller's buffers must come back unchanged (a later call with the same slices sees the same inputs)
		in0 := [][]byte{append([]byte{}, k...), append([]byte{}, op...), append([]byte{}, rnd...), append([]byte{}, sqnNet...), append([]byte{}, amf...)}
		intact := func() bool {
			return bytes.Equal(in0[0], k) && bytes.Equal(in0[1], op) && bytes.Equal(in0[2], rnd) && bytes.Equal(in0[3], sqnNet) && bytes.Equal(in0[4], amf)
		}
		var opc []byte
		var err error
		p := ev.Catch(func() { opc, err = milenage.GenerateOPC(k, op) })
		macA, macS := make([]byte, 8), make([]byte, 8)
		res, ck, ik, ak, aks := make([]byte, 8), make([]byte, 16), make([]byte, 16), make([]byte, 6), make([]byte, 6)
		var e1, e2 error
		p += ev.Catch(func() { e1 = milenage.F1(opc, k, rnd, sqnNet, amf, macA, macS) })
		p += ev.Catch(func() { e2 = milenage.F2345(opc, k, rnd, res, ck, ik, ak, aks) })
		opcKept := append([]byte{}, opc...)
		emit(ev.M{"ev": "F", "k": ev.Ints(in0[0]), "op": ev.Ints(in0[1]), "rand": ev.Ints(in0[2]), "sqn": ev.Ints(in0[3]), "amf": ev.Ints(in0[4]),
			"opc": ev.Ints(opc), "macA": ev.Ints(macA), "macS": ev.Ints(macS), "res": ev.Ints(res), "ck": ev.Ints(ck),
			"ik": ev.Ints(ik), "ak": ev.Ints(ak), "akStar": ev.Ints(aks), "err": err != nil || e1 != nil || e2 != nil || p != "", "intact": intact()})
		if len(opc) != 16 {
			continue
		}
		copy(k, in0[0])
		copy(op, in0[1])
		copy(rnd, in0[2])
		copy(sqnNet, in0[3])
		copy(amf, in0[4])
		// the same K and RAND under another operator constant, then the first one again: results may depend only on the arguments
		op2 := ev.Corner16(r)
		for _, o := range [][]byte{op2, op} {
			o0 := append([]byte{}, o...)
			var oc []byte
			pp := ev.Catch(func() { oc, err = milenage.GenerateOPC(k, o) })
			mA, mS := make([]byte, 8), make([]byte, 8)
			r2, c2, i2, a2, s2 := make([]byte, 8), make([]byte, 16), make([]byte, 16), make([]byte, 6), make([]byte, 6)
			pp += ev.Catch(func() { e1 = milenage.F1(oc, k, rnd, sqnNet, amf, mA, mS) })
			pp += ev.Catch(func() { e2 = milenage.F2345(oc, k, rnd, r2, c2, i2, a2, s2) })
			// (an OPc returned earlier must not change under its holder either)
			emit(ev.M{"ev": "F", "k": ev.Ints(in0[0]), "op": ev.Ints(o0), "rand": ev.Ints(in0[2]), "sqn": ev.Ints(in0[3]), "amf": ev.Ints(in0[4]),
				"opc": ev.Ints(oc), "macA": ev.Ints(mA), "macS": ev.Ints(mS), "res": ev.Ints(r2), "ck": ev.Ints(c2),
				"ik": ev.Ints(i2), "ak": ev.Ints(a2), "akStar": ev.Ints(s2), "err": err != nil || e1 != nil || e2 != nil || pp != "",
				"intact": bytes.Equal(o, o0) && bytes.Equal(k, in0[0]) && bytes.Equal(rnd, in0[2]) && bytes.Equal(opc, opcKept)})
			copy(o, o0)
		}
		// every subset of the five outputs of f2..f5* requested on its own (nil = not requested)
		for mask := 1; mask < 32; mask++ {
			if b > 1 && mask%5 != b%5 {
				continue // all 31 subsets for the first two base vectors, a sample afterwards
			}
			bufs := [][]byte{make([]byte, 8), make([]byte, 16), make([]byte, 16), make([]byte, 6), make([]byte, 6)}
			args := make([][]byte, 5)
			for j := 0; j < 5; j++ {
				if mask&(1<<uint(j)) != 0 {
					args[j] = bufs[j]
				}
			}
			var e3 error
			pp := ev.Catch(func() { e3 = milenage.F2345(opc, k, rnd, args[0], args[1], args[2], args[3], args[4]) })
			emit(ev.M{"ev": "Fsub", "k": ev.Ints(k), "opc": ev.Ints(opc), "rand": ev.Ints(rnd), "mask": mask, "res": ev.Ints(args[0]), "ck": ev.Ints(args[1]),
				"ik": ev.Ints(args[2]), "ak": ev.Ints(args[3]), "akStar": ev.Ints(args[4]), "err": e3 != nil || pp != ""})
		}

		nchecks, nauts, ngen := 0, 0, 0
		gen := func(sqn []byte) []byte {
			// the inputs lie in one subscriber record, each followed by other data (slices with spare capacity): nothing of the record may
			// change; the RES buffer is 8, 12 or 16 octets long in turn (RES is its first 8 octets whatever room the caller left)
			ngen++
			record := []byte{}
			var offs [5]int
			for j, part := range [][]byte{opc, amf, k, sqn, rnd} {
				offs[j] = len(record)
				record = append(record, part...)
				record = append(record, 0xe1, 0xe2, 0xe3, 0xe4, 0xe5, 0xe6, 0xe7, 0xe8, 0xe9, 0xea)
			}
			kept := append([]byte{}, record...)
			sl := func(j, n int) []byte { return record[offs[j] : offs[j]+n] }
			autn, gik, gck, gak, gres := make([]byte, 16), make([]byte, 16), make([]byte, 16), make([]byte, 6), make([]byte, []int{8, 12, 16}[ngen%3])
			rl := uint(len(gres))
			p := ev.Catch(func() {
				milenage.MilenageGenerate(sl(0, len(opc)), sl(1, len(amf)), sl(2, len(k)), sl(3, len(sqn)), sl(4, len(rnd)), autn, gik, gck, gak, gres, &rl)
			})
			emit(ev.M{"ev": "Gen", "k": ev.Ints(k), "opc": ev.Ints(opc), "rand": ev.Ints(rnd), "sqn": ev.Ints(sqn), "amf": ev.Ints(amf),
				"autn": ev.Ints(autn), "ik": ev.Ints(gik), "ck": ev.Ints(gck), "ak": ev.Ints(gak), "res": ev.Ints(gres[:8]),
				"resLen": int(rl), "err": p != "" || !bytes.Equal(record, kept)})
			return autn
		}
		check := func(autn, sqnMs []byte, cls string) []byte {
			cik, cck, cres, auts := make([]byte, 16), make([]byte, 16), make([]byte, 8), make([]byte, 14)
			var rl uint = 8
			ret := 99
			// the token and the UE's SQN are handed over in buffers the caller keeps: a retransmitted challenge (the same buffers presented
			// again) must get the same verdict, so the event of the second presentation still names the octets the caller put there
			tok, ms := cp(autn), cp(sqnMs)
			p := ev.Catch(func() { ret = milenage.Milenage_check(opc, k, ms, rnd, tok, cik, cck, cres, &rl, auts) })
			emit(ev.M{"ev": "Check", "cls": cls, "k": ev.Ints(k), "opc": ev.Ints(opc), "rand": ev.Ints(rnd), "autn": ev.Ints(autn),
				"sqnMs": ev.Ints(sqnMs), "ret": ret, "ik": ev.Ints(cik), "ck": ev.Ints(cck), "res": ev.Ints(cres),
				"auts": ev.Ints(auts), "panic": p != ""})
			nchecks++
			if nchecks%4 == 0 {
				cik2, cck2, cres2, auts2 := make([]byte, 16), make([]byte, 16), make([]byte, 8), make([]byte, 14)
				ret2 := 99
				p2 := ev.Catch(func() { ret2 = milenage.Milenage_check(opc, k, ms, rnd, tok, cik2, cck2, cres2, &rl, auts2) })
				emit(ev.M{"ev": "Check", "cls": cls + "-again", "k": ev.Ints(k), "opc": ev.Ints(opc), "rand": ev.Ints(rnd), "autn": ev.Ints(autn),
					"sqnMs": ev.Ints(sqnMs), "ret": ret2, "ik": ev.Ints(cik2), "ck": ev.Ints(cck2), "res": ev.Ints(cres2),
					"auts": ev.Ints(auts2), "panic": p2 != ""})
			}
			return auts
		}
		autsCheck := func(auts []byte, cls string) {
			sqn := make([]byte, 6)
			nauts++
			if nauts%2 == 0 {
				sqn = []byte{255, 255, 255, 255, 255, 255} // the caller's buffer may hold anything (a counter of its own, an earlier result)
			}
			ret := 99
			p := ev.Catch(func() { ret = milenage.Milenage_auts(opc, k, rnd, cp(auts), sqn) })
			emit(ev.M{"ev": "Auts", "cls": cls, "k": ev.Ints(k), "opc": ev.Ints(opc), "rand": ev.Ints(rnd), "auts": ev.Ints(auts),
				"ret": ret, "sqn": ev.Ints(sqn), "panic": p != ""})
		}

		autn := gen(sqnNet)
		// UE-side SQN relative to the network's: equal, +-1, differing only in octet i, random
		var ues [][]byte
		ues = append(ues, cp(sqnNet))
		dec, inc := cp(sqnNet), cp(sqnNet)
		for i := 5; i >= 0; i-- {
			dec[i]--
			if dec[i] != 0xff {
				break
			}
		}
		for i := 5; i >= 0; i-- {
			inc[i]++
			if inc[i] != 0 {
				break
			}
		}
		ues = append(ues, dec, inc)
		for i := 0; i < 6; i++ {
			lo, hi := cp(sqnNet), cp(sqnNet)
			if lo[i] > 0 {
				lo[i] = byte(r.Intn(int(lo[i])))
				ues = append(ues, lo)
			}
			if hi[i] < 255 {
				hi[i] = hi[i] + 1 + byte(r.Intn(255-int(hi[i])))
				ues = append(ues, hi)
			}
		}
		ues = append(ues, ev.Bytes(r, 6), make([]byte, 6))
		// the order is that of 48-bit numbers, most significant octet first: one UE SQN higher in octet 0 and lower in octet 5, one the
		// other way round; and octets on either side of 0x80 (a comparison of signed octets gets these wrong)
		for _, pr := range [][2]int{{0, 5}, {5, 0}} {
			x := cp(sqnNet)
			if x[pr[0]] < 255 && x[pr[1]] > 0 {
				x[pr[0]]++
				x[pr[1]]--
				ues = append(ues, x)
			}
		}
		for _, i := range []int{0, 5} {
			x := cp(sqnNet)
			x[i] ^= 0x80
			ues = append(ues, x)
		}
		var staleAuts []byte
		var freshMs, staleMs []byte
		for _, ms := range ues {
			a := check(autn, ms, "valid")
			fresh := false
			for i := 0; i < 6; i++ {
				if sqnNet[i] != ms[i] {
					fresh = sqnNet[i] > ms[i]
					break
				}
			}
			if fresh && freshMs == nil {
				freshMs = ms
			}
			if !fresh && staleMs == nil {
				staleMs, staleAuts = ms, cp(a)
			}
			if !fresh {
				autsCheck(a, "produced")
			}
		}
		// corruptions of AUTN: every single bit, every single octet
		for _, ms := range [][]byte{freshMs, staleMs} {
			if ms == nil {
				continue
			}
			for bit := 0; bit < 128; bit++ {
				c := cp(autn)
				c[bit/8] ^= 1 << uint(7-bit%8)
				check(c, ms, "bitflip")
			}
			for o := 0; o < 16; o++ {
				c := cp(autn)
				c[o] ^= byte(1 + r.Intn(255))
				check(c, ms, "octet")
			}
		}
		// corruptions of AUTS
		if staleAuts != nil {
			for bit := 0; bit < 112; bit++ {
				c := cp(staleAuts)
				c[bit/8] ^= 1 << uint(7-bit%8)
				autsCheck(c, "bitflip")
			}
			for o := 0; o < 14; o++ {
				c := cp(staleAuts)
				c[o] ^= byte(1 + r.Intn(255))
				autsCheck(c, "octet")
			}
		}
	}
}
