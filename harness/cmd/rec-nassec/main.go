// rec-nassec: recorder for C06 (uplink histories through tglib.EncodeNasPduWithSecurity / NASEncode)
// and replayer for C10 (TLC-generated downlink histories through tglib.NASDecode).
package main

import (
	"bufio"
	"encoding/json"
	"flag"
	"fmt"
	"math/rand"
	"os"
	"reflect"

	"free5gclib/nas"
	"free5gclib/nas/nasMessage"
	"free5gclib/nas/nasTestpacket"
	"free5gclib/nas/nasType"
	"free5gclib/nas/security"
	"free5gclib/ngap/ngapType"
	"free5gclib/openapi/models"
	"tglib"
	"verifharness/internal/ev"
)

func plainMessages(r *rand.Rand) [][]byte {
	suci := nasType.MobileIdentity5GS{Len: 12, Buffer: []uint8{0x01, 0x02, 0xf8, 0x39, 0xf0, 0xff, 0x00, 0x00, 0x00, 0x00, 0x47, 0x78}}
	sn := models.Snssai{Sst: 1, Sd: "010203"}
	var out [][]byte
	out = append(out,
		nasTestpacket.GetRegistrationComplete(nil),
		nasTestpacket.GetServiceRequest(nasMessage.ServiceTypeData),
		nasTestpacket.GetDeregistrationRequest(nasMessage.AccessType3GPP, 0, 0x04, suci),
		nasTestpacket.GetUlNasTransport_PduSessionEstablishmentRequest(uint8(1+r.Intn(15)), nasMessage.ULNASTransportRequestTypeInitialRequest, "internet", &sn),
		nasTestpacket.GetUlNasTransport_PduSessionReleaseRequest(uint8(1+r.Intn(15))),
		nasTestpacket.GetUlNasTransport_PduSessionReleaseComplete(uint8(1+r.Intn(15)), nasMessage.ULNASTransportRequestTypeInitialRequest, "internet", &sn),
		nasTestpacket.GetConfigurationUpdateComplete(),
		nasTestpacket.GetAuthenticationResponse(ev.Bytes(r, 16), ""),
		nasTestpacket.GetSecurityModeComplete(nasTestpacket.GetRegistrationRequest(nasMessage.RegistrationType5GSInitialRegistration, suci, nil,
			&nasType.UESecurityCapability{Iei: nasMessage.RegistrationRequestUESecurityCapabilityType, Len: 2, Buffer: []uint8{0x80, 0x20}}, nil, nil, nil)),
		nasTestpacket.GetStatus5GMM(uint8(r.Intn(256))),
		nasTestpacket.GetSecurityModeReject(uint8(r.Intn(256))),
	)
	return out
}

type hist struct {
	enc, integ uint8
	ul0        uint32
	steps      int
	resets     map[int]bool
}

func record(seed int64, tier, out string) {
	r := ev.Rng(seed, "nassec")
	w := ev.Create(out)
	defer w.Close()
	pairs := [][2]uint8{{0, 2}, {1, 2}, {2, 2}, {0, 1}, {1, 1}, {2, 1}}
	var hs []hist
	if tier == "thorough" {
		for _, p := range pairs {
			hs = append(hs, hist{p[0], p[1], 0, 600, map[int]bool{0: true, 254: true, 257: true, 400: true}})
			hs = append(hs, hist{p[0], p[1], 1<<24 - 5, 40, map[int]bool{20: true}})
			hs = append(hs, hist{p[0], p[1], 250, 30, map[int]bool{}})
		}
	} else {
		// the six algorithm pairs rotate over the history shapes with the seed (every pair meets every shape within six seeds)
		rot := int(seed % 6)
		if rot < 0 {
			rot += 6
		}
		pairs = append(pairs[rot:], pairs[:rot]...)
		hs = append(hs, hist{pairs[0][0], pairs[0][1], 0, 24, map[int]bool{0: true, 12: true}})
		hs = append(hs, hist{pairs[1][0], pairs[1][1], 245, 24, map[int]bool{14: true, 20: true}}) // passes 255 -> 256 before its first reset
		hs = append(hs, hist{pairs[2][0], pairs[2][1], 1<<24 - 5, 16, map[int]bool{}})
		hs = append(hs, hist{pairs[3][0], pairs[3][1], 65530, 16, map[int]bool{8: true}})
		hs = append(hs, hist{pairs[4][0], pairs[4][1], 0, 16, map[int]bool{0: true}})
		hs = append(hs, hist{pairs[5][0], pairs[5][1], 511, 16, map[int]bool{15: true}})
		hs = append(hs, hist{uint8(r.Intn(3)), uint8(1 + r.Intn(2)), uint32(r.Intn(1 << 24)), 16, map[int]bool{5: true}})
		hs = append(hs, hist{uint8(r.Intn(3)), uint8(1 + r.Intn(2)), uint32(256*r.Intn(1<<16) + 250), 16, map[int]bool{}})
	}
	msgs := plainMessages(r)
	// long messages (UL NAS TRANSPORT with a large N1 SM container: whole length just below / above 256 octets, several keystream
	// blocks; the last one, above 4096 octets, in the thorough tier only) and a bare 5GSM message, at fixed steps of every history
	var longs [][]byte
	for _, ln := range []int{243, 250, 300, 700, 1300, 4200} {
		pl := ev.Bytes(r, ln)
		longs = append(longs, append(append([]byte{0x7e, 0x00, 0x67, 0x01, byte(ln >> 8), byte(ln)}, pl...), 0x12, byte(1+r.Intn(15))))
	}
	nlong := 5
	if tier == "thorough" {
		nlong = 6
	}
	gsm := []byte{0x2e, byte(1 + r.Intn(15)), 0x01, 0xc1, 0xff, 0xff, 0x91}
	id := 0
	for hi, h := range hs {
		ue := tglib.NewRanUeContext("imsi-2089300007487", 1, h.enc, h.integ)
		copy(ue.KnasEnc[:], ev.Corner16(r))
		copy(ue.KnasInt[:], ev.Corner16(r))
		ue.ULCount.Set(uint16(h.ul0>>8), uint8(h.ul0))
		dl0 := uint32(r.Intn(1 << 24))
		if hi%2 == 0 {
			dl0 = dl0&0xffff00 | 251 // the downlink sequence number wraps while this history runs (downlink messages at steps 4..11; a new context at step 0 or 5 starts it again at 0)
		}
		ue.DLCount.Set(uint16(dl0>>8), uint8(dl0))
		w.Emit(ev.M{"ev": "Start", "id": id, "hist": hi, "enc": int(h.enc), "int": int(h.integ), "kenc": ev.Ints(ue.KnasEnc[:]),
			"kint": ev.Ints(ue.KnasInt[:]), "ul": int(ue.ULCount.Get()), "dl": int(ue.DLCount.Get())})
		id++
		nreset := 0
		for s := 0; s < h.steps; s++ {
			plain := msgs[r.Intn(len(msgs))]
			switch s {
			case 3:
				plain = longs[hi%nlong]
			case 10:
				plain = longs[(hi+3)%nlong]
			case 6:
				plain = gsm
			}
			if s%64 >= 4 && s%64 < 12 && hi%2 == 0 && !h.resets[s] {
				// the network sends too: a protected downlink message (built here with the library's own primitives; TraceNasSec checks it
				// against the specification before it judges what the UE made of it) goes through NASDecode between two uplink sends.  The
				// uplink NAS COUNT is none of the downlink's business.
				cnt := (ue.DLCount.Get() + 1) & 0xffffff
				dplain := []byte{0x7e, 0x00, 0x54, byte(0xd0 + s%2)}
				body := append([]byte{}, dplain...)
				security.NASEncrypt(h.enc, ue.KnasEnc, cnt, 1, 1, body)
				withSqn := append([]byte{byte(cnt)}, body...)
				mac, _ := security.NASMacCalculate(h.integ, ue.KnasInt, cnt, 1, 1, withSqn)
				pdu := append(append([]byte{0x7e, 0x02}, mac...), withSqn...)
				var dm *nas.Message
				var derr error
				dp := ev.Catch(func() { dm, derr = tglib.NASDecode(ue, 2, append([]byte{}, pdu...)) })
				obs := ev.M{"err": derr != nil || dp != "" || dm == nil, "dl": int(ue.DLCount.Get()), "plain": []int{}, "same": false}
				if dm != nil && derr == nil && dp == "" {
					want := nas.NewMessage()
					pl := append([]byte{}, dplain...)
					e2 := want.PlainNasDecode(&pl)
					dm.SecurityHeader = nas.SecurityHeader{}
					want.SecurityHeader = nas.SecurityHeader{}
					obs["same"] = e2 == nil && reflect.DeepEqual(dm, want)
					var re []byte
					ev.Catch(func() { re, _ = dm.PlainNasEncode() })
					obs["plain"] = ev.Ints(re)
				}
				w.Emit(ev.M{"ev": "Dec", "id": id, "hist": hi, "step": s, "hdr": 2, "pdu": ev.Ints(pdu), "plain": ev.Ints(dplain), "count": int(cnt), "obs": obs})
				id++
			}
			if s%64 == 13 && !h.resets[s] && !h.resets[s+1] {
				// an authentication run while the context is in use (re-authentication, a repeated challenge): keys are derived anew, the
				// counters of the context in use go on (the next sends do not take a new context into use)
				var autn [16]uint8
				copy(autn[:], ev.Bytes(r, 16))
				subs := ue.AuthenticationSubs
				if subs.PermanentKey == nil {
					subs = tglib.GetAuthSubscription("000102030405060708090a0b0c0d0e0f", "cdc202d5123e20f62b6d676ac72cb318", "")
				}
				ev.Catch(func() { ue.DeriveRESstarAndSetKey(subs, autn, ev.Bytes(r, 16), "5G:mnc093.mcc208.3gppnetwork.org", "93", "208") })
				w.Emit(ev.M{"ev": "Rekey", "id": id, "hist": hi, "step": s, "kenc": ev.Ints(ue.KnasEnc[:]), "kint": ev.Ints(ue.KnasInt[:]),
					"ul": int(ue.ULCount.Get()), "dl": int(ue.DLCount.Get())})
				id++
			}
			if s == 8 || s == 9 {
				// a send that must be refused (a message type without an encoder; octets that are no NAS message): nothing is sent, so
				// no NAS COUNT may be consumed
				ulB, dlB := int(ue.ULCount.Get()), int(ue.DLCount.Get())
				var rerr error
				var ro []byte
				rp := ev.Catch(func() {
					if s == 8 {
						bad := nas.NewMessage()
						bad.GmmMessage = nas.NewGmmMessage()
						bad.GmmHeader.SetMessageType(0x4f)
						bad.SecurityHeader = nas.SecurityHeader{ProtocolDiscriminator: 0x7e, SecurityHeaderType: 2}
						ro, rerr = tglib.NASEncode(ue, bad, true, false)
					} else {
						ro, rerr = tglib.EncodeNasPduWithSecurity(ue, []byte{0x7e, 0x00, 0xff, 0x01}, 2, true, false)
					}
				})
				w.Emit(ev.M{"ev": "Refuse", "id": id, "hist": hi, "step": s, "err": rerr != nil || rp != "", "panic": rp != "", "out": ev.Ints(ro),
					"ulBefore": ulB, "dlBefore": dlB, "ulAfter": int(ue.ULCount.Get()), "dlAfter": int(ue.DLCount.Get())})
				id++
			}
			hdr := uint8(2)
			newCtx := h.resets[s]
			avail := true
			switch x := r.Intn(10); {
			case newCtx:
				// new security context: header types 3 and 4 ("with new security context") in turn - and types 2 and 1: a context can also be
				// taken into use by an ordinary protected message (a mobility registration after a K_AMF change at handover); the counters
				// start again all the same
				nreset++
				hdr = []uint8{3, 4, 2, 1}[(hi+nreset-1)%4]
			case x == 0:
				avail = false // no security context: sent unchanged
				hdr = 0
			case x <= 2:
				hdr = 1
			}
			var o []byte
			var err error
			p := ev.Catch(func() { o, err = tglib.EncodeNasPduWithSecurity(ue, append([]byte{}, plain...), hdr, avail, newCtx) })
			ev.Hold("PDU returned by EncodeNasPduWithSecurity", o)
			w.Emit(ev.M{"ev": "Enc", "id": id, "hist": hi, "step": s, "hdr": int(hdr), "avail": avail, "new": newCtx,
				"plain": ev.Ints(plain), "out": ev.Ints(o), "err": err != nil || p != "",
				"ulAfter": int(ue.ULCount.Get()), "dlAfter": int(ue.DLCount.Get())})
			id++
		}
	}
	dual(r, w, msgs, len(hs), &id, tier)
}

// dual records one history in which several UE contexts with their own keys, algorithms and counters are used alternately: state
// shared between contexts (a package-level counter, a key slice that aliases another context's) cannot be explained per context.
func dual(r *rand.Rand, w *ev.Writer, msgs [][]byte, hi int, id *int, tier string) {
	algs := [][2]uint8{{1, 2}, {2, 1}, {0, 2}}
	starts := []uint32{0, 254, 1<<24 - 3}
	var cs []*tglib.RanUeContext
	for c := 0; c < 3; c++ {
		ue := tglib.NewRanUeContext(fmt.Sprintf("imsi-20893000074%02d", 80+c), int64(1+c), algs[c][0], algs[c][1])
		copy(ue.KnasEnc[:], ev.Bytes(r, 16))
		copy(ue.KnasInt[:], ev.Bytes(r, 16))
		ue.ULCount.Set(uint16(starts[c]>>8), uint8(starts[c]))
		dl0 := uint32(r.Intn(1 << 24))
		ue.DLCount.Set(uint16(dl0>>8), uint8(dl0))
		w.Emit(ev.M{"ev": "Start", "id": *id, "hist": hi, "ctx": c, "enc": int(algs[c][0]), "int": int(algs[c][1]), "kenc": ev.Ints(ue.KnasEnc[:]),
			"kint": ev.Ints(ue.KnasInt[:]), "ul": int(ue.ULCount.Get()), "dl": int(ue.DLCount.Get())})
		*id++
		cs = append(cs, ue)
	}
	steps := 30
	if tier == "thorough" {
		steps = 300
	}
	order := []int{0, 1, 1, 2, 0, 2, 2, 1, 0, 0}
	for s := 0; s < steps; s++ {
		c := order[s%len(order)]
		if s >= 2*len(order) {
			c = r.Intn(3)
		}
		ue := cs[c]
		plain := msgs[r.Intn(len(msgs))]
		hdr := uint8(2)
		newCtx := s == 13 || s == 17
		if newCtx {
			hdr = 3 + uint8((s/4)%2)
		} else if r.Intn(5) == 0 {
			hdr = 1
		}
		var o []byte
		var err error
		p := ev.Catch(func() { o, err = tglib.EncodeNasPduWithSecurity(ue, append([]byte{}, plain...), hdr, true, newCtx) })
		ev.Hold("PDU returned by EncodeNasPduWithSecurity", o)
		w.Emit(ev.M{"ev": "Enc", "id": *id, "hist": hi, "ctx": c, "step": s, "hdr": int(hdr), "avail": true, "new": newCtx,
			"plain": ev.Ints(plain), "out": ev.Ints(o), "err": err != nil || p != "",
			"ulAfter": int(ue.ULCount.Get()), "dlAfter": int(ue.DLCount.Get())})
		*id++
	}
}

// counts records the counter type security.Count itself: for each overflow value of the sweep and each sequence number of the
// row, Set / Get / SQN / Overflow / AddOne / SetSQN / SetOverflow starting from an arbitrary earlier value.
func counts(seed int64, tier, out string) {
	r := ev.Rng(seed, "counts")
	w := ev.Create(out)
	defer w.Close()
	edge := []int{0, 1, 2, 127, 128, 129, 253, 254, 255}
	var all []int
	for i := 0; i < 256; i++ {
		all = append(all, i)
	}
	var ovfs []int
	full := map[int]bool{}
	if tier == "thorough" {
		for o := 0; o < 65536; o++ {
			ovfs = append(ovfs, o)
			if o%256 == 255 || o%256 == 0 {
				full[o] = true
			}
		}
	} else {
		for _, o := range []int{0, 1, 2, 127, 128, 254, 255, 256, 257, 511, 512, 32767, 32768, 65279, 65280, 65534, 65535} {
			ovfs = append(ovfs, o)
		}
		for i := 0; i < 400; i++ {
			ovfs = append(ovfs, r.Intn(65536))
		}
		full[0], full[255], full[65535], full[ovfs[20]] = true, true, true, true
	}
	for id, o := range ovfs {
		sq := edge
		if full[o] {
			sq = all
		}
		prior := r.Intn(1 << 24)
		x, y := []int{0, 255, 1, 128, r.Intn(256)}[id%5], []int{0, 65535, 1, 256, 32768, r.Intn(65536)}[id%6]
		var get, sqnOut, ovfOut, next, afterSqn, afterOvf []int
		for _, s := range sq {
			var c security.Count
			c.Set(uint16(prior>>8), uint8(prior))
			c.Set(uint16(o), uint8(s))
			get = append(get, int(c.Get()))
			sqnOut = append(sqnOut, int(c.SQN()))
			ovfOut = append(ovfOut, int(c.Overflow()))
			c.AddOne()
			next = append(next, int(c.Get()))
			c.SetSQN(uint8(x))
			afterSqn = append(afterSqn, int(c.Get()))
			c.SetOverflow(uint16(y))
			afterOvf = append(afterOvf, int(c.Get()))
		}
		w.Emit(ev.M{"ev": "Count", "id": id, "hist": -1, "ovf": o, "prior": prior, "sqns": sq, "x": x, "y": y, "get": get, "sqnOut": sqnOut,
			"ovfOut": ovfOut, "next": next, "afterSqn": afterSqn, "afterOvf": afterOvf})
	}
}

// replay of TLC-generated downlink histories (C10)
func replay(cases, out string) {
	f, err := os.Open(cases)
	if err != nil {
		fmt.Println("HARNESS-ERROR", err)
		os.Exit(2)
	}
	defer f.Close()
	w := ev.Create(out)
	defer w.Close()
	sc := bufio.NewScanner(f)
	sc.Buffer(make([]byte, 1<<20), 1<<26)
	var ue *tglib.RanUeContext
	var ranID, amfID int64
	ncase := 0
	toB := func(x interface{}) []byte {
		a, _ := x.([]interface{})
		b := make([]byte, len(a))
		for i, v := range a {
			b[i] = byte(v.(float64))
		}
		return b
	}
	for sc.Scan() {
		var c map[string]interface{}
		if err := json.Unmarshal(sc.Bytes(), &c); err != nil {
			fmt.Println("HARNESS-ERROR", err)
			os.Exit(2)
		}
		switch c["ev"] {
		case "Start":
			// the identifiers of the UE-associated connection over their whole ranges (RAN-UE-NGAP-ID 0..2^32-1, AMF-UE-NGAP-ID 0..2^40-1)
			hn := int(c["hist"].(float64))
			ranID = []int64{1, 1 << 31, 4294967294, 0, 3000000000, 4294967295, 1<<31 - 1, 65536}[hn%8]
			amfID = []int64{1, 1 << 32, 1<<40 - 1, 0, 1 << 31, 4294967295, 1<<32 + 7, 255}[(hn+3)%8]
			ue = tglib.NewRanUeContext("imsi-2089300007487", ranID, uint8(c["enc"].(float64)), uint8(c["int"].(float64)))
			ue.AmfUeNgapId = amfID
			copy(ue.KnasEnc[:], toB(c["kenc"]))
			copy(ue.KnasInt[:], toB(c["kint"]))
			dl := uint32(c["dl"].(float64))
			ue.DLCount.Set(uint16(dl>>8), uint8(dl))
			w.Emit(c)
		case "Dec":
			pdu := toB(c["pdu"])
			var m *nas.Message
			var err error
			ncase++
			var p string
			if ncase%3 == 0 || len(pdu) <= 4 {
				// every third message (and every message of at most four octets) arrives the way the registration procedure receives it: inside a DOWNLINK NAS TRANSPORT, through
				// tglib.GetNasPdu (which returns nil where NASDecode returns an error)
				dt := ngapType.DownlinkNASTransport{}
				add := func(id int64, present int, set func(v *ngapType.DownlinkNASTransportIEsValue)) {
					ie := ngapType.DownlinkNASTransportIEs{}
					ie.Id.Value = id
					ie.Value.Present = present
					set(&ie.Value)
					dt.ProtocolIEs.List = append(dt.ProtocolIEs.List, ie)
				}
				// the optional IEs of TS 38.413 9.2.5.2 in front of and behind the NAS-PDU, in all eight combinations in turn
				combo := (ncase / 3) % 8
				add(ngapType.ProtocolIEIDAMFUENGAPID, ngapType.DownlinkNASTransportIEsPresentAMFUENGAPID, func(v *ngapType.DownlinkNASTransportIEsValue) { v.AMFUENGAPID = &ngapType.AMFUENGAPID{Value: amfID} })
				add(ngapType.ProtocolIEIDRANUENGAPID, ngapType.DownlinkNASTransportIEsPresentRANUENGAPID, func(v *ngapType.DownlinkNASTransportIEsValue) { v.RANUENGAPID = &ngapType.RANUENGAPID{Value: ranID} })
				if combo&1 != 0 {
					add(ngapType.ProtocolIEIDOldAMF, ngapType.DownlinkNASTransportIEsPresentOldAMF, func(v *ngapType.DownlinkNASTransportIEsValue) { v.OldAMF = &ngapType.AMFName{Value: "old"} })
				}
				if combo&2 != 0 {
					add(ngapType.ProtocolIEIDRANPagingPriority, ngapType.DownlinkNASTransportIEsPresentRANPagingPriority, func(v *ngapType.DownlinkNASTransportIEsValue) { v.RANPagingPriority = &ngapType.RANPagingPriority{Value: 7} })
				}
				add(ngapType.ProtocolIEIDNASPDU, ngapType.DownlinkNASTransportIEsPresentNASPDU, func(v *ngapType.DownlinkNASTransportIEsValue) { v.NASPDU = &ngapType.NASPDU{Value: append([]byte{}, pdu...)} })
				if combo&4 != 0 {
					add(ngapType.ProtocolIEIDIndexToRFSP, ngapType.DownlinkNASTransportIEsPresentIndexToRFSP, func(v *ngapType.DownlinkNASTransportIEsValue) { v.IndexToRFSP = &ngapType.IndexToRFSP{Value: 3} })
				}
				p = ev.Catch(func() { m = tglib.GetNasPdu(ue, &dt) })
			} else {
				p = ev.Catch(func() { m, err = tglib.NASDecode(ue, nas.GetSecurityHeaderType(pdu), append([]byte{}, pdu...)) })
			}
			obs := ev.M{"err": err != nil || p != "" || m == nil, "dl": int(ue.DLCount.Get()), "plain": []int{}, "same": false}
			if m != nil && err == nil && p == "" {
				// what the caller gets: the decoded message; compare with the decoding of the plain message the AMF protected
				want := nas.NewMessage()
				pl := toB(c["plain"])
				e2 := want.PlainNasDecode(&pl)
				m.SecurityHeader = nas.SecurityHeader{}
				want.SecurityHeader = nas.SecurityHeader{}
				obs["same"] = e2 == nil && reflect.DeepEqual(m, want)
				var re []byte
				ev.Catch(func() { re, _ = m.PlainNasEncode() })
				obs["plain"] = ev.Ints(re)
			}
			c["obs"] = obs
			w.Emit(c)
			if ncase%5 == 2 {
				// ... and now and then it sends a message in clear although a context exists (as an IDENTITY RESPONSE with the SUCI may,
				// TS 24.501 4.4.4.3): that is a statement about this one message, the context and its counters go on
				plain := []byte{0x7e, 0x00, 0x64, byte(ncase)}
				var o []byte
				var uerr error
				up := ev.Catch(func() { o, uerr = tglib.EncodeNasPduWithSecurity(ue, append([]byte{}, plain...), 0, false, false) })
				w.Emit(ev.M{"ev": "Enc", "id": fmt.Sprintf("%v-pl", c["id"]), "hist": c["hist"], "step": ncase, "hdr": 0, "avail": false, "new": false,
					"plain": ev.Ints(plain), "out": ev.Ints(o), "err": uerr != nil || up != "",
					"ulAfter": int(ue.ULCount.Get()), "dlAfter": int(ue.DLCount.Get())})
			}
			if ncase%7 == 0 {
				// the UE answers now and then: an uplink message under the same context must still carry the next uplink NAS COUNT
				// (whatever the downlink counter has done in between) and leave the downlink counter alone
				plain := []byte{0x7e, 0x00, 0x64, byte(ncase)}
				var o []byte
				var uerr error
				up := ev.Catch(func() { o, uerr = tglib.EncodeNasPduWithSecurity(ue, append([]byte{}, plain...), 2, true, false) })
				w.Emit(ev.M{"ev": "Enc", "id": fmt.Sprintf("%v-ul", c["id"]), "hist": c["hist"], "step": ncase, "hdr": 2, "avail": true, "new": false,
					"plain": ev.Ints(plain), "out": ev.Ints(o), "err": uerr != nil || up != "",
					"ulAfter": int(ue.ULCount.Get()), "dlAfter": int(ue.DLCount.Get())})
			}
		}
	}
}

// dlMessages prints downlink plain messages (hand-written TS 24.501 encodings with random field values) that the
// library decodes and re-encodes to the same octets; they are only payloads for the TLC generator.
func dlMessages(seed int64, n int) {
	r := ev.Rng(seed, "dlmsgs")
	var outl [][]int
	cat := func(parts ...[]byte) []byte {
		var b []byte
		for _, p := range parts {
			b = append(b, p...)
		}
		return b
	}
	// first the long ones, in fixed order: DL NAS TRANSPORT whose whole length crosses 255 / 256 octets, several keystream blocks,
	// and (last) more than 4096 octets
	for _, ln := range []int{249, 250, 256, 600, 1200, 4100, 8300} {
		pl := ev.Bytes(r, ln)
		outl = append(outl, ev.Ints(cat([]byte{0x7e, 0x00, 0x68, 0x01, byte(len(pl) >> 8), byte(len(pl))}, pl, []byte{0x12, byte(1 + r.Intn(15))})))
	}
	for len(outl) < n+7 {
		var m []byte
		switch r.Intn(8) {
		case 0: // AUTHENTICATION REQUEST
			m = cat([]byte{0x7e, 0x00, 0x56, byte(r.Intn(7)), 0x02, 0x00, 0x00, 0x21}, ev.Bytes(r, 16), []byte{0x20, 0x10}, ev.Bytes(r, 16))
		case 1: // SECURITY MODE COMMAND
			m = []byte{0x7e, 0x00, 0x5d, byte(r.Intn(3)<<4 | (1 + r.Intn(2))), byte(r.Intn(7)), 0x02, byte(r.Intn(256)), byte(r.Intn(256)), 0xe1, 0x36, 0x01, 0x02}
		case 2: // REGISTRATION ACCEPT with 5G-GUTI
			m = cat([]byte{0x7e, 0x00, 0x42, 0x01, 0x01, 0x77, 0x00, 0x0b, 0xf2}, ev.Bytes(r, 10))
		case 3: // CONFIGURATION UPDATE COMMAND
			m = []byte{0x7e, 0x00, 0x54}
		case 4: // DL NAS TRANSPORT carrying an N1 SM container
			pl := ev.Bytes(r, 1+r.Intn(200))
			m = cat([]byte{0x7e, 0x00, 0x68, 0x01, byte(len(pl) >> 8), byte(len(pl))}, pl, []byte{0x12, byte(1 + r.Intn(15))})
		case 5: // SERVICE ACCEPT
			m = []byte{0x7e, 0x00, 0x4e, 0x50, 0x02, byte(r.Intn(256)), byte(r.Intn(256))}
		case 6: // DEREGISTRATION ACCEPT (UE originating)
			m = []byte{0x7e, 0x00, 0x46}
		case 7: // 5GMM STATUS
			m = []byte{0x7e, 0x00, 0x64, byte(r.Intn(256))}
		}
		msg := nas.NewMessage()
		in := append([]byte{}, m...)
		if err := msg.PlainNasDecode(&in); err != nil {
			continue
		}
		re, err := msg.PlainNasEncode()
		if err != nil || !reflect.DeepEqual(re, m) {
			continue
		}
		outl = append(outl, ev.Ints(m))
	}
	b, _ := json.Marshal(outl)
	fmt.Println(string(b))
}

func main() {
	if len(os.Args) > 1 && os.Args[1] == "dlmsgs" {
		var seed int64 = 1
		n := 40
		fmt.Sscan(os.Args[2], &seed)
		fmt.Sscan(os.Args[3], &n)
		dlMessages(seed, n)
		return
	}
	seed := flag.Int64("seed", 1, "")
	tier := flag.String("tier", "quick", "")
	out := flag.String("out", "nassec.ndjson", "")
	cases := flag.String("replay", "", "TLC-generated downlink cases to replay")
	cnt := flag.Bool("counts", false, "record the counter type instead of histories")
	flag.Parse()
	if *cnt {
		counts(*seed, *tier, *out)
		return
	}
	if *cases != "" {
		replay(*cases, *out)
		return
	}
	record(*seed, *tier, *out)
}
