// rec-config: recorder for C18(a).  For every generated assignment of the documented keys it writes config.yaml (the harness's own
// emitter: double-quoted scalars for strings), loads it with the real GetConfiguration and dumps the resulting structure generically
// (reflection over the yaml tags).
package main

import (
	"flag"
	"fmt"
	"math/rand"
	"os"
	"reflect"
	"strings"

	"stgutg"
	"verifharness/internal/ev"
)

func q(s string) string {
	var b strings.Builder
	b.WriteByte('"')
	for _, c := range []byte(s) {
		switch {
		case c == '"':
			b.WriteString(`\"`)
		case c == '\\':
			b.WriteString(`\\`)
		case c >= 32 && c < 127:
			b.WriteByte(c)
		default:
			fmt.Fprintf(&b, `\x%02x`, c)
		}
	}
	b.WriteByte('"')
	return b.String()
}

var stringKeys = []string{"amf_ngap_ip", "gnb_gtp_ip", "stg_ngap_ip", "gnb_id", "gnb_name", "initial_imsi", "mcc", "mnc", "k", "opc", "op", "sd", "downlink_iface", "uplink_iface"}
var intKeys = []string{"amf_ngap_port", "stg_ngap_port", "gnb_bitlength", "sst", "ue_number", "ue_registration", "ue_pdu", "ue_service", "ue_pdu_release", "ue_deregistration"}

func genString(r *rand.Rand, key string) string {
	digits := func(n int) string {
		b := make([]byte, n)
		for i := range b {
			b[i] = byte('0' + r.Intn(10))
		}
		return string(b)
	}
	hexs := func(n int, upper bool) string {
		cs := "0123456789abcdef"
		if upper {
			cs = "0123456789ABCDEF"
		}
		b := make([]byte, n)
		for i := range b {
			b[i] = cs[r.Intn(16)]
		}
		return string(b)
	}
	switch key {
	case "amf_ngap_ip", "gnb_gtp_ip", "stg_ngap_ip":
		return fmt.Sprintf("%d.%d.%d.%d", r.Intn(256), r.Intn(256), []int{0, 255, 1}[r.Intn(3)], r.Intn(256))
	case "gnb_id":
		n := 3 + r.Intn(2)
		b := make([]byte, n)
		for i := range b {
			b[i] = byte([]int{0, 1, 2, 0x7f, r.Intn(128)}[r.Intn(5)])
		}
		return string(b)
	case "gnb_name":
		n := []int{0, 1, 7, 150}[r.Intn(4)]
		b := make([]byte, n)
		for i := range b {
			b[i] = "abcXYZ019 -_#:"[r.Intn(14)]
		}
		return string(b)
	case "initial_imsi":
		return []string{"001010000000001", "000000000000000", digits(15), digits(14), "0" + digits(13), digits(5)}[r.Intn(6)]
	case "mcc":
		return []string{"001", "000", "999", digits(3)}[r.Intn(4)]
	case "mnc":
		return []string{"01", "00", "001", "999", digits(2), digits(3)}[r.Intn(6)]
	case "k", "opc", "op":
		return []string{hexs(32, false), hexs(32, true), "", "00000000000000000000000000000000", "0123456789abcdef0123456789ABCDEF"}[r.Intn(5)]
	case "sd":
		return []string{"010203", "000000", "ffffff", "FFFFFF", "", hexs(6, false)}[r.Intn(6)]
	default:
		return []string{"lo", "enp0s8", "eth0.100", "a-very-long-interface-name0", ""}[r.Intn(5)]
	}
}

func genInt(r *rand.Rand, key string) int64 {
	switch key {
	case "amf_ngap_port", "stg_ngap_port":
		return int64([]int{0, 1, 38412, 65535, r.Intn(65536), -1, 65536}[r.Intn(7)])
	case "gnb_bitlength":
		return []int64{22, 24, 32, int64(22 + r.Intn(11)), 0, 21, 33, 1 << 40}[r.Intn(8)]
	case "sst":
		return []int64{0, 1, 255, int64(r.Intn(256)), -1, 256, 1<<31 - 1, -(1 << 31)}[r.Intn(8)]
	default:
		return []int64{0, 1, 2, 10, 10000, 1 << 20, int64(r.Intn(1000)), -1, 1 << 31, 1 << 40}[r.Intn(10)]
	}
}

func main() {
	seed := flag.Int64("seed", 1, "")
	tier := flag.String("tier", "quick", "")
	out := flag.String("out", "config.ndjson", "")
	shippedPath := flag.String("shipped", "", "the repository's own config.yaml")
	flag.Parse()
	r := ev.Rng(*seed, "config")
	w := ev.Create(*out)
	defer w.Close()
	n := 200
	if *tier == "thorough" {
		n = 5000
	}
	shipped := []byte{}
	if *shippedPath != "" {
		shipped, _ = os.ReadFile(*shippedPath)
	}
	dir, _ := os.MkdirTemp("", "cfg")
	defer os.RemoveAll(dir)
	os.Chdir(dir)
	// the working directory looks like a checkout: other configuration files lie around (the repository's src/config.yaml - here with other
	// values under every key -, an editor's copy, a file with the other extension).  The emulator reads ./config.yaml and nothing else.
	if len(shipped) > 0 {
		decoy := []byte(strings.NewReplacer("192.168.61", "10.99.99", "001010000000001", "999990000000007", "open5gs", "decoy", "38412", "1",
			"ue_number: ", "ue_number: 7", "internet", "decoy").Replace(string(shipped)))
		os.MkdirAll("src", 0755)
		os.MkdirAll("conf", 0755)
		for _, p := range []string{"src/config.yaml", "config.yml", "config.yaml~", "conf/config.yaml", "config.yaml.example"} {
			os.WriteFile(p, decoy, 0644)
		}
	}
	load := func(id interface{}, assignS map[string][]int, assignI map[string]int64) {
		var c stgutg.Conf
		p := ev.Catch(func() { c.GetConfiguration() })
		gotS := map[string][]int{}
		gotI := map[string]int64{}
		cv := reflect.ValueOf(c.Configuration)
		ct := cv.Type()
		for f := 0; f < ct.NumField(); f++ {
			tag := ct.Field(f).Tag.Get("yaml")
			switch cv.Field(f).Kind() {
			case reflect.String:
				gotS[tag] = ev.Ints([]byte(cv.Field(f).String()))
			case reflect.Int, reflect.Int32, reflect.Int64:
				gotI[tag] = cv.Field(f).Int()
			case reflect.Uint64:
				gotI[tag] = int64(cv.Field(f).Uint())
			}
		}
		w.Emit(ev.M{"ev": "Config", "id": id, "assignS": assignS, "assignI": assignI, "gotS": gotS, "gotI": gotI, "panic": p != ""})
	}
	if len(shipped) > 0 {
		// the configuration file shipped with the repository (plain scalars, comments behind values, comment lines between keys) must load to
		// the values its README documents
		os.WriteFile("config.yaml", shipped, 0644)
		S := func(x string) []int { return ev.Ints([]byte(x)) }
		load("shipped", map[string][]int{"amf_ngap_ip": S("192.168.61.4"), "gnb_gtp_ip": S("192.168.61.3"), "stg_ngap_ip": S("192.168.61.3"),
			"initial_imsi": S("001010000000001"), "mcc": S("001"), "mnc": S("01"), "gnb_id": {0, 1, 2}, "gnb_name": S("open5gs"),
			"k": S("465B5CE8B199B49FAA5F0A2EE238A6BC"), "opc": S("E8ED289DEBA952E4283B54E88E6183CA"), "op": S("E8ED289DEBA952E4283B54E88E6183CA"),
			"sd": S("010203"), "downlink_iface": S("enp0s8"), "uplink_iface": S("enp0s9")},
			map[string]int64{"amf_ngap_port": 38412, "stg_ngap_port": 9487, "gnb_bitlength": 24, "sst": 1, "ue_number": 1, "ue_registration": 10,
				"ue_pdu": 10, "ue_service": 10, "ue_pdu_release": 10, "ue_deregistration": 10})
	}
	for i := 0; i < n; i++ {
		assignS := map[string][]int{}
		assignI := map[string]int64{}
		var lines []string
		keys := append(append([]string{}, stringKeys...), intKeys...)
		r.Shuffle(len(keys), func(a, b int) { keys[a], keys[b] = keys[b], keys[a] }) // key order in the file must not matter
		// every fifth file leaves one key out (the procedures then receive the zero value); scalars are written double-quoted, single-quoted
		// or followed by a comment in turn (the shipped file uses plain scalars with comments behind them)
		drop := ""
		if i%5 == 4 {
			drop = keys[(i/5)%len(keys)]
		}
		for kj, k := range keys {
			isInt := false
			for _, ik := range intKeys {
				if ik == k {
					isInt = true
				}
			}
			style := (i + kj) % 4
			if isInt {
				v := genInt(r, k)
				if k == drop {
					assignI[k] = 0
					continue
				}
				assignI[k] = v
				if style == 2 {
					lines = append(lines, fmt.Sprintf("  %s: %d #%d", k, v, v+1))
				} else {
					lines = append(lines, fmt.Sprintf("  %s: %d", k, v))
				}
			} else {
				v := genString(r, k)
				if k == drop {
					assignS[k] = []int{}
					continue
				}
				assignS[k] = ev.Ints([]byte(v))
				printable := true
				for _, c := range []byte(v) {
					if c < 32 || c >= 127 {
						printable = false
					}
				}
				// a plain (unquoted) scalar, as the README writes digit strings on the AMF side: letters, digits and dots only, and none of
				// the words YAML reads as a boolean or null
				plain := printable && len(v) > 0
				for _, c := range []byte(v) {
					if !(c >= '0' && c <= '9' || c >= 'a' && c <= 'z' || c >= 'A' && c <= 'Z' || c == '.') {
						plain = false
					}
				}
				switch strings.ToLower(v) {
				case "y", "n", "yes", "no", "on", "off", "true", "false", "null":
					plain = false
				}
				if plain && (v[0] == '.' || v[len(v)-1] == '.') {
					plain = false
				}
				switch {
				case style == 3 && plain:
					lines = append(lines, fmt.Sprintf("  %s: %s", k, v))
				case style == 1 && printable:
					lines = append(lines, fmt.Sprintf("  %s: '%s'", k, strings.ReplaceAll(v, "'", "''")))
				case style == 2:
					lines = append(lines, fmt.Sprintf("  %s: %s # %s", k, q(v), k))
				default:
					lines = append(lines, fmt.Sprintf("  %s: %s", k, q(v)))
				}
			}
		}
		os.WriteFile("config.yaml", []byte("info:\n  version: 0.9.0\n\nconfiguration:\n"+strings.Join(lines, "\n")+"\n"), 0644)
		var c stgutg.Conf
		p := ev.Catch(func() { c.GetConfiguration() })
		gotS := map[string][]int{}
		gotI := map[string]int64{}
		cv := reflect.ValueOf(c.Configuration)
		ct := cv.Type()
		for f := 0; f < ct.NumField(); f++ {
			tag := ct.Field(f).Tag.Get("yaml")
			switch cv.Field(f).Kind() {
			case reflect.String:
				gotS[tag] = ev.Ints([]byte(cv.Field(f).String()))
			case reflect.Int, reflect.Int32, reflect.Int64:
				gotI[tag] = cv.Field(f).Int()
			case reflect.Uint64:
				gotI[tag] = int64(cv.Field(f).Uint())
			}
		}
		w.Emit(ev.M{"ev": "Config", "id": i, "assignS": assignS, "assignI": assignI, "gotS": gotS, "gotI": gotI, "panic": p != ""})
	}
}
