// pump: the N2 byte pump (DESIGN 3.4).  It understands nothing about NGAP, NAS or cryptography.
//
//   pump serve -sock S -dir D -emu BIN -log L [-- emulator args]
//       creates an AF_UNIX SOCK_SEQPACKET socketpair (message boundaries like SCTP), starts the emulator in
//       directory D with one end as inherited fd 3 (VERIF_N2_FD=3, hook H1), collects the uplink messages and
//       serves idempotent requests on the control socket S.
//   pump ctl -sock S recv K OUT [TIMEOUT_MS]   -> OUT: {"kind":"msg","k":K,"bytes":[..]} | {"kind":"exit",...} | {"kind":"timeout"}
//   pump ctl -sock S send J FILE                -> deliver downlink message J (JSON {"bytes":[..]}) once
//   pump ctl -sock S close J                    -> close the association (as downlink event J), once
//   pump ctl -sock S quit
package main

import (
	"bufio"
	"encoding/json"
	"flag"
	"fmt"
	"net"
	"os"
	"os/exec"
	"strconv"
	"strings"
	"sync"
	"syscall"
	"time"
)

type state struct {
	mu       sync.Mutex
	cond     *sync.Cond
	ul       [][]byte
	ulTime   []float64
	sent     int
	exited   bool
	exitCode int
	exitAt   float64
	readEOF  bool
	stdout   []byte
	fd       int
	closed   bool
	t0       time.Time
	log      *os.File
}

func (s *state) logf(format string, a ...interface{}) {
	if s.log != nil {
		fmt.Fprintf(s.log, format+"\n", a...)
	}
}

func ints(b []byte) []int {
	r := make([]int, len(b))
	for i, x := range b {
		r[i] = int(x)
	}
	return r
}

func serve(sock, dir, emu, logp string, args []string) {
	fds, err := syscall.Socketpair(syscall.AF_UNIX, syscall.SOCK_SEQPACKET, 0)
	if err != nil {
		fmt.Println("HARNESS-ERROR socketpair:", err)
		os.Exit(2)
	}
	st := &state{fd: fds[0], t0: time.Now()}
	st.cond = sync.NewCond(&st.mu)
	st.log, _ = os.Create(logp)
	child := os.NewFile(uintptr(fds[1]), "n2")
	cmd := exec.Command(emu, args...)
	cmd.Dir = dir
	cmd.ExtraFiles = []*os.File{child}
	cmd.Env = append(os.Environ(), "VERIF_N2_FD=3", "VERIF_TRACE="+dir+"/hooks.ndjson")
	outp, _ := cmd.StdoutPipe()
	cmd.Stderr = cmd.Stdout
	if err := cmd.Start(); err != nil {
		fmt.Println("HARNESS-ERROR start:", err)
		os.Exit(2)
	}
	child.Close()
	// stdout collector
	var wg sync.WaitGroup
	wg.Add(1)
	go func() {
		defer wg.Done()
		buf := make([]byte, 65536)
		for {
			n, err := outp.Read(buf)
			if n > 0 {
				st.mu.Lock()
				st.stdout = append(st.stdout, buf[:n]...)
				st.mu.Unlock()
			}
			if err != nil {
				return
			}
		}
	}()
	// uplink reader
	go func() {
		buf := make([]byte, 1<<16)
		for {
			n, _, _, _, err := syscall.Recvmsg(st.fd, buf, nil, 0)
			if err != nil || n == 0 {
				st.mu.Lock()
				st.readEOF = true
				st.cond.Broadcast()
				st.mu.Unlock()
				return
			}
			st.mu.Lock()
			st.ul = append(st.ul, append([]byte{}, buf[:n]...))
			st.ulTime = append(st.ulTime, time.Since(st.t0).Seconds())
			st.logf(`{"dir":"ul","k":%d,"t":%.3f,"bytes":%s}`, len(st.ul)-1, time.Since(st.t0).Seconds(), jsonInts(buf[:n]))
			st.cond.Broadcast()
			st.mu.Unlock()
		}
	}()
	go func() {
		wg.Wait()
		err := cmd.Wait()
		code := 0
		if err != nil {
			if ee, ok := err.(*exec.ExitError); ok {
				code = ee.ExitCode()
			} else {
				code = -1
			}
		}
		st.mu.Lock()
		st.exited, st.exitCode, st.exitAt = true, code, time.Since(st.t0).Seconds()
		st.logf(`{"dir":"exit","code":%d,"t":%.3f}`, code, st.exitAt)
		st.cond.Broadcast()
		st.mu.Unlock()
	}()
	os.Remove(sock)
	ln, err := net.Listen("unix", sock)
	if err != nil {
		fmt.Println("HARNESS-ERROR listen:", err)
		os.Exit(2)
	}
	for {
		c, err := ln.Accept()
		if err != nil {
			return
		}
		line, _ := bufio.NewReader(c).ReadString('\n')
		f := strings.Fields(line)
		resp := handle(st, f)
		c.Write([]byte(resp + "\n"))
		c.Close()
		if len(f) > 0 && f[0] == "quit" {
			if !st.exited {
				cmd.Process.Kill()
			}
			os.Remove(sock)
			return
		}
	}
}

func jsonInts(b []byte) string {
	j, _ := json.Marshal(ints(b))
	return string(j)
}

func handle(st *state, f []string) string {
	if len(f) == 0 {
		return `{"kind":"error"}`
	}
	switch f[0] {
	case "recv":
		k, _ := strconv.Atoi(f[1])
		tmo := 20000
		if len(f) > 2 {
			tmo, _ = strconv.Atoi(f[2])
		}
		deadline := time.Now().Add(time.Duration(tmo) * time.Millisecond)
		timer := time.AfterFunc(time.Duration(tmo)*time.Millisecond, func() { st.mu.Lock(); st.cond.Broadcast(); st.mu.Unlock() })
		defer timer.Stop()
		st.mu.Lock()
		defer st.mu.Unlock()
		for {
			if len(st.ul) > k {
				return fmt.Sprintf(`{"kind":"msg","k":%d,"t":%.3f,"bytes":%s}`, k, st.ulTime[k], jsonInts(st.ul[k]))
			}
			if st.exited && st.readEOF {
				so, _ := json.Marshal(string(st.stdout))
				has := func(x string) bool { return strings.Contains(string(st.stdout), x) }
				return fmt.Sprintf(`{"kind":"exit","k":%d,"code":%d,"t":%.3f,"stdout":%s,"nul":%d,"banner":%t,"testMode":%t,"trafficMode":%t,"usage":%t}`,
					k, st.exitCode, st.exitAt, so, len(st.ul), has(">> All tests finished"), has("TEST MODE"), has("TRAFFIC MODE"), has("Usage: stg-utg"))
			}
			if time.Now().After(deadline) {
				return fmt.Sprintf(`{"kind":"timeout","k":%d,"nul":%d}`, k, len(st.ul))
			}
			st.cond.Wait()
		}
	case "send", "sendclose":
		// sendclose: the message goes out and the association is shut down in the same breath (under the lock, the two system calls back
		// to back): the peer can still read the message, and whatever it writes next meets a closed association
		j, _ := strconv.Atoi(f[1])
		st.mu.Lock()
		defer st.mu.Unlock()
		if j < st.sent {
			return `{"kind":"ok","dup":true}`
		}
		if j > st.sent {
			return `{"kind":"error","why":"gap in downlink sequence"}`
		}
		b, err := os.ReadFile(f[2])
		if err != nil {
			return `{"kind":"error","why":"read"}`
		}
		var m struct{ Bytes []int `json:"bytes"` }
		if err := json.Unmarshal(b, &m); err != nil {
			return `{"kind":"error","why":"json"}`
		}
		out := make([]byte, len(m.Bytes))
		for i, x := range m.Bytes {
			out[i] = byte(x)
		}
		st.sent++
		if st.closed {
			return `{"kind":"ok","closed":true}`
		}
		if f[0] == "sendclose" {
			// the receiving direction goes first: from here on every write of the peer fails, whenever it is scheduled; what is sent
			// now can still be read by it
			syscall.Shutdown(st.fd, syscall.SHUT_RD)
		}
		err = syscall.Sendmsg(st.fd, out, nil, nil, 0)
		if f[0] == "sendclose" {
			st.closed = true
			syscall.Shutdown(st.fd, syscall.SHUT_RDWR)
		}
		st.logf(`{"dir":"dl","j":%d,"t":%.3f,"bytes":%s,"err":%t}`, j, time.Since(st.t0).Seconds(), jsonInts(out), err != nil)
		if f[0] == "sendclose" {
			st.logf(`{"dir":"close","j":%d,"t":%.3f,"after":true}`, j, time.Since(st.t0).Seconds())
		}
		return `{"kind":"ok"}`
	case "shutrd":
		// the receiving direction of the association is shut down ahead of a close that follows in the same batch of downlink messages:
		// the peer's writes fail from now on (EPIPE), the messages still to be sent in this batch can be read by it
		st.mu.Lock()
		defer st.mu.Unlock()
		if !st.closed {
			syscall.Shutdown(st.fd, syscall.SHUT_RD)
			st.logf(`{"dir":"shutrd","t":%.3f}`, time.Since(st.t0).Seconds())
		}
		return `{"kind":"ok"}`
	case "close":
		j, _ := strconv.Atoi(f[1])
		st.mu.Lock()
		defer st.mu.Unlock()
		if j < st.sent {
			return `{"kind":"ok","dup":true}`
		}
		st.sent++
		if !st.closed {
			st.closed = true
			syscall.Shutdown(st.fd, syscall.SHUT_RDWR)
			st.logf(`{"dir":"close","j":%d,"t":%.3f}`, j, time.Since(st.t0).Seconds())
		}
		return `{"kind":"ok"}`
	case "stdout":
		st.mu.Lock()
		defer st.mu.Unlock()
		has := func(x string) bool { return strings.Contains(string(st.stdout), x) }
		return fmt.Sprintf(`{"kind":"stdout","exited":%t,"code":%d,"nul":%d,"banner":%t,"testMode":%t,"trafficMode":%t,"usage":%t}`,
			st.exited, st.exitCode, len(st.ul), has(">> All tests finished"), has("TEST MODE"), has("TRAFFIC MODE"), has("Usage: stg-utg"))
	case "quit":
		return `{"kind":"ok"}`
	}
	return `{"kind":"error","why":"unknown request"}`
}

func ctl(sock string, args []string) {
	c, err := net.Dial("unix", sock)
	if err != nil {
		fmt.Println("HARNESS-ERROR dial:", err)
		os.Exit(3)
	}
	defer c.Close()
	out := ""
	req := args
	if args[0] == "recv" {
		out = args[2]
		req = []string{"recv", args[1]}
		if len(args) > 3 {
			req = append(req, args[3])
		}
	}
	fmt.Fprintln(c, strings.Join(req, " "))
	resp, _ := bufio.NewReader(c).ReadString('\n')
	if out != "" {
		if err := os.WriteFile(out, []byte(resp), 0644); err != nil {
			os.Exit(3)
		}
	} else {
		fmt.Print(resp)
	}
	if strings.Contains(resp, `"kind":"error"`) {
		os.Exit(1)
	}
}

func main() {
	if len(os.Args) < 2 {
		os.Exit(2)
	}
	fs := flag.NewFlagSet("pump", flag.ExitOnError)
	sock := fs.String("sock", "", "")
	dir := fs.String("dir", ".", "")
	emu := fs.String("emu", "", "")
	logp := fs.String("log", "pump.log", "")
	fs.Parse(os.Args[2:])
	switch os.Args[1] {
	case "serve":
		serve(*sock, *dir, *emu, *logp, fs.Args())
	case "ctl":
		ctl(*sock, fs.Args())
	}
}
