// rec-convert: recorder for C11 (SUCI / PLMN encodings) and C17 (conversion helpers).
package main

import (
	"encoding/hex"
	"flag"
	"fmt"
	"math/rand"
	"net"

	"free5gclib/aper"
	"free5gclib/nas/nasConvert"
	"free5gclib/nas/nasType"
	"free5gclib/ngap/ngapConvert"
	"free5gclib/ngap/ngapType"
	"free5gclib/openapi/models"
	"free5gclib/util_3gpp"
	"stgutg"
	"tglib"
	"verifharness/internal/ev"
)

func digits(r *rand.Rand, n int) string {
	b := make([]byte, n)
	for i := range b {
		b[i] = byte('0' + r.Intn(10))
	}
	return string(b)
}

func main() {
	seed := flag.Int64("seed", 1, "")
	tier := flag.String("tier", "quick", "")
	out := flag.String("out", "convert.ndjson", "")
	which := flag.String("which", "all", "ident | convert | all")
	flag.Parse()
	r := ev.Rng(*seed, "convert")
	w := ev.Create(*out)
	defer w.Close()
	id := 0
	emit := func(m ev.M) { m["id"] = id; id++; w.Emit(m) }
	thorough := *tier == "thorough"

	if *which == "ident" || *which == "all" || *which == "convert" {
		// C11: per MCC a row of MNCs: SUCI of a random MSIN, PLMN for NG Setup (octets 1..3 of the SUCI) and the library's PlmnIDToNas
		var mncs []string
		for i := 0; i < 100; i++ {
			mncs = append(mncs, fmt.Sprintf("%02d", i))
		}
		for i := 0; i < 1000; i++ {
			mncs = append(mncs, fmt.Sprintf("%03d", i))
		}
		for mcc := 0; mcc < 1000; mcc++ {
			if *which == "convert" && mcc%331 != 7 {
				continue // C17 takes three complete rows of the PLMN conversion (all 1100 MNCs); C11 owns the full table
			}
			mccS := fmt.Sprintf("%03d", mcc)
			row := mncs
			if !thorough && mcc%331 != 7 {
				row = nil
				for i := 0; i < 12; i++ {
					row = append(row, mncs[r.Intn(len(mncs))])
				}
				row = append(row, "00", "99", "000", "999")
			}
			var ms, sucis, lens, plmnNas, msins [][]int
			var panics []bool
			for _, mnc := range row {
				msin := digits(r, 1+r.Intn(10))
				imsi := mccS + mnc + msin
				var buf []byte
				var ln uint16
				p := ev.Catch(func() {
					s := stgutg.EncodeSuci([]byte(imsi), len(mnc))
					buf, ln = s.Buffer, s.Len
				})
				var pn []byte
				p2 := ev.Catch(func() { pn = nasConvert.PlmnIDToNas(models.PlmnId{Mcc: mccS, Mnc: mnc}) })
				ms = append(ms, ev.Ints([]byte(mnc)))
				msins = append(msins, ev.Ints([]byte(msin)))
				sucis = append(sucis, ev.Ints(buf))
				lens = append(lens, []int{int(ln)})
				plmnNas = append(plmnNas, ev.Ints(pn))
				panics = append(panics, p != "" || p2 != "")
			}
			emit(ev.M{"ev": "PlmnRow", "mcc": ev.Ints([]byte(mccS)), "mncs": ms, "msins": msins, "sucis": sucis, "lens": lens, "plmnNas": plmnNas, "panics": panics})
		}
		// rows for one home network each: the identities of several subscribers are encoded one after the other and read only afterwards
		// (the emulator keeps the identity of every UE it registered: a later call must not change an earlier result)
		for k := 0; k < 8 && *which != "convert"; k++ {
			mccS, mnc := digits(r, 3), digits(r, 2+k%2)
			var ms, sucis, lens, plmnNas, msins [][]int
			var panics []bool
			var kept []*nasType.MobileIdentity5GS
			for j := 0; j < 6; j++ {
				msin := digits(r, []int{10, 10, 9, 5, 10, 1}[(j+k)%6])
				var sp *nasType.MobileIdentity5GS
				p := ev.Catch(func() { sp = stgutg.EncodeSuci([]byte(mccS+mnc+msin), len(mnc)) })
				kept = append(kept, sp)
				ms, msins, panics = append(ms, ev.Ints([]byte(mnc))), append(msins, ev.Ints([]byte(msin))), append(panics, p != "" || sp == nil)
				plmnNas = append(plmnNas, ev.Ints(nasConvert.PlmnIDToNas(models.PlmnId{Mcc: mccS, Mnc: mnc})))
			}
			for _, sp := range kept {
				if sp == nil {
					sucis, lens = append(sucis, []int{}), append(lens, []int{0})
					continue
				}
				sucis, lens = append(sucis, ev.Ints(sp.Buffer)), append(lens, []int{int(sp.Len)})
			}
			emit(ev.M{"ev": "PlmnRow", "mcc": ev.Ints([]byte(mccS)), "mncs": ms, "msins": msins, "sucis": sucis, "lens": lens, "plmnNas": plmnNas, "panics": panics})
		}
		// the PLMN on the wire: NG Setup request and user location information built from the SUCI octets as ManageNGSetup does
		n := 40
		if thorough {
			n = 400
		}
		if *which == "convert" {
			n = 0
		}
		for i := 0; i < n; i++ {
			mccS, mnc := digits(r, 3), digits(r, 2+r.Intn(2))
			switch i { // a three-digit MNC ending in 0 followed by the two-digit MNC of the same leading digits: the filler nibble must reappear
			case 0:
				mccS, mnc = "001", "010"
			case 1:
				mccS, mnc = "001", "01"
			case 2:
				mccS, mnc = "999", "999"
			case 3:
				mccS, mnc = "000", "00"
			}
			imsi := mccS + mnc + digits(r, 1+r.Intn(10))
			var setup, iue []byte
			p := ev.Catch(func() {
				plmn := stgutg.EncodeSuci([]byte(imsi), len(mnc)).Buffer[1:4]
				setup, _ = tglib.GetNGSetupRequest([]byte{0, 1, 2}, plmn, 24, "x")
				iue, _ = tglib.GetInitialUEMessage(7, []byte{1, 2, 3}, "")
			})
			emit(ev.M{"ev": "WirePlmn", "mcc": ev.Ints([]byte(mccS)), "mnc": ev.Ints([]byte(mnc)), "setup": ev.Ints(setup), "iue": ev.Ints(iue), "panic": p != ""})
		}
	}

	if *which == "convert" || *which == "all" {
		// S-NSSAI
		for sst := 0; sst < 256; sst++ {
			for _, sd := range []string{"", "000000", "ffffff", "010203", hex.EncodeToString(ev.Bytes(r, 3)), "ABCDEF", "7fffff", "800000", "80" + hex.EncodeToString(ev.Bytes(r, 2))} {
				var o []byte
				p := ev.Catch(func() { o = nasConvert.SnssaiToNas(models.Snssai{Sst: int32(sst), Sd: sd}) })
				ev.Hold("S-NSSAI octets returned by SnssaiToNas", o)
				sdb, _ := hex.DecodeString(sd)
				emit(ev.M{"ev": "Snssai", "sst": sst, "sd": ev.Ints(sdb), "out": ev.Ints(o), "panic": p != ""})
			}
		}
		// AMF id: rows of 256 values
		b0s := []int{0, 255, r.Intn(256)}
		if thorough {
			b0s = nil
			for i := 0; i < 32; i++ {
				b0s = append(b0s, (i*8+r.Intn(8))%256)
			}
		}
		for _, b0 := range b0s {
			for b1 := 0; b1 < 256; b1++ {
				var regs, sets, ptrs []int
				for b2 := 0; b2 < 256; b2++ {
					rg, st, pt := nasConvert.AmfIdToNas(fmt.Sprintf("%02x%02x%02x", b0, b1, b2))
					regs, sets, ptrs = append(regs, int(rg)), append(sets, int(st)), append(ptrs, int(pt))
				}
				emit(ev.M{"ev": "AmfIdRow", "b0": b0, "b1": b1, "regions": regs, "sets": sets, "pointers": ptrs})
			}
		}
		// transport layer addresses
		nip := 60
		if thorough {
			nip = 600
		}
		for i := 0; i < nip; i++ {
			v4 := net.IP(ev.Bytes(r, 4))
			v6 := net.IP(ev.Bytes(r, 16))
			switch i % 6 {
			case 0:
				v4 = net.IP{0, 0, 0, 0}
			case 1:
				v4 = net.IP{255, 255, 255, 255}
			case 2:
				v6 = net.ParseIP("::1")
			case 3:
				v6 = net.ParseIP("2001:db8::ff00:42:8329")
			case 4:
				v6 = net.ParseIP("::")
			case 5:
				// all-ones, and an IPv4-mapped IPv6 address (still 128 bits on the wire; Go prints it in dotted form)
				v6 = net.IP{255, 255, 255, 255, 255, 255, 255, 255, 255, 255, 255, 255, 255, 255, 255, 255}
				if i%12 == 5 {
					v6 = net.ParseIP("::ffff:" + v4.String()).To16()
				}
			}
			for mode := 0; mode < 3; mode++ {
				s4, s6 := v4.String(), v6.String()
				var in4, in6 []byte
				if mode == 1 {
					s4 = ""
				} else {
					in4 = v4.To4()
				}
				if mode == 0 {
					s6 = ""
				} else {
					in6 = v6.To16()
				}
				var a ngapType.TransportLayerAddress
				p := ev.Catch(func() { a = ngapConvert.IPAddressToNgap(s4, s6) })
				var o4, o6 string
				p2 := ev.Catch(func() { o4, o6 = ngapConvert.IPAddressToString(a) })
				var b4, b6 []byte
				if o4 != "" {
					b4 = net.ParseIP(o4).To4()
				}
				if o6 != "" {
					b6 = net.ParseIP(o6).To16()
				}
				emit(ev.M{"ev": "Tla", "mode": mode, "v4": ev.Ints(in4), "v6": ev.Ints(in6), "bytes": ev.Ints(a.Value.Bytes), "nbits": a.Value.BitLength,
					"back4": ev.Ints(b4), "back6": ev.Ints(b6), "panicTo": p != "", "panicBack": p2 != ""})
			}
		}
		_ = aper.BitString{}
		// protocol configuration options
		npco := 120
		if thorough {
			npco = 1500
		}
		for i := 0; i < npco; i++ {
			// where the object comes from rotates: the constructor; the zero value; a constructor object on which a helper call was
			// refused first (an IPv6 address handed to the IPv4 helper and vice versa: an error, and nothing may stay behind); an object
			// that has unmarshalled another list before (UnMarshal of an empty list, then filled)
			pco := nasConvert.NewProtocolConfigurationOptions()
			refusedOk := true
			switch i % 4 {
			case 1:
				pco = &nasConvert.ProtocolConfigurationOptions{}
			case 2:
				e1 := pco.AddDNSServerIPv4Address(net.IP(ev.Bytes(r, 16)))
				e2 := pco.AddDNSServerIPv6Address(net.IPv4(10, 0, 0, byte(i)).To4())
				refusedOk = e1 != nil && e2 != nil
			case 3:
				_ = pco.UnMarshal([]byte{0x80})
			}
			n := r.Intn(9)
			if i < 4 { // fixed shapes first: eight empty units, a first unit of length 0, a last unit of length 255, a single unit of length 255
				n = []int{8, 3, 3, 1}[i]
			}
			if i == 4 || i == 5 { // a list longer than 256 octets: a 200-octet unit followed by a 100-octet one, and three units of 255
				n = 2 + (i - 4)
			}
			var ids []int
			var contents [][]int
			for j := 0; j < n; j++ {
				u := nasConvert.NewProtocolOrContainerUnit()
				u.ProtocolOrContainerID = uint16([]int{0, 1, 0x000d, 0x0003, 0x8021, 0xffff, r.Intn(65536)}[r.Intn(7)])
				l := []int{0, 0, 1, 4, 16, 255, r.Intn(256)}[r.Intn(7)]
				switch {
				case i == 0, i == 1 && j == 0:
					l = 0
				case i == 2 && j == n-1, i == 3, i == 5:
					l = 255
				case i == 4:
					l = []int{200, 100}[j]
				}
				u.Contents = ev.Bytes(r, l)
				u.LengthOfContents = uint8(l)
				pco.ProtocolOrContainerList = append(pco.ProtocolOrContainerList, u)
				ids = append(ids, int(u.ProtocolOrContainerID))
				contents = append(contents, ev.Ints(u.Contents))
			}
			var b []byte
			p := ev.Catch(func() { b = pco.Marshal() })
			ev.Hold("octets returned by ProtocolConfigurationOptions.Marshal", b)
			back := nasConvert.NewProtocolConfigurationOptions()
			var err error
			p2 := ev.Catch(func() { err = back.UnMarshal(b) })
			var bids []int
			var bcontents [][]int
			for _, u := range back.ProtocolOrContainerList {
				bids = append(bids, int(u.ProtocolOrContainerID))
				bcontents = append(bcontents, ev.Ints(u.Contents))
			}
			if ids == nil {
				ids = []int{}
			}
			if bids == nil {
				bids = []int{}
			}
			if contents == nil {
				contents = [][]int{}
			}
			if bcontents == nil {
				bcontents = [][]int{}
			}
			emit(ev.M{"ev": "Pco", "ids": ids, "contents": contents, "bytes": ev.Ints(b), "backIds": bids, "backContents": bcontents,
				"panic": p != "" || p2 != "", "err": err != nil || !refusedOk, "origin": i % 4})
		}
		// the helper constructors of the option list (TS 24.008 table 10.5.154 container identifiers)
		for rep := 0; rep < 3; rep++ {
			ip4 := net.IPv4(byte(r.Intn(256)), byte(r.Intn(256)), 0, 255)
			ip6 := net.IP(ev.Bytes(r, 16))
			mtu := []int{1500, 0, 65535}[rep]
			pco := nasConvert.NewProtocolConfigurationOptions()
			var b []byte
			var e1, e2, e3 error
			p := ev.Catch(func() {
				pco.AddDNSServerIPv4AddressRequest()
				pco.AddDNSServerIPv6AddressRequest()
				pco.AddIPAddressAllocationViaNASSignallingUL()
				e1 = pco.AddDNSServerIPv4Address(ip4)
				e2 = pco.AddDNSServerIPv6Address(ip6)
				e3 = pco.AddIPv4LinkMTU(uint16(mtu))
				b = pco.Marshal()
			})
			emit(ev.M{"ev": "PcoHelpers", "ip4": ev.Ints(ip4.To4()), "ip6": ev.Ints(ip6), "mtu": mtu, "bytes": ev.Ints(b),
				"panic": p != "", "err": e1 != nil || e2 != nil || e3 != nil})
			// a primary and a secondary DNS server of each family: two containers with the same identifier (TS 24.008 10.5.6.3)
			{
				ip4b, ip6b := net.IP(ev.Bytes(r, 4)), net.IP(ev.Bytes(r, 16))
				pc := nasConvert.NewProtocolConfigurationOptions()
				var bb []byte
				var f1, f2, f3, f4 error
				pp := ev.Catch(func() {
					f1 = pc.AddDNSServerIPv4Address(ip4)
					f2 = pc.AddDNSServerIPv4Address(ip4b)
					f3 = pc.AddDNSServerIPv6Address(ip6)
					f4 = pc.AddDNSServerIPv6Address(ip6b)
					bb = pc.Marshal()
				})
				emit(ev.M{"ev": "PcoDns", "ip4": ev.Ints(ip4.To4()), "ip4b": ev.Ints(ip4b.To4()), "ip6": ev.Ints(ip6), "ip6b": ev.Ints(ip6b), "bytes": ev.Ints(bb),
					"panic": pp != "", "err": f1 != nil || f2 != nil || f3 != nil || f4 != nil})
			}
		}
		// DNN
		for _, l := range []int{0, 1, 8, 63, 100} {
			d := util_3gpp.Dnn(ev.Bytes(r, l))
			b, _ := d.MarshalBinary()
			var back util_3gpp.Dnn
			p := ev.Catch(func() { _ = back.UnmarshalBinary(b) })
			emit(ev.M{"ev": "Dnn", "in": ev.Ints(d), "bytes": ev.Ints(b), "back": ev.Ints(back), "panic": p != ""})
		}
	}
}
