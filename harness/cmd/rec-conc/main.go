// rec-conc: C20.
//
//	-schedules file : replay TLC-generated goroutine schedules (Conc.tla) through the gate hooks (H4) of the SNOW 3G routines:
//	                  worker g performs NCalls NEA1/NIA1 calls on its own key; a schedule is the order in which the segments
//	                  (InitSnow3g | gap | GenerateKeystream..return) of the workers run.  A worker that blocks somewhere else
//	                  than at a gate (a lock) makes the schedule infeasible: all workers are then released to run freely.
//	-stress G       : G goroutines each running encode/decode/protect/unprotect/derive on their own UE context, free-running.
//
// Results are logged next to the result of the same call executed alone.
package main

import (
	"bufio"
	"bytes"
	"encoding/json"
	"flag"
	"fmt"
	"os"
	"reflect"
	"runtime"
	"strconv"
	"sync"
	"time"

	"free5gclib/UeauCommon"
	"free5gclib/aper"
	"free5gclib/milenage"
	"free5gclib/nas"
	"free5gclib/nas/nasMessage"
	"free5gclib/nas/nasType"
	"free5gclib/nas/nasTestpacket"
	"free5gclib/nas/security"
	"free5gclib/nas/security/snow3g"
	"free5gclib/ngap"
	"free5gclib/ngap/ngapConvert"
	"free5gclib/ngap/ngapType"
	"stgutg"
	"tglib"
	"verifharness/internal/ev"
	te "verifharness/internal/treeexp"
)

func goid() int64 {
	var buf [64]byte
	n := runtime.Stack(buf[:], false)
	f := bytes.Fields(buf[:n])
	id, _ := strconv.ParseInt(string(f[1]), 10, 64)
	return id
}

type sched struct {
	mu      sync.Mutex
	workers map[int64]int // goroutine id -> worker
	resume  []chan bool
	events  chan int // worker reached a gate (or finished: -worker-1)
	free    bool
}

var sc *sched

func gate(point string) {
	s := sc
	if s == nil {
		return
	}
	s.mu.Lock()
	w, ok := s.workers[goid()]
	free := s.free
	s.mu.Unlock()
	if !ok || free {
		return
	}
	s.events <- w
	<-s.resume[w]
}

type call struct {
	op    string
	key   [16]byte
	count uint32
	msg   []byte
}

func doCall(c call) ([]byte, bool) {
	var out []byte
	p := ev.Catch(func() {
		if c.op == "NEA1" {
			b := append([]byte{}, c.msg...)
			security.NASEncrypt(security.AlgCiphering128NEA1, c.key, c.count, 1, 0, b)
			out = b
		} else {
			out, _ = security.NASMacCalculate(security.AlgIntegrity128NIA1, c.key, c.count, 1, 0, c.msg)
		}
	})
	return out, p != ""
}

func replaySchedules(path string, w *ev.Writer, seed int64) {
	f, err := os.Open(path)
	if err != nil {
		fmt.Println("HARNESS-ERROR", err)
		os.Exit(2)
	}
	defer f.Close()
	snow3g.VerifGate = gate
	r := ev.Rng(seed, "conc")
	in := bufio.NewScanner(f)
	in.Buffer(make([]byte, 1<<20), 1<<24)
	id := 0
	for in.Scan() {
		var order []int
		if err := json.Unmarshal(in.Bytes(), &order); err != nil {
			continue
		}
		g := 0
		for _, x := range order {
			if x > g {
				g = x
			}
		}
		ncalls := len(order) / (3 * g)
		calls := make([][]call, g)
		seq := make([][][]byte, g)
		for i := 0; i < g; i++ {
			for c := 0; c < ncalls; c++ {
				cl := call{op: []string{"NEA1", "NIA1"}[r.Intn(2)], count: r.Uint32(), msg: ev.Bytes(r, 5+r.Intn(20))}
				copy(cl.key[:], ev.Bytes(r, 16))
				calls[i] = append(calls[i], cl)
				o, _ := doCall(cl) // executed alone (no scheduler installed yet)
				seq[i] = append(seq[i], o)
			}
		}
		s := &sched{workers: map[int64]int{}, resume: make([]chan bool, g), events: make(chan int, 4*g)}
		results := make([][][]byte, g)
		panics := make([][]bool, g)
		var wg sync.WaitGroup
		started := make(chan bool, g)
		for i := 0; i < g; i++ {
			s.resume[i] = make(chan bool, 1)
			results[i] = make([][]byte, ncalls)
			panics[i] = make([]bool, ncalls)
			wg.Add(1)
			go func(i int) {
				defer wg.Done()
				s.mu.Lock()
				s.workers[goid()] = i
				s.mu.Unlock()
				started <- true
				<-s.resume[i] // wait for the first turn
				for c := range calls[i] {
					results[i][c], panics[i][c] = doCall(calls[i][c])
					// end of the third segment of this call: yield
					s.mu.Lock()
					free := s.free
					s.mu.Unlock()
					if !free && c < len(calls[i])-1 {
						s.events <- i
						<-s.resume[i]
					}
				}
				s.events <- -i - 1
			}(i)
		}
		for i := 0; i < g; i++ {
			<-started
		}
		sc = s
		feasible := true
		done := make([]bool, g)
		// each schedule entry = one segment of that worker: resume it and wait until it yields again
		for _, x := range order {
			wk := x - 1
			if done[wk] {
				continue
			}
			s.resume[wk] <- true
			select {
			case e := <-s.events:
				if e < 0 {
					done[-e-1] = true
				} else if e != wk {
					feasible = false
				}
			case <-time.After(8 * time.Millisecond):
				feasible = false
			}
			if !feasible {
				break
			}
		}
		if !feasible {
			s.mu.Lock()
			s.free = true
			s.mu.Unlock()
			for i := 0; i < g; i++ {
				select {
				case s.resume[i] <- true:
				default:
				}
			}
		}
		// drain and finish
		fin := make(chan bool)
		go func() { wg.Wait(); close(fin) }()
	drain:
		for {
			select {
			case e := <-s.events:
				if e >= 0 {
					select {
					case s.resume[e] <- true:
					default:
					}
				}
			case <-fin:
				break drain
			case <-time.After(3 * time.Second):
				fmt.Println("HARNESS-ERROR: workers did not finish")
				os.Exit(2)
			}
		}
		sc = nil
		w.Emit(ev.M{"ev": "Sched", "id": id, "order": order, "feasible": feasible})
		for i := 0; i < g; i++ {
			for c := range calls[i] {
				cl := calls[i][c]
				w.Emit(ev.M{"ev": "Op", "id": id, "mode": fmt.Sprint("schedule ", order), "op": cl.op, "key": ev.Ints(cl.key[:]), "count": ev.BE32(cl.count),
					"msg": ev.Ints(cl.msg), "result": ev.Ints(results[i][c]), "seq": ev.Ints(seq[i][c]), "panic": panics[i][c], "check": id%16 == 0})
			}
		}
		id++
	}
}

// one worker's workload in the stress run: every family of operation on its own context
func workload(seed int64, rounds int) [][]byte {
	r := ev.Rng(seed, "stress")
	var outs [][]byte
	ue := tglib.NewRanUeContext(fmt.Sprintf("imsi-20893%010d", seed), seed, uint8(seed%3), uint8(1+seed%2))
	copy(ue.KnasEnc[:], ev.Bytes(r, 16))
	copy(ue.KnasInt[:], ev.Bytes(r, 16))
	ue.AuthenticationSubs = tglib.GetAuthSubscription(fmt.Sprintf("%x", ev.Bytes(r, 16)), fmt.Sprintf("%x", ev.Bytes(r, 16)), "")
	if seed%2 == 1 {
		// every other subscriber is provisioned with OP only (OPc is derived at authentication time)
		ue.AuthenticationSubs = tglib.GetAuthSubscription(fmt.Sprintf("%x", ev.Bytes(r, 16)), "", fmt.Sprintf("%x", ev.Bytes(r, 16)))
	}
	for i := 0; i < rounds; i++ {
		// NGAP encode / decode
		nasPdu := ev.Bytes(r, 10+r.Intn(40))
		b, _ := tglib.GetUplinkNASTransport(seed*1000+int64(i), seed, nasPdu)
		outs = append(outs, b)
		if pdu, err := ngap.Decoder(b); err == nil {
			b2, _ := ngap.Encoder(*pdu)
			outs = append(outs, b2)
		}
		// NAS protect
		plain := nasTestpacket.GetUlNasTransport_PduSessionReleaseRequest(uint8(1 + i%15))
		p, _ := tglib.EncodeNasPduWithSecurity(ue, plain, nas.SecurityHeaderTypeIntegrityProtectedAndCiphered, true, i == 0)
		outs = append(outs, p)
		// NAS plain decode / encode
		m := nas.NewMessage()
		pl := append([]byte{}, plain...)
		if m.PlainNasDecode(&pl) == nil {
			e, _ := m.PlainNasEncode()
			outs = append(outs, e)
		}
		// ciphering / integrity with both algorithm families
		for _, alg := range []uint8{1, 2} {
			c := append([]byte{}, nasPdu...)
			security.NASEncrypt(alg, ue.KnasEnc, uint32(i), 1, 0, c)
			mac, _ := security.NASMacCalculate(alg, ue.KnasInt, uint32(i), 1, 1, nasPdu)
			outs = append(outs, c, mac)
		}
		// key derivation
		if i%4 == 0 {
			var autn [16]byte
			copy(autn[:], ev.Bytes(r, 16))
			res := ue.DeriveRESstarAndSetKey(ue.AuthenticationSubs, autn, ev.Bytes(r, 16), "5G:mnc093.mcc208.3gppnetwork.org", "93", "208")
			outs = append(outs, res, append([]byte{}, ue.Kamf...), append([]byte{}, ue.KnasInt[:]...))
		}
		// the other code paths of the emulator: SUCI and registration request, initial UE message, setup response with its transfer
		// and address conversion, a transfer container decoded on its own, the Milenage functions directly
		if i%2 == 0 {
			imsi := fmt.Sprintf("20893%010d", seed*100+int64(i))
			suci := stgutg.EncodeSuci([]byte(imsi), 2)
			capab := &nasType.UESecurityCapability{Iei: nasMessage.RegistrationRequestUESecurityCapabilityType, Len: 2, Buffer: []uint8{0x80, 0x20}}
			reg := nasTestpacket.GetRegistrationRequest(nasMessage.RegistrationType5GSInitialRegistration, *suci, nil, capab, nil, nil, nil)
			iue, _ := tglib.GetInitialUEMessage(seed, reg, "")
			ip := ngapConvert.IPAddressToNgap(fmt.Sprintf("10.%d.%d.%d", seed%250, i%250, 1+i%200), "")
			v4, _ := ngapConvert.IPAddressToString(ip)
			sr, _ := tglib.GetPDUSessionResourceSetupResponse(seed*7+int64(i), seed, int64(1+i%15), v4)
			outs = append(outs, reg, iue, []byte(v4), sr)
			g := &te.Gen{R: r, MaxList: 2, MaxStr: 8}
			tv := reflect.New(reflect.TypeOf(ngapType.PDUSessionResourceSetupRequestTransfer{})).Elem()
			g.Fill(tv, te.Parse("valueExt"), 1)
			if tb, err := aper.MarshalWithParams(tv.Interface(), "valueExt"); err == nil {
				var back ngapType.PDUSessionResourceSetupRequestTransfer
				if aper.UnmarshalWithParams(tb, &back, "valueExt") == nil {
					tb2, _ := aper.MarshalWithParams(back, "valueExt")
					outs = append(outs, tb, tb2)
				}
			}
			k, opc, rnd := ev.Bytes(r, 16), ev.Bytes(r, 16), ev.Bytes(r, 16)
			macA, macS := make([]byte, 8), make([]byte, 8)
			res, ck, ik, ak, aks := make([]byte, 8), make([]byte, 16), make([]byte, 16), make([]byte, 6), make([]byte, 6)
			milenage.F1(opc, k, rnd, ev.Bytes(r, 6), []byte{0x80, 0}, macA, macS)
			milenage.F2345(opc, k, rnd, res, ck, ik, ak, aks)
			outs = append(outs, macA, macS, res, ck, ik, ak, aks)
		}
	}
	return outs
}

// tight variant: nothing but the ciphering / integrity primitives and the codecs, each goroutine under its own keys, many iterations
// (a cache or pool that is only wrong while two goroutines use different parameters needs many closely spaced calls to show)
func workloadTight(seed int64, iters int) [][]byte {
	r := ev.Rng(seed, "tight")
	var kenc, kint [16]byte
	copy(kenc[:], ev.Bytes(r, 16))
	copy(kint[:], ev.Bytes(r, 16))
	msg := ev.Bytes(r, 33+int(seed%7))
	longMsg := ev.Bytes(r, 2300+int(seed)*512)
	var outs [][]byte
	// a UE context of its own for the downlink direction (tglib.NASDecode): algorithms and keys differ per goroutine
	ue := tglib.NewRanUeContext(fmt.Sprintf("imsi-20893%010d", seed), seed, uint8(1+seed%2), uint8(1+seed%2))
	ue.KnasEnc, ue.KnasInt = kenc, kint
	ue.AuthenticationSubs = tglib.GetAuthSubscription(fmt.Sprintf("%x", ev.Bytes(r, 16)), fmt.Sprintf("%x", ev.Bytes(r, 16)), "")
	if seed%2 == 0 {
		ue.AuthenticationSubs = tglib.GetAuthSubscription(fmt.Sprintf("%x", ev.Bytes(r, 16)), "", fmt.Sprintf("%x", ev.Bytes(r, 16)))
	}
	dlPlain := []byte{0x7e, 0x00, 0x54, 0xd1}
	// first phase, entered by all workers at the same moment: nothing but decodings of a deeply nested message of this worker's own
	// (with many workers, many decodings are in flight at once)
	hr, _ := tglib.GetHandoverRequired(seed*100000, seed, []byte{0, 1, byte(seed)}, []byte{0, 0, 0, byte(seed), 0x10})
	for k := 0; k < 150; k++ {
		if pdu, err := ngap.Decoder(hr); err == nil && pdu != nil {
			if k%50 == 0 {
				b2, _ := ngap.Encoder(*pdu)
				outs = append(outs, b2)
			}
		} else {
			outs = append(outs, []byte(fmt.Sprint("decode error at ", k)))
		}
	}
	for i := 0; i < iters; i++ {
		if i%4 == 0 {
			c := uint32(i/4 + 1)
			body := append([]byte{}, dlPlain...)
			security.NASEncrypt(ue.CipheringAlg, kenc, c, 1, 1, body)
			withSqn := append([]byte{byte(c)}, body...)
			mac, _ := security.NASMacCalculate(ue.IntegrityAlg, kint, c, 1, 1, withSqn)
			pdu := append(append([]byte{0x7e, 0x02}, mac...), withSqn...)
			if m, err := tglib.NASDecode(ue, 2, pdu); err == nil && m != nil {
				e, _ := m.PlainNasEncode()
				outs = append(outs, e, []byte{byte(ue.DLCount.Get() >> 16), byte(ue.DLCount.Get() >> 8), byte(ue.DLCount.Get())})
			} else {
				outs = append(outs, []byte("decode error"))
			}
		}
		for _, alg := range []uint8{2, 1} {
			c := append([]byte{}, msg...)
			security.NASEncrypt(alg, kenc, uint32(i), 1, uint8(i%2), c)
			mac, _ := security.NASMacCalculate(alg, kint, uint32(i), 1, uint8(i%2), msg)
			outs = append(outs, c, mac)
		}
		if i%16 == 9 && seed%2 == 0 {
			// every other worker also ciphers long messages (several KiB: many keystream blocks per call) while the others keep
			// calling the same primitives
			for _, alg := range []uint8{1, 2} {
				c := append([]byte{}, longMsg...)
				security.NASEncrypt(alg, kenc, uint32(i), 1, 0, c)
				mac, _ := security.NASMacCalculate(alg, kint, uint32(i), 1, 0, longMsg)
				outs = append(outs, c[len(c)-64:], c[1000:1064], mac)
			}
		}
		// key derivation function and the complete UE-side derivation, under this goroutine's own key material (the same FC values are
		// in use by every goroutine at the same time)
		if i%2 == 1 {
			p0 := []byte(fmt.Sprintf("5G:mnc%03d.mcc%03d.3gppnetwork.org", seed%1000, (seed*7)%1000))
			p1 := []byte{byte(seed), byte(i), byte(i >> 8), 4, 5, 6}
			for _, fc := range []string{UeauCommon.FC_FOR_KAUSF_DERIVATION, UeauCommon.FC_FOR_KSEAF_DERIVATION, UeauCommon.FC_FOR_ALGORITHM_KEY_DERIVATION} {
				outs = append(outs, UeauCommon.GetKDFValue(kenc[:], fc, p0, UeauCommon.KDFLen(p0), p1, UeauCommon.KDFLen(p1)))
			}
		}
		if i%4 == 2 {
			// the Milenage functions directly (f1 / f1* and f2..f5*), under this goroutine's own K / OPc / RAND
			macA, macS := make([]byte, 8), make([]byte, 8)
			res, ck, ik, ak, aks := make([]byte, 8), make([]byte, 16), make([]byte, 16), make([]byte, 6), make([]byte, 6)
			rnd := []byte{byte(seed), byte(i), byte(i >> 8), 3, 4, 5, 6, 7, 8, 9, 10, 11, 12, 13, 14, 15}
			acc := make([]byte, 16)
			for burst := 0; burst < 24; burst++ { // a burst of closely spaced calls; the outputs are folded into one record
				rnd[3] = byte(burst)
				milenage.F1(kint[:], kenc[:], rnd, []byte{0, 0, byte(seed), byte(i >> 8), byte(i), 1}, []byte{0x80, 0}, macA, macS)
				milenage.F2345(kint[:], kenc[:], rnd, res, ck, ik, ak, aks)
				for x := 0; x < 8; x++ {
					acc[x] ^= macA[x] + byte(burst)
					acc[8+x] ^= macS[x] ^ res[x] ^ ck[x] ^ ik[x+8]
				}
			}
			outs = append(outs, acc, macA, macS, res, ck, ik, ak, aks)
		}
		if i%16 == 5 {
			var autn [16]byte
			copy(autn[:], msg)
			autn[0] ^= byte(i)
			res := ue.DeriveRESstarAndSetKey(ue.AuthenticationSubs, autn, kint[:], "5G:mnc093.mcc208.3gppnetwork.org", "93", "208")
			outs = append(outs, res, append([]byte{}, ue.Kamf...), append([]byte{}, ue.KnasInt[:]...), append([]byte{}, ue.KnasEnc[:]...))
			ue.KnasEnc, ue.KnasInt = kenc, kint
		}
		if i%8 == 0 {
			b, _ := tglib.GetUplinkNASTransport(seed*100000+int64(i), seed, msg)
			outs = append(outs, b)
			if pdu, err := ngap.Decoder(b); err == nil {
				b2, _ := ngap.Encoder(*pdu)
				outs = append(outs, b2)
			}
			// a burst of decodings (with many workers, many decodings are in flight at once), of a deeply nested message too
			for k := 0; k < 12; k++ {
				in := b
				if pdu, err := ngap.Decoder(in); err == nil && pdu != nil {
					outs = append(outs, []byte{byte(pdu.Present)})
				} else {
					outs = append(outs, []byte("decode error"))
				}
			}
		}
	}
	return outs
}

func stress(g, rounds int, w *ev.Writer) {
	wl := workload
	if rounds >= 1000 { // -rounds 1000+N selects the tight workload with N iterations
		wl = func(seed int64, _ int) [][]byte { return workloadTight(seed, rounds-1000) }
	}
	// the concurrent pass comes first: whatever the code initialises lazily (a cache, a table filled on first use) is still cold when
	// the goroutines start together; the sequential reference is computed afterwards
	conc := make([][][]byte, g)
	pan := make([]bool, g)
	var wg sync.WaitGroup
	start := make(chan bool)
	for i := 0; i < g; i++ {
		wg.Add(1)
		go func(i int) {
			defer wg.Done()
			<-start
			pan[i] = ev.Catch(func() { conc[i] = wl(int64(i+1), rounds) }) != ""
		}(i)
	}
	close(start)
	wg.Wait()
	seq := make([][][]byte, g)
	for i := 0; i < g; i++ {
		seq[i] = wl(int64(i+1), rounds)
	}
	for i := 0; i < g; i++ {
		same := !pan[i] && reflect.DeepEqual(seq[i], conc[i])
		var a, b []byte
		if !same && !pan[i] {
			for k := range seq[i] {
				if k >= len(conc[i]) || !bytes.Equal(seq[i][k], conc[i][k]) {
					a = seq[i][k]
					if k < len(conc[i]) {
						b = conc[i][k]
					}
					break
				}
			}
		}
		w.Emit(ev.M{"ev": "Op", "id": fmt.Sprint("stress-", g, "-", i), "mode": fmt.Sprint("free-running stress with ", g, " goroutines"), "op": "workload",
			"result": ev.Ints(b), "seq": ev.Ints(a), "panic": pan[i], "check": false, "outputs": len(seq[i])})
	}
}

func main() {
	seed := flag.Int64("seed", 1, "")
	out := flag.String("out", "conc.ndjson", "")
	schedules := flag.String("schedules", "", "")
	g := flag.Int("stress", 0, "")
	rounds := flag.Int("rounds", 20, "")
	flag.Parse()
	w := ev.Create(*out)
	defer w.Close()
	if *schedules != "" {
		replaySchedules(*schedules, w, *seed)
	}
	if *g > 0 {
		stress(*g, *rounds, w)
	}
}
