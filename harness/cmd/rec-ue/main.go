// rec-ue: recorder for C16.  Creates UE populations with stgutg.CreateUE exactly as the UE loops of main() do
// and logs the identity fields of the contexts.
package main

import (
	"flag"
	"fmt"
	"math/rand"

	"free5gclib/nas/nasMessage"
	"stgutg"
	"tglib"
	"verifharness/internal/ev"
)

func digits(r *rand.Rand, n int) string {
	b := make([]byte, n)
	for i := range b {
		b[i] = byte('0' + r.Intn(10))
	}
	return string(b)
}

func main() {
	seed := flag.Int64("seed", 1, "")
	tier := flag.String("tier", "quick", "")
	out := flag.String("out", "ue.ndjson", "")
	flag.Parse()
	r := ev.Rng(*seed, "ue")
	w := ev.Create(*out)
	defer w.Close()
	sizes := []int{1, 2, 10, 300}
	reps := 2
	if *tier == "thorough" {
		sizes = []int{1, 2, 10, 9999, 10000}
		reps = 4
	}
	id := 0
	var prevKept []*tglib.RanUeContext
	var prevKeys [3]string
	population := func(imsi string, mncLen, n int) {
		k, opc, op := fmt.Sprintf("%x", ev.Bytes(r, 16)), fmt.Sprintf("%X", ev.Bytes(r, 16)), fmt.Sprintf("%x", ev.Bytes(r, 16))
		switch id % 4 { // keys whose text begins with zero digits must arrive digit for digit
		case 1:
			k = "0" + k[1:]
		case 2:
			opc, op = "00"+opc[2:], "000"+op[3:]
		case 3:
			k, op = "0000"+k[4:], "0"+op[1:]
		}
		switch id % 8 { // OPc alone, OP alone (the other key of the configuration left empty)
		case 5:
			op = ""
		case 7:
			opc = ""
		}
		supis, rans := [][]int{}, []int{} // (never nil: a population whose first CreateUE fails is still an event the specification can read)
		okKeys, okCaps := true, true
		var kept []*tglib.RanUeContext
		p := ev.Catch(func() {
			for i := 0; i < n; i++ {
				ue := stgutg.CreateUE(imsi, i, k, opc, op)
				if i < 3 {
					kept = append(kept, ue)
				}
				supis = append(supis, ev.Ints([]byte(ue.Supi)))
				rans = append(rans, int(ue.RanUeNgapId))
				a := ue.AuthenticationSubs
				if a.PermanentKey == nil || a.PermanentKey.PermanentKeyValue != k || a.Opc == nil || a.Opc.OpcValue != opc ||
					a.Milenage == nil || a.Milenage.Op == nil || a.Milenage.Op.OpValue != op {
					okKeys = false
				}
				c := ue.GetUESecurityCapability()
				// exactly the algorithms of the context: octet 1 = 5G-EA bits, octet 2 = 5G-IA bits (TS 24.501 9.11.3.54)
				wantEA := byte(0x80) >> ue.CipheringAlg
				wantIA := byte(0x80) >> ue.IntegrityAlg
				if c == nil || c.Iei != nasMessage.RegistrationRequestUESecurityCapabilityType || len(c.Buffer) < 2 || c.Buffer[0] != wantEA || c.Buffer[1] != wantIA {
					okCaps = false
				}
			}
		})
		// the UEs of the previous population must still carry their own K / OP / OPc now that other UEs exist
		for _, ue := range prevKept {
			a := ue.AuthenticationSubs
			if a.PermanentKey == nil || a.PermanentKey.PermanentKeyValue != prevKeys[0] || a.Opc == nil || a.Opc.OpcValue != prevKeys[1] ||
				a.Milenage == nil || a.Milenage.Op == nil || a.Milenage.Op.OpValue != prevKeys[2] {
				okKeys = false
			}
		}
		prevKept, prevKeys = kept, [3]string{k, opc, op}
		w.Emit(ev.M{"ev": "Population", "id": id, "imsi": ev.Ints([]byte(imsi)), "mncLen": mncLen, "n": n, "supis": supis, "rans": rans,
			"keysEqual": okKeys, "capsExact": okCaps, "panic": p != ""})
		id++
	}
	for rep := 0; rep < reps; rep++ {
		szs := sizes
		if *tier != "thorough" && rep == 0 {
			szs = append(append([]int{}, sizes...), 10000) // the largest population once in the quick tier too
		}
		for _, n := range szs {
			for _, mncLen := range []int{2, 3} {
				if *tier != "thorough" && n == 10000 && mncLen == 3 {
					continue
				}
				msinLen := 5 + r.Intn(6)
				if 3+mncLen+msinLen > 15 {
					msinLen = 15 - 3 - mncLen
				}
				var msin string
				switch (rep + n) % 4 {
				case 0: // leading zeros
					msin = fmt.Sprintf("%0*d", msinLen, r.Intn(5))
				case 1: // close to exhaustion of the MSIN digits
					lim := 1
					for i := 0; i < msinLen; i++ {
						lim *= 10
					}
					if lim-n-1 < 0 {
						msin = fmt.Sprintf("%0*d", msinLen, 0)
					} else {
						msin = fmt.Sprintf("%0*d", msinLen, lim-n-r.Intn(2))
					}
				default:
					msin = digits(r, msinLen)
					if len(msin) > 0 && msinLen >= 5 { // leave room for n UEs
						msin = "1" + msin[1:]
					}
				}
				if (rep+n)%4 == 2 && n >= 2 && msinLen >= 3 {
					// the population crosses a power of ten inside the MSIN: the carry must run through every digit
					j := []int{msinLen - 1, 9, 4, 2}[id%4]
					if j >= msinLen {
						j = msinLen - 1
					}
					p10 := 1
					for i := 0; i < j; i++ {
						p10 *= 10
					}
					msin = fmt.Sprintf("%0*d", msinLen, p10-1-r.Intn(n-1))
				}
				mcc := []string{"001", "208", "999", digits(r, 3)}[r.Intn(4)]
				mnc := digits(r, mncLen)
				if rep == 0 {
					mcc = "001" // leading zeros in the MCC
				}
				population(mcc+mnc+msin, mncLen, n)
			}
		}
	}
	// populations that cross each power of ten inside a 10-digit MSIN (the carry must run through every digit, also beyond the ninth)
	for j := 1; j <= 9; j++ {
		p10 := 1
		for i := 0; i < j; i++ {
			p10 *= 10
		}
		population(fmt.Sprintf("20893%010d", p10-2), 2, 5)
		population(fmt.Sprintf("310260%09d", (p10-2)%1000000000), 3, 5)
	}
	// populations that end exactly at, and one before, the last MSIN of their length (five-digit MSIN, both MNC lengths); the largest
	// population with a three-digit MNC; short MSINs (IMSIs of 8 and 9 digits)
	for _, n := range []int{1, 2, 300} {
		population(fmt.Sprintf("00101%05d", 100000-n), 2, n)
		population(fmt.Sprintf("310260%05d", 100000-n-1), 3, n)
	}
	population("31026090000", 3, 10000)
	// 10000 subscribers whose IMSI values straddle a multiple of 2^32 (identifiers derived from the IMSI through a 32-bit type wrap there)
	{
		lo := uint64(208930000000000)
		k := (lo>>32 + 700) << 32 // a multiple of 2^32 inside the MSIN range of 208/93
		population(fmt.Sprintf("%015d", k-5000), 2, 10000)
	}
	population("208930042", 2, 3)
	population("310410998", 3, 2)
	// every pair of algorithms a context may hold: the advertised capability must be exactly those two (TS 24.501 9.11.3.54)
	for enc := 0; enc < 4; enc++ {
		for integ := 0; integ < 4; integ++ {
			ue := tglib.NewRanUeContext("imsi-2089300000001", 1, uint8(enc), uint8(integ))
			var buf []int
			var iei, ln int
			p := ev.Catch(func() {
				c := ue.GetUESecurityCapability()
				buf, iei, ln = ev.Ints(c.Buffer), int(c.Iei), int(c.Len)
			})
			w.Emit(ev.M{"ev": "Caps", "id": id, "enc": enc, "int": integ, "buf": buf, "iei": iei, "len": ln, "panic": p != ""})
			id++
		}
	}
}
