// rec-per: recorder for C03 / C04.  Builds constraint-satisfying (and a few deliberately violating) values of
// every NGAP PDU type, of the transfer containers and of dynamically built primitive schemas, runs the real
// encoder / decoder / re-encoder on them and logs value tree + bytes + decoded tree + re-encoded bytes.
package main

import (
	"encoding/json"
	"flag"
	"fmt"
	"os"
	"reflect"

	"free5gclib/aper"
	"free5gclib/ngap"
	"free5gclib/ngap/ngapType"
	"verifharness/internal/ev"
	te "verifharness/internal/treeexp"
)

const pduTag = "valueExt,valueLB:0,valueUB:2"

var transferTypes = te.TransferTypes

type rec struct {
	w    *ev.Writer
	id   int
	spec map[int][]byte // second pass (C04): canonical bytes of the reference encoder for some case ids; nil in the first pass
}

// second pass: the generation is replayed deterministically; for the case ids listed in spec the bytes produced by the reference
// encoder (Per.tla) are fed to the real decoder, the result is exported and re-encoded.  Returns true if this is the second pass.
func (r *rec) second(name, cls string, tree ev.M, decode func(b []byte) (reflect.Value, error), encode func(v reflect.Value) ([]byte, error), export func(v reflect.Value) ev.M) bool {
	if r.spec == nil {
		return false
	}
	id := r.id
	r.id++
	b, ok := r.spec[id]
	if !ok {
		return true
	}
	var out reflect.Value
	var derr error
	pd := ev.Catch(func() { out, derr = decode(b) })
	obs := ev.M{"err": derr != nil || pd != "", "panic": pd != ""}
	if derr == nil && pd == "" {
		obs["tree"] = export(out)
		var b2 []byte
		var e2 error
		p2 := ev.Catch(func() { b2, e2 = encode(out) })
		obs["reErr"] = e2 != nil || p2 != ""
		obs["reBytes"] = ev.Ints(b2)
	}
	r.w.Emit(ev.M{"ev": "Dec", "id": id, "name": name, "cls": cls, "tree": tree, "bytes": ev.Ints(b), "obs": obs})
	return true
}

// roundtrip: encode with the real encoder, decode the result with the real decoder, re-encode.
func (r *rec) roundtrip(name, cls string, val reflect.Value, tag string, violated bool) {
	p := te.Parse(tag)
	tree := te.Export(val, p)
	if r.second(name, cls, tree,
		func(b []byte) (reflect.Value, error) {
			out := reflect.New(val.Type())
			err := aper.UnmarshalWithParams(b, out.Interface(), tag)
			return out.Elem(), err
		},
		func(v reflect.Value) ([]byte, error) { return aper.MarshalWithParams(v.Interface(), tag) },
		func(v reflect.Value) ev.M { return te.Export(v, p) }) {
		return
	}
	var b []byte
	var err error
	pn := ev.Catch(func() { b, err = aper.MarshalWithParams(val.Interface(), tag) })
	ev.Hold("octets returned by aper.MarshalWithParams", b)
	e := ev.M{"ev": "Enc", "id": r.id, "name": name, "cls": cls, "tree": tree, "bytes": ev.Ints(b), "err": err != nil || pn != "",
		"panic": pn != "", "violated": violated}
	r.id++
	dec := ev.M{"done": false}
	if err == nil && pn == "" {
		out := reflect.New(val.Type())
		var derr error
		// the decoder works on a buffer of its caller (the emulator reads every message into one receive buffer): once the call has
		// returned the buffer is overwritten, and the decoded value must not change with it
		in := append([]byte{}, b...)
		pd := ev.Catch(func() { derr = aper.UnmarshalWithParams(in, out.Interface(), tag) })
		for i := range in {
			in[i] = 0x55
		}
		dec = ev.M{"done": true, "err": derr != nil || pd != "", "panic": pd != ""}
		if derr == nil && pd == "" {
			dec["tree"] = te.Export(out.Elem(), p)
			var b2 []byte
			var e2 error
			p2 := ev.Catch(func() { b2, e2 = aper.MarshalWithParams(out.Elem().Interface(), tag) })
			dec["reErr"] = e2 != nil || p2 != ""
			dec["reBytes"] = ev.Ints(b2)
		}
	}
	e["dec"] = dec
	r.w.Emit(e)
}

func pduCases(r *rec, g *te.Gen, perType int, badEvery int, rot int) {
	tops := []struct {
		present int
		val     interface{}
	}{{1, ngapType.InitiatingMessageValue{}}, {2, ngapType.SuccessfulOutcomeValue{}}, {3, ngapType.UnsuccessfulOutcomeValue{}}}
	n := 0
	for _, top := range tops {
		vt := reflect.TypeOf(top.val)
		for alt := 1; alt < vt.NumField(); alt++ {
			for k := 0; k < perType; k++ {
				g.BadProb, g.Violated = 0, false
				// the third value and every second one prefer content-bearing alternatives and extension values
				g.Rich, g.MaxList = k == 2 || k%2 == 1, []int{2, 5, 1, 3}[k%4]
				g.Full = 0
				if k == 0 {
					g.Full = 1 // every IE alternative of the message once, every OPTIONAL present
				} else if k == 1 {
					g.Full, g.Rich = 2, false // every OPTIONAL absent, lists at their lower bound
				}
				// the full and the minimal value of each message stay within constraints; which messages get deliberate violations rotates with the seed
				if badEvery > 0 && (n+3*rot)%badEvery == badEvery-1 && k >= 2 {
					g.BadProb = 0.05
				}
				n++
				pdu := ngapType.NGAPPDU{Present: top.present}
				pv := reflect.ValueOf(&pdu).Elem()
				msg := pv.Field(top.present)
				msg.Set(reflect.New(msg.Type().Elem()))
				m := msg.Elem()
				g.Fill(m.Field(1), te.Parse(m.Type().Field(1).Tag.Get("aper")), 1) // criticality
				g.FillAlt(m.Field(2), alt, 1)
				ap := te.Parse(vt.Field(alt).Tag.Get("aper"))
				m.Field(0).Field(0).SetInt(*ap.RefValue)
				// through the NGAP entry points
				name := vt.Field(alt).Name
				tree := te.Export(pv, te.Parse(pduTag))
				if r.second(name, fmt.Sprint("pdu", top.present), tree,
					func(b []byte) (reflect.Value, error) {
						out, err := ngap.Decoder(b)
						if out == nil {
							return reflect.Value{}, fmt.Errorf("nil PDU")
						}
						return reflect.ValueOf(out).Elem(), err
					},
					func(v reflect.Value) ([]byte, error) { return ngap.Encoder(v.Interface().(ngapType.NGAPPDU)) },
					func(v reflect.Value) ev.M { return te.Export(v, te.Parse(pduTag)) }) {
					continue
				}
				var b []byte
				var err error
				pn := ev.Catch(func() { b, err = ngap.Encoder(pdu) })
				ev.Hold("octets returned by ngap.Encoder", b)
				e := ev.M{"ev": "Enc", "id": r.id, "name": name, "cls": fmt.Sprint("pdu", top.present), "tree": tree, "bytes": ev.Ints(b),
					"err": err != nil || pn != "", "panic": pn != "", "violated": g.Violated}
				r.id++
				dec := ev.M{"done": false}
				if err == nil && pn == "" {
					var out *ngapType.NGAPPDU
					var derr error
					in := append([]byte{}, b...)
					pd := ev.Catch(func() { out, derr = ngap.Decoder(in) })
					for i := range in {
						in[i] = 0x55
					}
					dec = ev.M{"done": true, "err": derr != nil || pd != "", "panic": pd != ""}
					if derr == nil && pd == "" && out != nil {
						dec["tree"] = te.Export(reflect.ValueOf(out).Elem(), te.Parse(pduTag))
						var b2 []byte
						var e2 error
						p2 := ev.Catch(func() { b2, e2 = ngap.Encoder(*out) })
						dec["reErr"] = e2 != nil || p2 != ""
						dec["reBytes"] = ev.Ints(b2)
					}
				}
				e["dec"] = dec
				r.w.Emit(e)
			}
		}
	}
	for ti, tv := range transferTypes {
		for k := 0; k < perType; k++ {
			g.BadProb, g.Violated = 0, false
			g.Rich, g.MaxList = k == 2 || k%2 == 1, []int{2, 5, 1, 3}[k%4]
			g.Full = 0
			if k == 0 {
				g.Full = 1
			} else if k == 1 {
				g.Full, g.Rich = 2, false
			}
			if badEvery > 0 && (ti+rot)%4 == 3 && k >= 2 {
				g.BadProb = 0.05 // transfer containers get deliberate violations too
			}
			v := reflect.New(reflect.TypeOf(tv)).Elem()
			g.Fill(v, te.Parse("valueExt"), 1)
			r.roundtrip(v.Type().Name(), "transfer", v, "valueExt", g.Violated)
		}
	}
}

// primitive schemas: a SEQUENCE { pad BIT STRING(SIZE(o)) (shifts the cursor), x <type under test> }
func primCases(r *rec, g *te.Gen, tier string) {
	i64 := reflect.TypeOf(int64(0))
	mkStruct := func(off int, xt reflect.Type, tag string) reflect.Type {
		fs := []reflect.StructField{}
		if off > 0 {
			fs = append(fs, reflect.StructField{Name: "Pad", Type: aper.BitStringType, Tag: reflect.StructTag(fmt.Sprintf(`aper:"sizeLB:%d,sizeUB:%d"`, off, off))})
		}
		fs = append(fs, reflect.StructField{Name: "X", Type: xt, Tag: reflect.StructTag(`aper:"` + tag + `"`)})
		// a three-bit field behind the value under test: whatever the primitive leaves in the bit cursor shows in where this one lands
		fs = append(fs, reflect.StructField{Name: "Z", Type: reflect.TypeOf(int64(0)), Tag: `aper:"valueLB:0,valueUB:7"`})
		return reflect.StructOf(fs)
	}
	run := func(cls string, off int, xt reflect.Type, tag string, set func(x reflect.Value)) {
		st := mkStruct(off, xt, tag)
		v := reflect.New(st).Elem()
		if off > 0 {
			b := make([]byte, 1)
			b[0] = byte(0xff << uint(8-off))
			v.Field(0).Set(reflect.ValueOf(aper.BitString{Bytes: b, BitLength: uint64(off)}))
		}
		set(v.Field(v.NumField() - 2))
		v.Field(v.NumField() - 1).SetInt(5)
		r.roundtrip(cls, "prim:"+cls, v, "", false)
	}
	offs := []int{0, 1, 7}
	if tier == "thorough" {
		offs = []int{0, 1, 2, 3, 4, 5, 6, 7}
	}
	// INTEGER: small ranges exhaustively
	lim := 18
	if tier == "thorough" {
		lim = 70
	}
	for lb := int64(-3); lb <= 3; lb++ {
		for w := int64(0); w <= int64(lim); w++ {
			ub := lb + w
			for _, ext := range []string{"", ",valueExt"} {
				for _, x := range []int64{lb - 1, lb, lb + 1, lb + w/2, ub - 1, ub, ub + 1} {
					if x < lb-1 || x > ub+1 {
						continue
					}
					xx := x
					off := offs[int(uint64(lb+w+x+100))%len(offs)]
					run("int", off, i64, fmt.Sprintf("valueLB:%d,valueUB:%d%s", lb, ub, ext), func(f reflect.Value) { f.SetInt(xx) })
				}
			}
		}
	}
	// INTEGER: ranges of size 2^k-1, 2^k, 2^k+1 and octet-length boundaries of the value
	for k := uint(1); k <= 40; k++ {
		for _, d := range []int64{-1, 0, 1} {
			size := (int64(1) << k) + d
			if size < 1 {
				continue
			}
			for _, lb := range []int64{0, 1, 1000} {
				ub := lb + size - 1
				vals := []int64{lb, ub, lb + size/2}
				for _, j := range []uint{8, 16, 24, 32} {
					for _, dd := range []int64{-1, 0} {
						x := lb + (int64(1) << j) + dd
						if x >= lb && x <= ub {
							vals = append(vals, x)
						}
					}
				}
				for _, x := range vals {
					xx := x
					run("bigint", offs[int(k)%len(offs)], i64, fmt.Sprintf("valueLB:%d,valueUB:%d", lb, ub), func(f reflect.Value) { f.SetInt(xx) })
				}
			}
		}
	}
	// semi-constrained and unconstrained INTEGER
	for _, x := range []int64{0, 1, 127, 128, 255, 256, 32767, 32768, 65535, 65536, 1 << 23, 1<<24 - 1, 1 << 24} {
		xx := x
		run("semiint", offs[int(x)%len(offs)], i64, "valueLB:0", func(f reflect.Value) { f.SetInt(xx) })
		run("semiint", 0, i64, "valueLB:5", func(f reflect.Value) { f.SetInt(xx + 5) })
		run("unconsint", offs[int(x)%len(offs)], i64, "", func(f reflect.Value) { f.SetInt(xx) })
		run("unconsint", 0, i64, "", func(f reflect.Value) { f.SetInt(-xx) })
		run("unconsint", 0, i64, "", func(f reflect.Value) { f.SetInt(-xx - 1) })
	}
	// ENUMERATED
	for _, n := range []int64{1, 2, 3, 4, 5, 8, 9, 16, 17, 128, 129, 255, 256, 257, 300} {
		for _, ext := range []string{"", ",valueExt"} {
			for _, x := range []int64{0, n / 2, n - 1, n} {
				xx := x
				run("enum", offs[int(n)%len(offs)], aper.EnumeratedType, fmt.Sprintf("valueLB:0,valueUB:%d%s", n-1, ext), func(f reflect.Value) { f.SetUint(uint64(xx)) })
			}
		}
	}
	// BIT STRING / OCTET STRING
	bounds := [][2]int64{{1, 1}, {2, 2}, {3, 3}, {16, 16}, {17, 17}, {0, 1}, {0, 7}, {1, 8}, {0, 255}, {0, 256}, {1, 160}, {22, 32}, {0, 65535}, {0, 65536}, {1, 65535}, {-1, -1}}
	for _, bd := range bounds {
		for _, ext := range []string{"", ",sizeExt"} {
			lens := []int64{bd[0], bd[1], bd[1] + 1, bd[0] - 1, (bd[0] + bd[1]) / 2, 127, 128, 129, 300}
			if bd[0] < 0 {
				lens = append(lens, 1, 2)
			}
			if tier == "thorough" {
				lens = append(lens, 16383)
			}
			for _, n := range lens {
				if n < 0 {
					continue
				}
				tag := ext
				if bd[0] >= 0 {
					tag = fmt.Sprintf("sizeLB:%d", bd[0])
					if bd[1] >= 0 {
						tag += fmt.Sprintf(",sizeUB:%d", bd[1])
					}
					tag += ext
				} else if ext != "" {
					continue // an extensible size constraint always has a root
				}
				nn := int(n)
				off := offs[nn%len(offs)]
				run("octstr", off, aper.OctetStringType, tag, func(f reflect.Value) { f.SetBytes(ev.Bytes(g.R, nn)) })
				run("bitstr", off, aper.BitStringType, tag, func(f reflect.Value) {
					b := ev.Bytes(g.R, (nn+7)/8)
					if nn%8 != 0 && g.R.Intn(3) != 0 {
						b[len(b)-1] &= 0xff << uint(8-nn%8) // otherwise: unused bits behind the value are left random
					}
					f.Set(reflect.ValueOf(aper.BitString{Bytes: b, BitLength: uint64(nn)}))
				})
			}
		}
	}
	// SEQUENCE with 0..9 optional fields: all presence maps (thorough) or a sample
	optT := reflect.PtrTo(i64)
	for nopt := 0; nopt <= 9; nopt++ {
		for _, ext := range []bool{false, true} {
			fs := []reflect.StructField{{Name: "M", Type: i64, Tag: `aper:"valueLB:0,valueUB:7"`}}
			for j := 0; j < nopt; j++ {
				fs = append(fs, reflect.StructField{Name: fmt.Sprintf("O%d", j), Type: optT, Tag: `aper:"optional,valueLB:0,valueUB:255"`})
			}
			st := reflect.StructOf(fs)
			wrap := reflect.StructOf([]reflect.StructField{{Name: "X", Type: st, Tag: reflect.StructTag(map[bool]string{true: `aper:"valueExt"`, false: ``}[ext])}})
			maps := []int{0, (1 << uint(nopt)) - 1, 1, 1 << uint(nopt) >> 1}
			if tier == "thorough" {
				maps = nil
				for m := 0; m < 1<<uint(nopt); m++ {
					maps = append(maps, m)
				}
			} else {
				for j := 0; j < 6; j++ {
					maps = append(maps, g.R.Intn(1<<uint(nopt)))
				}
			}
			for _, m := range maps {
				v := reflect.New(wrap).Elem()
				x := v.Field(0)
				x.Field(0).SetInt(int64(g.R.Intn(8)))
				for j := 0; j < nopt; j++ {
					if m&(1<<uint(j)) != 0 {
						p := reflect.New(i64)
						p.Elem().SetInt(int64(g.R.Intn(256)))
						x.Field(1 + j).Set(p)
					}
				}
				r.roundtrip("seq", "prim:seq", v, "", false)
			}
		}
	}
	// SEQUENCE OF sizes
	for _, bd := range [][2]int64{{0, 0}, {1, 1}, {3, 3}, {0, 1}, {1, 2}, {0, 15}, {1, 16}, {1, 255}, {1, 256}, {0, 256}, {1, 1024}, {1, 65535}, {0, 65535}} {
		for _, ext := range []string{"", ",sizeExt"} {
			for _, n := range []int64{bd[0], bd[1], bd[1] + 1, bd[0] - 1, (bd[0] + bd[1]) / 2, 127, 128, 200} {
				if n < 0 || n > 2000 {
					continue
				}
				nn := int(n)
				tag := fmt.Sprintf("sizeLB:%d,sizeUB:%d%s,valueLB:0,valueUB:200", bd[0], bd[1], ext)
				run("seqof", offs[nn%len(offs)], reflect.SliceOf(i64), tag, func(f reflect.Value) {
					s := reflect.MakeSlice(reflect.SliceOf(i64), nn, nn)
					for j := 0; j < nn; j++ {
						s.Index(j).SetInt(int64(g.R.Intn(201)))
					}
					f.Set(s)
				})
			}
		}
	}
	// SEQUENCE OF whose items are octet-aligned (two-octet OCTET STRINGs): counts around the one-octet / two-octet length boundary
	for _, n := range []int{1, 127, 128, 200} {
		nn := n
		run("seqof-aligned", offs[nn%len(offs)], reflect.SliceOf(aper.OctetStringType), "sizeLB:0,sizeUB:65535", func(f reflect.Value) {
			s := reflect.MakeSlice(reflect.SliceOf(aper.OctetStringType), nn, nn)
			for j := 0; j < nn; j++ {
				s.Index(j).Set(reflect.ValueOf(aper.OctetString(ev.Bytes(g.R, 2))))
			}
			f.Set(s)
		})
	}
	// a SEQUENCE whose mandatory component is a nil pointer denotes no value and must be refused
	{
		st := reflect.StructOf([]reflect.StructField{
			{Name: "A", Type: reflect.PtrTo(i64), Tag: `aper:"valueLB:0,valueUB:255"`},
			{Name: "B", Type: i64, Tag: `aper:"valueLB:0,valueUB:7"`}})
		for k := 0; k < 2; k++ {
			kk := k
			run("seq-nil", offs[k], st, "valueExt", func(f reflect.Value) {
				f.Field(1).SetInt(5)
				if kk == 1 {
					p := reflect.New(i64)
					p.Elem().SetInt(77)
					f.Field(0).Set(p)
				}
			})
		}
	}
	// CHOICE of 2..9 alternatives, and an unset CHOICE
	for nalt := 1; nalt <= 9; nalt++ {
		for _, ext := range []string{"", ",valueExt"} {
			fs := []reflect.StructField{{Name: "Present", Type: reflect.TypeOf(int(0))}}
			for j := 0; j < nalt; j++ {
				fs = append(fs, reflect.StructField{Name: fmt.Sprintf("A%d", j), Type: optT, Tag: `aper:"valueLB:0,valueUB:255"`})
			}
			ct := reflect.StructOf(fs)
			// sel = 0: unset; 1..nalt: that alternative; nalt+1: Present beyond the alternatives; nalt+2: the first alternative selected but
			// its pointer left nil - the last three denote no ASN.1 value and must be refused
			for sel := 0; sel <= nalt+2; sel++ {
				s := sel
				run("choice", offs[sel%len(offs)], ct, fmt.Sprintf("valueLB:0,valueUB:%d%s", nalt-1, ext), func(f reflect.Value) {
					if s == nalt+2 {
						f.Field(0).SetInt(1)
						return
					}
					f.Field(0).SetInt(int64(s))
					if s > 0 && s <= nalt {
						p := reflect.New(i64)
						p.Elem().SetInt(int64(g.R.Intn(256)))
						f.Field(s).Set(p)
					}
				})
			}
		}
	}
}

// special values: a RAN node name made of the whole PrintableString alphabet (X.680 table 10: 74 characters); NG RESET messages whose
// connection list holds many items with one identifier or none (items of a few bits: more items than octets)
func specialCases(r *rec, g *te.Gen) {
	for _, name := range []string{"ABCDEFGHIJKLMNOPQRSTUVWXYZabcdefghijklmnopqrstuvwxyz0123456789 '()+,-./:=?", "a/b", "/"} {
		v := reflect.ValueOf(ngapType.RANNodeName{Value: name})
		r.roundtrip("RANNodeName", "special:name", v, "", false)
	}
	// (4: items of all four shapes - both identifiers, one, the other, none - in turn, in lists above 128 and above 256 items: an element
	// must not inherit anything from the one decoded before it)
	for _, shape := range [][2]int{{8, 0}, {8, 1}, {16, 2}, {100, 0}, {40, 3}, {130, 4}, {300, 4}} {
		pdu := ngapType.NGAPPDU{Present: 1, InitiatingMessage: &ngapType.InitiatingMessage{}}
		im := pdu.InitiatingMessage
		im.ProcedureCode.Value = ngapType.ProcedureCodeNGReset
		im.Criticality.Value = ngapType.CriticalityPresentReject
		im.Value.Present = ngapType.InitiatingMessagePresentNGReset
		im.Value.NGReset = &ngapType.NGReset{}
		c := ngapType.NGResetIEs{}
		c.Id.Value = ngapType.ProtocolIEIDCause
		c.Criticality.Value = ngapType.CriticalityPresentIgnore
		c.Value.Present = ngapType.NGResetIEsPresentCause
		c.Value.Cause = &ngapType.Cause{Present: ngapType.CausePresentMisc, Misc: &ngapType.CauseMisc{Value: 0}}
		ie := ngapType.NGResetIEs{}
		ie.Id.Value = ngapType.ProtocolIEIDResetType
		ie.Criticality.Value = ngapType.CriticalityPresentReject
		ie.Value.Present = ngapType.NGResetIEsPresentResetType
		rt := &ngapType.ResetType{Present: ngapType.ResetTypePresentPartOfNGInterface, PartOfNGInterface: &ngapType.UEAssociatedLogicalNGConnectionList{}}
		for i := 0; i < shape[0]; i++ {
			it := ngapType.UEAssociatedLogicalNGConnectionItem{}
			switch shape[1] {
			case 1:
				it.AMFUENGAPID = &ngapType.AMFUENGAPID{Value: int64(i)}
			case 2:
				it.RANUENGAPID = &ngapType.RANUENGAPID{Value: int64(i)}
			case 4:
				if i%4 == 0 || i%4 == 1 {
					it.AMFUENGAPID = &ngapType.AMFUENGAPID{Value: int64(i)}
				}
				if i%4 == 0 || i%4 == 2 {
					it.RANUENGAPID = &ngapType.RANUENGAPID{Value: int64(1000 + i)}
				}
			case 3:
				if i%13 == 0 {
					it.AMFUENGAPID = &ngapType.AMFUENGAPID{Value: int64(i)}
					it.RANUENGAPID = &ngapType.RANUENGAPID{Value: int64(1000 + i)}
				}
			}
			rt.PartOfNGInterface.List = append(rt.PartOfNGInterface.List, it)
		}
		ie.Value.ResetType = rt
		im.Value.NGReset.ProtocolIEs.List = []ngapType.NGResetIEs{c, ie}
		r.roundtrip("NGReset", "special:reset", reflect.ValueOf(pdu), pduTag, false)
	}
}

func openCases(r *rec, g *te.Gen) {
	// open types with inner lengths 0, 1, 127, 128, 16383 via NAS-PDU inside DownlinkNASTransport (16381: the value of the IE is 16383
	// octets, the last length that is not fragmented)
	for _, n := range []int{0, 1, 2, 126, 127, 128, 129, 1000, 16380, 16381} {
		pdu := ngapType.NGAPPDU{Present: 1, InitiatingMessage: &ngapType.InitiatingMessage{}}
		im := pdu.InitiatingMessage
		im.ProcedureCode.Value = ngapType.ProcedureCodeDownlinkNASTransport
		im.Criticality.Value = ngapType.CriticalityPresentIgnore
		im.Value.Present = ngapType.InitiatingMessagePresentDownlinkNASTransport
		im.Value.DownlinkNASTransport = &ngapType.DownlinkNASTransport{}
		ie := ngapType.DownlinkNASTransportIEs{}
		ie.Id.Value = ngapType.ProtocolIEIDNASPDU
		ie.Criticality.Value = ngapType.CriticalityPresentReject
		ie.Value.Present = ngapType.DownlinkNASTransportIEsPresentNASPDU
		ie.Value.NASPDU = &ngapType.NASPDU{Value: ev.Bytes(g.R, n)}
		ie2 := ngapType.DownlinkNASTransportIEs{}
		ie2.Id.Value = ngapType.ProtocolIEIDAMFUENGAPID
		ie2.Criticality.Value = ngapType.CriticalityPresentReject
		ie2.Value.Present = ngapType.DownlinkNASTransportIEsPresentAMFUENGAPID
		ie2.Value.AMFUENGAPID = &ngapType.AMFUENGAPID{Value: int64(g.R.Intn(1 << 30))}
		// an open type whose alternative does not match its identifier
		ie3 := ie2
		ie3.Id.Value = ngapType.ProtocolIEIDRANUENGAPID
		im.Value.DownlinkNASTransport.ProtocolIEs.List = []ngapType.DownlinkNASTransportIEs{ie2, ie}
		r.roundtrip("DownlinkNASTransport", "open", reflect.ValueOf(pdu), pduTag, false)
		if n == 1 {
			im.Value.DownlinkNASTransport.ProtocolIEs.List = []ngapType.DownlinkNASTransportIEs{ie3, ie}
			r.roundtrip("DownlinkNASTransport", "open-mismatch", reflect.ValueOf(pdu), pduTag, true)
			// the same at the top level: the procedure code of another message over this message's body
			im.Value.DownlinkNASTransport.ProtocolIEs.List = []ngapType.DownlinkNASTransportIEs{ie2, ie}
			im.ProcedureCode.Value = ngapType.ProcedureCodeUplinkNASTransport
			r.roundtrip("DownlinkNASTransport", "open-mismatch", reflect.ValueOf(pdu), pduTag, true)
			im.ProcedureCode.Value = ngapType.ProcedureCodeDownlinkNASTransport
		}
	}
}

func main() {
	seed := flag.Int64("seed", 1, "")
	tier := flag.String("tier", "quick", "")
	out := flag.String("out", "per.ndjson", "")
	mode := flag.String("mode", "all", "pdu | prim | all")
	specBytes := flag.String("specbytes", "", "second pass: JSON object case id -> canonical bytes of the reference encoder")
	flag.Parse()
	w := ev.Create(*out)
	defer w.Close()
	r := &rec{w: w}
	if *specBytes != "" {
		raw, err := os.ReadFile(*specBytes)
		if err != nil {
			fmt.Println("HARNESS-ERROR", err)
			os.Exit(2)
		}
		var m map[string][]int
		if err := json.Unmarshal(raw, &m); err != nil {
			fmt.Println("HARNESS-ERROR", err)
			os.Exit(2)
		}
		r.spec = map[int][]byte{}
		for k, v := range m {
			var id int
			fmt.Sscan(k, &id)
			b := make([]byte, len(v))
			for i, x := range v {
				b[i] = byte(x)
			}
			r.spec[id] = b
		}
	}
	g := &te.Gen{R: ev.Rng(*seed, "per"), MaxList: 2, MaxStr: 40}
	per := 3
	if *tier == "thorough" {
		per = 160
	}
	if *mode == "pdu" || *mode == "all" {
		pduCases(r, g, per, 7, int(((*seed)%7+7)%7))
		g.Full, g.Rich = 0, false
		openCases(r, g)
		specialCases(r, g)
	}
	if *mode == "prim" || *mode == "all" {
		primCases(r, g, *tier)
	}
}
