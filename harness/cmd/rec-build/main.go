// rec-build: recorder for C13.  Calls every implemented gNB-side builder (ngapTestpacket.Build*) and the
// build-and-encode wrappers of tglib (packet.go) with boundary arguments and logs arguments and bytes.
// With -schema it writes the type dictionary derived from the struct tags (for Per!PerDec in TLC).
package main

import (
	"encoding/json"
	"flag"
	"fmt"
	"math/rand"
	"os"
	"reflect"

	"free5gclib/aper"
	"free5gclib/ngap"
	"free5gclib/ngap/ngapType"
	"tglib"
	tp "tglib/ngapTestpacket"
	"verifharness/internal/ev"
	te "verifharness/internal/treeexp"
)

const pduTag = "valueExt,valueLB:0,valueUB:2"

func writeSchema(path string) {
	s := te.NewSchema()
	root := s.TypeOf(reflect.TypeOf(ngapType.NGAPPDU{}), te.Parse(pduTag))
	tr := map[string]interface{}{}
	for _, t := range []interface{}{
		ngapType.HandoverCommandTransfer{}, ngapType.HandoverPreparationUnsuccessfulTransfer{},
		ngapType.HandoverRequestAcknowledgeTransfer{}, ngapType.HandoverRequiredTransfer{},
		ngapType.HandoverResourceAllocationUnsuccessfulTransfer{}, ngapType.PDUSessionResourceModifyConfirmTransfer{},
		ngapType.PDUSessionResourceModifyIndicationTransfer{}, ngapType.PDUSessionResourceModifyIndicationUnsuccessfulTransfer{},
		ngapType.PDUSessionResourceModifyRequestTransfer{}, ngapType.PDUSessionResourceModifyResponseTransfer{},
		ngapType.PDUSessionResourceModifyUnsuccessfulTransfer{}, ngapType.PDUSessionResourceNotifyReleasedTransfer{},
		ngapType.PDUSessionResourceNotifyTransfer{}, ngapType.PDUSessionResourceReleaseCommandTransfer{},
		ngapType.PDUSessionResourceReleaseResponseTransfer{}, ngapType.PDUSessionResourceSetupRequestTransfer{},
		ngapType.PDUSessionResourceSetupResponseTransfer{}, ngapType.PDUSessionResourceSetupUnsuccessfulTransfer{},
		ngapType.PathSwitchRequestAcknowledgeTransfer{}, ngapType.PathSwitchRequestSetupFailedTransfer{},
		ngapType.PathSwitchRequestTransfer{}, ngapType.PathSwitchRequestUnsuccessfulTransfer{},
		ngapType.SourceNGRANNodeToTargetNGRANNodeTransparentContainer{}, ngapType.TargetNGRANNodeToSourceNGRANNodeTransparentContainer{}} {
		tr[reflect.TypeOf(t).Name()] = s.TypeOf(reflect.TypeOf(t), te.Parse("valueExt"))
	}
	b, _ := json.Marshal(map[string]interface{}{"root": root, "transfers": tr, "types": s.Types})
	if err := os.WriteFile(path, b, 0644); err != nil {
		fmt.Println("HARNESS-ERROR", err)
		os.Exit(2)
	}
}

type rec struct {
	w  *ev.Writer
	id int
}

func ip4(s [4]byte) string { return fmt.Sprintf("%d.%d.%d.%d", s[0], s[1], s[2], s[3]) }

// emit encodes pdu (when not already bytes) and logs
func (r *rec) emit(fn string, args ev.M, build func() ([]byte, error)) {
	var b []byte
	var err error
	p := ev.Catch(func() { b, err = build() })
	ev.Hold("bytes returned by "+fn, b)
	r.w.Emit(ev.M{"ev": "Build", "id": r.id, "fn": fn, "args": args, "bytes": ev.Ints(b), "err": err != nil || p != "", "panic": p != ""})
	r.id++
}

func enc(f func() ngapType.NGAPPDU) func() ([]byte, error) {
	return func() ([]byte, error) { return ngap.Encoder(f()) }
}

func main() {
	seed := flag.Int64("seed", 1, "")
	tier := flag.String("tier", "quick", "")
	out := flag.String("out", "build.ndjson", "")
	schema := flag.String("schema", "", "")
	flag.Parse()
	if *schema != "" {
		writeSchema(*schema)
	}
	rg := ev.Rng(*seed, "build")
	w := ev.Create(*out)
	defer w.Close()
	r := &rec{w: w}

	amfIds := []int64{0, 1, 255, 256, 65535, 65536, 1<<32 - 1, 1 << 32, 1<<40 - 1, 1 << 40, -1}
	ranIds := []int64{0, 1, 255, 256, 65535, 65536, 1<<32 - 1, 1 << 32, -1}
	psis := []int64{0, 1, 5, 15, 255, 256, -1}
	nasLens := []int{0, 1, 127, 128, 1000, 5000}
	nrep := 1
	if *tier == "thorough" {
		nrep = 60
		for i := 0; i < 40; i++ {
			amfIds = append(amfIds, rg.Int63n(1<<40))
			ranIds = append(ranIds, rg.Int63n(1<<32))
		}
	}
	pick := func(xs []int64) int64 { return xs[rg.Intn(len(xs))] }
	plmn := func() []byte { return ev.Bytes(rg, 3) }
	A := func(amf, ran int64) ev.M { return ev.M{"amf": te.Num(amf), "ran": te.Num(ran)} }

	curPlmn := []byte{0x02, 0xf8, 0x39} // ngapTestpacket's initial TestPlmn
	forceBits, forceOnes := uint64(0), false
	setupCount, forceName := 0, 0
	setup := func() {
		curPlmn = plmn()
		bits := uint64(22 + rg.Intn(11))
		if forceBits != 0 {
			bits = forceBits
		}
		gid := ev.Bytes(rg, int(bits+7)/8)
		if forceOnes {
			for i := range gid {
				gid[i] = 0xff
			}
		}
		if bits%8 != 0 {
			gid[len(gid)-1] &= 0xff << uint(8-bits%8)
		}
		nameLen := []int{1, 2, 7, 75, 150}[setupCount%5]
		if forceName > 0 {
			nameLen = forceName
		}
		setupCount++
		name := make([]byte, nameLen)
		for i := range name {
			name[i] = "ABCDEFGHIJKLMNOPQRSTUVWXYZabcdefghijklmnopqrstuvwxyz0123456789 -"[rg.Intn(64)]
		}
		if nameLen == 75 {
			// every character of the PrintableString alphabet (X.680 table 10) once, then one more
			name = []byte("ABCDEFGHIJKLMNOPQRSTUVWXYZabcdefghijklmnopqrstuvwxyz0123456789 '()+,-./:=?/")
		}
		p := append([]byte{}, curPlmn...)
		// every second request hands the identifier over in a buffer that is longer than its bit length needs (a four- or five-octet
		// buffer holding a 22..32-bit identifier): the value is its first `bits` bits, nothing behind them belongs on the wire
		gidIn := gid
		if setupCount%2 == 0 {
			gidIn = append(append([]byte{}, gid...), 0xff, 0x5a)[:len(gid)+1+setupCount%4/2]
		}
		r.emit("GetNGSetupRequest", ev.M{"plmn": ev.Ints(p), "gnbId": ev.Ints(gid), "gnbBits": bits, "name": ev.Ints(name)},
			func() ([]byte, error) { return tglib.GetNGSetupRequest(gidIn, p, bits, string(name)) })
	}
	nas := func(n int) []byte { return ev.Bytes(rg, n) }
	// the builder puts the PLMN announced at the last NG Setup into the message: the judge compares every PLMN identity in it
	withPlmn := func(m ev.M) ev.M {
		o := ev.M{"plmn": ev.Ints(curPlmn)}
		for k, v := range m {
			o[k] = v
		}
		return o
	}

	for rep := 0; rep < nrep; rep++ {
		setup()
		if rep%2 == 0 {
			// a request that must be refused (a gNB identifier of 21 / 33 bits), for the PLMN just announced: what the successful NG Setup
			// announced stays in force for the UE-associated messages that follow
			p, bits := append([]byte{}, curPlmn...), []uint64{21, 33}[(rep/2)%2]
			gid := ev.Bytes(rg, 5)
			r.emit("GetNGSetupRequest", ev.M{"plmn": ev.Ints(p), "gnbId": ev.Ints(gid), "gnbBits": bits, "name": ev.Ints([]byte("refused"))},
				func() ([]byte, error) { return tglib.GetNGSetupRequest(gid, p, bits, "refused") })
		}
		// ---- the wrappers the emulator uses (packet.go) ----
		for _, ran := range ranIds {
			n := nas(nasLens[rg.Intn(len(nasLens))])
			ran := ran
			a := ev.M{"ran": te.Num(ran), "nas": ev.Ints(n), "plmn": ev.Ints(curPlmn)}
			r.emit("GetInitialUEMessage", a, func() ([]byte, error) { return tglib.GetInitialUEMessage(ran, n, "") })
		}
		{
			n, ran := nas(40), int64(77)
			a := ev.M{"ran": te.Num(ran), "nas": ev.Ints(n), "plmn": ev.Ints(curPlmn)}
			r.emit("GetInitialUEMessage", a, func() ([]byte, error) { return tglib.GetInitialUEMessage(ran, n, "fe0000000001") }) // with the optional 5G-S-TMSI
		}
		for _, nl := range nasLens {
			n := nas(nl)
			ran := pick(ranIds[:7])
			a := ev.M{"ran": te.Num(ran), "nas": ev.Ints(n), "plmn": ev.Ints(curPlmn)}
			r.emit("GetInitialUEMessage", a, func() ([]byte, error) { return tglib.GetInitialUEMessage(ran, n, "") })
		}
		for ai, amf := range amfIds {
			// every wrapper meets every identifier of both lists: the j-th draw of round ai is element ai+j (no random picks)
			nj := 0
			nextAmf := func() int64 { nj++; return amfIds[(ai+nj)%len(amfIds)] }
			nextRan := func() int64 { return ranIds[(ai+2*nj)%len(ranIds)] }
			amf, ran := amf, ranIds[ai%len(ranIds)]
			n := nas(nasLens[rg.Intn(len(nasLens))])
			a := A(amf, ran)
			a["nas"], a["plmn"] = ev.Ints(n), ev.Ints(curPlmn)
			r.emit("GetUplinkNASTransport", a, func() ([]byte, error) { return tglib.GetUplinkNASTransport(amf, ran, n) })
			amf2, ran2 := nextAmf(), nextRan()
			r.emit("GetInitialContextSetupResponse", A(amf2, ran2), func() ([]byte, error) { return tglib.GetInitialContextSetupResponse(amf2, ran2) })
			amf3, ran3, psi := nextAmf(), nextRan(), pick(psis)
			ip := [4]byte{byte(rg.Intn(256)), byte(rg.Intn(256)), byte(rg.Intn(256)), byte(rg.Intn(256))}
			a3 := A(amf3, ran3)
			a3["psi"], a3["ip"] = te.Num(psi), ev.Ints(ip[:])
			r.emit("GetPDUSessionResourceSetupResponse", a3, func() ([]byte, error) {
				return tglib.GetPDUSessionResourceSetupResponse(amf3, ran3, psi, ip4(ip))
			})
			amf4, ran4, psi4 := nextAmf(), nextRan(), pick(psis)
			ip2 := [4]byte{byte(rg.Intn(256)), byte(rg.Intn(256)), 0, 255}
			a4 := A(amf4, ran4)
			a4["psi"], a4["ip"] = te.Num(psi4), ev.Ints(ip2[:])
			r.emit("GetInitialContextSetupResponseForServiceRequest", a4, func() ([]byte, error) {
				return tglib.GetInitialContextSetupResponseForServiceRequest(amf4, ran4, psi4, ip4(ip2))
			})
			amf5, ran5, psi5 := nextAmf(), nextRan(), pick(psis)
			a5 := A(amf5, ran5)
			a5["psi"] = te.Num(psi5)
			r.emit("GetPDUSessionResourceReleaseResponse", a5, func() ([]byte, error) {
				return tglib.GetPDUSessionResourceReleaseResponse(amf5, ran5, psi5)
			})
			amf6, ran6 := nextAmf(), nextRan()
			var lst []int64
			for i := rg.Intn(4); i > 0; i-- {
				lst = append(lst, int64(rg.Intn(256)))
			}
			// fixed list shapes by round: the extremes of the element range, elements just outside it, 256 and 257 entries
			switch ai {
			case 1:
				lst = []int64{0, 255}
			case 2:
				lst = []int64{7, 256}
			case 3:
				lst = []int64{-1}
			case 6:
				lst = []int64{0, 256} // an out-of-range identity behind an in-range one with the same low octet
			case 7:
				lst = []int64{5, 44, 300}
			case 8:
				lst = []int64{255, -1}
			case 4, 5:
				lst = nil
				for i := 0; i < 252+ai; i++ {
					lst = append(lst, int64(i%256))
				}
			}
			a6 := A(amf6, ran6)
			li := []int{}
			for _, x := range lst {
				li = append(li, int(x))
			}
			a6["psis"] = li
			r.emit("GetUEContextReleaseComplete", withPlmn(a6), func() ([]byte, error) { return tglib.GetUEContextReleaseComplete(amf6, ran6, lst) })
			a7 := A(amf6, ran6)
			a7["psis"] = li
			r.emit("GetUEContextReleaseRequest", withPlmn(a7), func() ([]byte, error) { return tglib.GetUEContextReleaseRequest(amf6, ran6, lst) })
			r.emit("GetPathSwitchRequest", withPlmn(A(amf6, ran6)), func() ([]byte, error) { return tglib.GetPathSwitchRequest(amf6, ran6) })
			r.emit("GetHandoverRequestAcknowledge", A(amf6, ran6), func() ([]byte, error) { return tglib.GetHandoverRequestAcknowledge(amf6, ran6) })
			r.emit("GetHandoverNotify", withPlmn(A(amf6, ran6)), func() ([]byte, error) { return tglib.GetHandoverNotify(amf6, ran6) })
			gid, cid := ev.Bytes(rg, 3), ev.Bytes(rg, 5)
			cid[4] &= 0xf0
			r.emit("GetHandoverRequired", withPlmn(A(amf6, ran6)), func() ([]byte, error) { return tglib.GetHandoverRequired(amf6, ran6, gid, cid) })
			ip3 := [4]byte{10, byte(rg.Intn(256)), byte(rg.Intn(256)), 1}
			a8 := A(amf6, ran6)
			a8["ip"] = ev.Ints(ip3[:])
			r.emit("GetPDUSessionResourceSetupResponseForPaging", a8, func() ([]byte, error) {
				return tglib.GetPDUSessionResourceSetupResponseForPaging(amf6, ran6, ip4(ip3))
			})
		}
		// ---- every other builder of the library: a random in-range pair, the largest identifiers, and two out-of-range pairs ----
		for pi, pr := range [][2]int64{{pick(amfIds[:9]), pick(ranIds[:7])}, {1 << 32, 1<<32 - 1}, {1<<40 - 1, 65536}, {1 << 40, 1}, {1, 1 << 32}} {
			amf, ran := pr[0], pr[1]
			first := pi == 0
			if rep > 0 && pi > 0 {
				break
			}
			ids := A(amf, ran)
			none := ev.M{}
			if first {
				r.emit("BuildNGReset", none, enc(func() ngapType.NGAPPDU { return tp.BuildNGReset(nil) }))
				// a reset of part of the interface: connections named by both identifiers, by one of them (TS 38.413 9.3.3.? allows
				// either alone): the identifier pairs in the encoding must be the given ones, item by item (-1 = absent)
				{
					lst := &ngapType.UEAssociatedLogicalNGConnectionList{}
					var conns [][]int
					for _, pr := range [][2]int64{{5, 7}, {70000, -1}, {-1, 9}, {0, 0}, {-1, 65536}, {1, -1}} {
						it := ngapType.UEAssociatedLogicalNGConnectionItem{}
						if pr[0] >= 0 {
							it.AMFUENGAPID = &ngapType.AMFUENGAPID{Value: pr[0]}
						}
						if pr[1] >= 0 {
							it.RANUENGAPID = &ngapType.RANUENGAPID{Value: pr[1]}
						}
						lst.List = append(lst.List, it)
						conns = append(conns, []int{int(pr[0]), int(pr[1])})
					}
					r.emit("BuildNGReset", ev.M{"conns": conns}, enc(func() ngapType.NGAPPDU { return tp.BuildNGReset(lst) }))
				}
			}
			if first {
				r.emit("BuildNGResetAcknowledge", none, enc(tp.BuildNGResetAcknowledge))
			}
			if first {
				r.emit("BuildErrorIndication", none, enc(tp.BuildErrorIndication))
			}
			r.emit("BuildUEContextModificationResponse", withPlmn(ids), enc(func() ngapType.NGAPPDU { return tp.BuildUEContextModificationResponse(amf, ran) }))
			r.emit("BuildInitialContextSetupFailure", ids, enc(func() ngapType.NGAPPDU { return tp.BuildInitialContextSetupFailure(amf, ran) }))
			r.emit("BuildHandoverFailure", ev.M{"amf": te.Num(amf)}, enc(func() ngapType.NGAPPDU { return tp.BuildHandoverFailure(amf) }))
			if first {
				r.emit("BuildPDUSessionResourceReleaseResponse", withPlmn(none), enc(tp.BuildPDUSessionResourceReleaseResponse))
			}
			if first {
				r.emit("BuildAMFConfigurationUpdateFailure", none, enc(tp.BuildAMFConfigurationUpdateFailure))
			}
			r.emit("BuildUERadioCapabilityCheckRequest", ids, enc(func() ngapType.NGAPPDU { return tp.BuildUERadioCapabilityCheckRequest(amf, ran) }))
			if first {
				r.emit("BuildUERadioCapabilityCheckResponse", none, enc(tp.BuildUERadioCapabilityCheckResponse))
			}
			if first {
				r.emit("BuildHandoverCancel", withPlmn(none), enc(tp.BuildHandoverCancel))
			}
			if first {
				r.emit("BuildLocationReportingFailureIndication", withPlmn(none), enc(tp.BuildLocationReportingFailureIndication))
			}
			ipx := [4]byte{192, 168, byte(rg.Intn(256)), byte(rg.Intn(256))}
			idsIP := A(amf, ran)
			idsIP["ip"] = ev.Ints(ipx[:])
			r.emit("BuildPDUSessionResourceSetupResponse", idsIP, enc(func() ngapType.NGAPPDU { return tp.BuildPDUSessionResourceSetupResponse(amf, ran, ip4(ipx)) }))
			r.emit("BuildPDUSessionResourceModifyResponse", withPlmn(ids), enc(func() ngapType.NGAPPDU { return tp.BuildPDUSessionResourceModifyResponse(amf, ran) }))
			if first {
				r.emit("BuildPDUSessionResourceNotify", withPlmn(none), enc(tp.BuildPDUSessionResourceNotify))
			}
			r.emit("BuildPDUSessionResourceModifyIndication", ids, enc(func() ngapType.NGAPPDU { return tp.BuildPDUSessionResourceModifyIndication(amf, ran) }))
			r.emit("BuildUEContextModificationFailure", ids, enc(func() ngapType.NGAPPDU { return tp.BuildUEContextModificationFailure(amf, ran) }))
			if first {
				r.emit("BuildRRCInactiveTransitionReport", withPlmn(none), enc(tp.BuildRRCInactiveTransitionReport))
			}
			r.emit("BuildUplinkRanStatusTransfer", ids, enc(func() ngapType.NGAPPDU { return tp.BuildUplinkRanStatusTransfer(amf, ran) }))
			nn := nas(1 + rg.Intn(60))
			idsN := A(amf, ran)
			idsN["nas"] = ev.Ints(nn)
			r.emit("BuildNasNonDeliveryIndication", idsN, enc(func() ngapType.NGAPPDU { return tp.BuildNasNonDeliveryIndication(amf, ran, aper.OctetString(nn)) }))
			if first {
				r.emit("BuildRanConfigurationUpdate", none, enc(tp.BuildRanConfigurationUpdate))
			}
			if first {
				r.emit("BuildRanConfigurationUpdateAck", none, enc(func() ngapType.NGAPPDU { return tp.BuildRanConfigurationUpdateAck(nil) }))
			}
			if first {
				r.emit("BuildRanConfigurationUpdateFailure", none, enc(func() ngapType.NGAPPDU { return tp.BuildRanConfigurationUpdateFailure(nil, nil) }))
			}
			if first {
				r.emit("BuildUplinkRanConfigurationTransfer", withPlmn(none), enc(tp.BuildUplinkRanConfigurationTransfer))
			}
			if first {
				r.emit("BuildUplinkUEAssociatedNRPPATransport", none, enc(tp.BuildUplinkUEAssociatedNRPPATransport))
			}
			if first {
				r.emit("BuildUplinkNonUEAssociatedNRPPATransport", none, enc(tp.BuildUplinkNonUEAssociatedNRPPATransport))
			}
			if first {
				r.emit("BuildLocationReport", withPlmn(none), enc(tp.BuildLocationReport))
			}
			if first {
				r.emit("BuildUERadioCapabilityInfoIndication", none, enc(tp.BuildUERadioCapabilityInfoIndication))
			}
			if first {
				r.emit("BuildAMFConfigurationUpdateAcknowledge", none, enc(tp.BuildAMFConfigurationUpdateAcknowledge))
			}
			r.emit("BuildCellTrafficTrace", withPlmn(ids), enc(func() ngapType.NGAPPDU { return tp.BuildCellTrafficTrace(amf, ran) }))
			if first {
				r.emit("BuildOverloadStop", none, enc(tp.BuildOverloadStop))
			}
			if first {
				r.emit("BuildOverloadStart", none, enc(func() ngapType.NGAPPDU { return tp.BuildOverloadStart(nil, nil, nil) }))
			}
			r.emit("BuildInitialContextSetupResponse", ids, enc(func() ngapType.NGAPPDU { return tp.BuildInitialContextSetupResponse(amf, ran, 5, "10.0.0.1", nil) }))
			r.emit("BuildUEContextReleaseRequest", ids, enc(func() ngapType.NGAPPDU { return tp.BuildUEContextReleaseRequest(amf, ran, nil) }))
			r.emit("BuildPDUSessionResourceReleaseCommand", idsN, enc(func() ngapType.NGAPPDU {
				return tp.BuildPDUSessionResourceReleaseCommand(amf, ran, nil, nn, ngapType.PDUSessionResourceToReleaseListRelCmd{
					List: []ngapType.PDUSessionResourceToReleaseItemRelCmd{{PDUSessionID: ngapType.PDUSessionID{Value: 5},
						PDUSessionResourceReleaseCommandTransfer: tp.GetPDUSessionResourceReleaseCommandTransfer()}}})
			}))
		}
	}
	// every PDU session identity of the list (in range, boundary and out of range: 300 and 9999 besides 256 and -1) through each of
	// the three wrappers that take one
	for _, psi := range append(append([]int64{}, psis...), 300, 9999, 128, 254) {
		psi := psi
		amf, ran := pick(amfIds[:7]), pick(ranIds[:7])
		ip := [4]byte{10, byte(rg.Intn(256)), 0, 255}
		a := A(amf, ran)
		a["psi"], a["ip"] = te.Num(psi), ev.Ints(ip[:])
		r.emit("GetPDUSessionResourceSetupResponse", a, func() ([]byte, error) { return tglib.GetPDUSessionResourceSetupResponse(amf, ran, psi, ip4(ip)) })
		b := A(amf, ran)
		b["psi"], b["ip"] = te.Num(psi), ev.Ints(ip[:])
		r.emit("GetInitialContextSetupResponseForServiceRequest", b, func() ([]byte, error) {
			return tglib.GetInitialContextSetupResponseForServiceRequest(amf, ran, psi, ip4(ip))
		})
		c := A(amf, ran)
		c["psi"] = te.Num(psi)
		r.emit("GetPDUSessionResourceReleaseResponse", c, func() ([]byte, error) { return tglib.GetPDUSessionResourceReleaseResponse(amf, ran, psi) })
	}
	// every gNB id bit length 22..32 with all bits set (the id must arrive bit for bit, whatever the padding of the last octet)
	for b := uint64(22); b <= 32; b++ {
		forceBits, forceOnes = b, true
		setup()
	}
	forceBits, forceOnes = 0, false
	// RAN node name lengths: the whole range 1..150 in the thorough tier (every length moves the lengths of the IE value and of the
	// message across their own boundaries), in the quick tier the ends, the lengths around which the enclosing lengths pass 127/128,
	// and names beyond the root of the extensible size constraint (which may be refused, but not mangled)
	var nls []int
	if *tier == "thorough" {
		for n := 1; n <= 150; n++ {
			nls = append(nls, n)
		}
	} else {
		nls = []int{3, 4, 80, 81, 82, 83, 84, 124, 125, 126, 127, 128, 129, 149}
	}
	for _, n := range append(nls, 151, 200, 256) {
		forceName = n
		setup()
	}
	forceName = 0
	// the PLMN follows every further NG Setup of the same process (a second and a third announcement, also in the quick tier)
	for k := 0; k < 2; k++ {
		setup()
		for j := 0; j < 3; j++ {
			n := nas(nasLens[rg.Intn(len(nasLens))])
			ran := pick(ranIds)
			a := ev.M{"ran": te.Num(ran), "nas": ev.Ints(n), "plmn": ev.Ints(curPlmn)}
			r.emit("GetInitialUEMessage", a, func() ([]byte, error) { return tglib.GetInitialUEMessage(ran, n, "") })
		}
	}
	_ = rand.Int
}
