// rec-total: C14.  -seeds: write valid NGAP encodings (one per message type, random values) as seeds for the TLA+ fault
// generator (PerFault.tla).  -replay: run ngap.Decoder on every generated input under a watchdog, measuring wall time and
// allocation; -random N adds seeded random byte strings and multi-byte corruptions.
package main

import (
	"bufio"
	"encoding/json"
	"flag"
	"fmt"
	"os"
	"reflect"
	"runtime"
	"runtime/debug"
	"time"

	"free5gclib/aper"
	"free5gclib/ngap"
	"free5gclib/ngap/ngapType"
	"verifharness/internal/ev"
	te "verifharness/internal/treeexp"
)

const pduTag = "valueExt,valueLB:0,valueUB:2"

func seeds(seed int64, per int, out string) [][]byte {
	g := &te.Gen{R: ev.Rng(seed, "total"), MaxList: 1, MaxStr: 12}
	var w *ev.Writer
	if out != "" {
		w = ev.Create(out)
		defer w.Close()
	}
	var all [][]byte
	tops := []struct {
		present int
		val     interface{}
	}{{1, ngapType.InitiatingMessageValue{}}, {2, ngapType.SuccessfulOutcomeValue{}}, {3, ngapType.UnsuccessfulOutcomeValue{}}}
	id := 0
	for _, top := range tops {
		vt := reflect.TypeOf(top.val)
		for alt := 1; alt < vt.NumField(); alt++ {
			for k, tries := 0, 0; k < per && tries < 8*per; k, tries = k+1, tries+1 {
				// rich seeds first (every IE list filled with several IEs), then minimal ones
				g.MaxList = []int{4, 1, 8, 2}[k%4]
				g.MinList = []int{5, 0, 3, 1}[k%4]
				g.Rich = k%2 == 0
				g.Full = 0
				if k == 0 && tries == 0 {
					g.Full = 1 // the first seed of a message type carries every IE alternative once and every OPTIONAL
				}
				if tries > k {
					// the previous attempt could not be encoded (a message without IEs cannot hold five) or was too long: plain random values
					g.MinList, g.Rich, g.MaxList = 0, tries%2 == 0, 2
				}
				pdu := ngapType.NGAPPDU{Present: top.present}
				pv := reflect.ValueOf(&pdu).Elem()
				msg := pv.Field(top.present)
				msg.Set(reflect.New(msg.Type().Elem()))
				m := msg.Elem()
				g.Fill(m.Field(1), te.Parse(m.Type().Field(1).Tag.Get("aper")), 1)
				g.FillAlt(m.Field(2), alt, 1)
				ap := te.Parse(vt.Field(alt).Tag.Get("aper"))
				m.Field(0).Field(0).SetInt(*ap.RefValue)
				var b []byte
				var err error
				if p := ev.Catch(func() { b, err = ngap.Encoder(pdu) }); p != "" || err != nil || len(b) > 700 {
					k-- // try again with other random values
					continue
				}
				all = append(all, b)
				if w != nil {
					// the value tree lets the fault model place faults at the field boundaries of the encoding (Per!PerFieldStarts)
					w.Emit(ev.M{"ev": "Seed", "id": id, "name": vt.Field(alt).Name, "bytes": ev.Ints(b), "tree": te.Export(pv, te.Parse(pduTag))})
				}
				id++
			}
		}
	}
	// special seeds: an AMF CONFIGURATION UPDATE whose transport layer address is a BIT STRING of 16383 / 20000 bits (a fragmented length
	// determinant; more than 2 KiB), and NG RESET messages whose connection list holds items of a few bits (more items than octets)
	for si, nb := range []int{16383, 20000} {
		pdu := ngapType.NGAPPDU{Present: 1, InitiatingMessage: &ngapType.InitiatingMessage{}}
		im := pdu.InitiatingMessage
		im.ProcedureCode.Value = ngapType.ProcedureCodeAMFConfigurationUpdate
		im.Criticality.Value = ngapType.CriticalityPresentReject
		im.Value.Present = ngapType.InitiatingMessagePresentAMFConfigurationUpdate
		im.Value.AMFConfigurationUpdate = &ngapType.AMFConfigurationUpdate{}
		ie := ngapType.AMFConfigurationUpdateIEs{}
		ie.Id.Value = ngapType.ProtocolIEIDAMFTNLAssociationToAddList
		ie.Criticality.Value = ngapType.CriticalityPresentIgnore
		ie.Value.Present = ngapType.AMFConfigurationUpdateIEsPresentAMFTNLAssociationToAddList
		ie.Value.AMFTNLAssociationToAddList = &ngapType.AMFTNLAssociationToAddList{}
		it := ngapType.AMFTNLAssociationToAddItem{}
		it.AMFTNLAssociationAddress.Present = ngapType.CPTransportLayerInformationPresentEndpointIPAddress
		bs := ev.Bytes(g.R, (nb+7)/8)
		if nb%8 != 0 {
			bs[len(bs)-1] &= 0xff << uint(8-nb%8)
		}
		it.AMFTNLAssociationAddress.EndpointIPAddress = &ngapType.TransportLayerAddress{Value: aper.BitString{Bytes: bs, BitLength: uint64(nb)}}
		it.TNLAddressWeightFactor.Value = 7
		ie.Value.AMFTNLAssociationToAddList.List = append(ie.Value.AMFTNLAssociationToAddList.List, it)
		im.Value.AMFConfigurationUpdate.ProtocolIEs.List = append(im.Value.AMFConfigurationUpdate.ProtocolIEs.List, ie)
		var b []byte
		var err error
		if p := ev.Catch(func() { b, err = ngap.Encoder(pdu) }); p == "" && err == nil && w != nil {
			all = append(all, b)
			w.Emit(ev.M{"ev": "Seed", "id": 8000 + si, "name": "AMFConfigurationUpdate-long", "bytes": ev.Ints(b), "tree": te.Export(reflect.ValueOf(&pdu).Elem(), te.Parse(pduTag))})
		}
	}
	for si, shape := range [][2]int{{8, 0}, {40, 1}, {100, 0}} {
		pdu := ngapType.NGAPPDU{Present: 1, InitiatingMessage: &ngapType.InitiatingMessage{}}
		im := pdu.InitiatingMessage
		im.ProcedureCode.Value = ngapType.ProcedureCodeNGReset
		im.Criticality.Value = ngapType.CriticalityPresentReject
		im.Value.Present = ngapType.InitiatingMessagePresentNGReset
		im.Value.NGReset = &ngapType.NGReset{}
		ie := ngapType.NGResetIEs{}
		ie.Id.Value = ngapType.ProtocolIEIDResetType
		ie.Criticality.Value = ngapType.CriticalityPresentReject
		ie.Value.Present = ngapType.NGResetIEsPresentResetType
		rt := &ngapType.ResetType{Present: ngapType.ResetTypePresentPartOfNGInterface, PartOfNGInterface: &ngapType.UEAssociatedLogicalNGConnectionList{}}
		for i := 0; i < shape[0]; i++ {
			item := ngapType.UEAssociatedLogicalNGConnectionItem{}
			if shape[1] == 1 && i%7 == 0 {
				item.RANUENGAPID = &ngapType.RANUENGAPID{Value: int64(i)}
			}
			rt.PartOfNGInterface.List = append(rt.PartOfNGInterface.List, item)
		}
		ie.Value.ResetType = rt
		im.Value.NGReset.ProtocolIEs.List = append(im.Value.NGReset.ProtocolIEs.List, ie)
		var b []byte
		var err error
		if p := ev.Catch(func() { b, err = ngap.Encoder(pdu) }); p == "" && err == nil && w != nil {
			all = append(all, b)
			w.Emit(ev.M{"ev": "Seed", "id": 8100 + si, "name": "NGReset-small-items", "bytes": ev.Ints(b), "tree": te.Export(reflect.ValueOf(&pdu).Elem(), te.Parse(pduTag))})
		}
	}
	// transfer containers (decoded separately from the PDU that carries them as an OCTET STRING): seed ids from 9000, one full and
	// (thorough) further random values per type; the types reachable only through a transfer meet corrupted input through these
	for ti, tv := range te.TransferTypes {
		for k, tries := 0, 0; k < per && tries < 8*per; k, tries = k+1, tries+1 {
			g.MaxList, g.MinList, g.Rich, g.Full = []int{4, 1, 8, 2}[k%4], []int{2, 0, 3, 1}[k%4], k%2 == 0, 0
			if k == 0 && tries == 0 {
				g.Full = 1
			}
			if tries > k {
				g.MinList, g.Rich, g.MaxList = 0, tries%2 == 0, 2
			}
			v := reflect.New(reflect.TypeOf(tv)).Elem()
			g.Fill(v, te.Parse("valueExt"), 1)
			var b []byte
			var err error
			if p := ev.Catch(func() { b, err = aper.MarshalWithParams(v.Interface(), "valueExt") }); p != "" || err != nil || len(b) > 700 {
				k--
				continue
			}
			all = append(all, b)
			if w != nil {
				w.Emit(ev.M{"ev": "Seed", "id": 9000 + ti*100 + k, "name": v.Type().Name(), "bytes": ev.Ints(b), "tree": te.Export(v, te.Parse("valueExt"))})
			}
		}
	}
	return all
}

// transferOf: the transfer type a case id belongs to (seed ids 9000 + 100 * type index + k), or -1 for an NGAP PDU
func transferOf(id interface{}) int {
	s, ok := id.(string)
	if !ok {
		return -1
	}
	n := 0
	for _, c := range s {
		if c < '0' || c > '9' {
			break
		}
		n = n*10 + int(c-'0')
	}
	if n >= 9000 && (n-9000)/100 < len(te.TransferTypes) {
		return (n - 9000) / 100
	}
	return -1
}

type result struct {
	outcome string
	ms      float64
	alloc   uint64
}

func decodeGuarded(b []byte, transfer int) result {
	done := make(chan result, 1)
	go func() {
		var ms runtime.MemStats
		runtime.ReadMemStats(&ms)
		a0 := ms.TotalAlloc
		t0 := time.Now()
		outcome := "value"
		var err error
		p := ev.Catch(func() {
			if transfer >= 0 {
				err = aper.UnmarshalWithParams(b, reflect.New(reflect.TypeOf(te.TransferTypes[transfer])).Interface(), "valueExt")
			} else {
				_, err = ngap.Decoder(b)
			}
		})
		if p != "" {
			outcome = "panic"
		} else if err != nil {
			outcome = "error"
		}
		el := time.Since(t0)
		runtime.ReadMemStats(&ms)
		done <- result{outcome, float64(el.Microseconds()) / 1000, ms.TotalAlloc - a0}
	}()
	select {
	case r := <-done:
		return r
	case <-time.After(3 * time.Second):
		return result{"hang", 3000, 0}
	}
}

func main() {
	seed := flag.Int64("seed", 1, "")
	out := flag.String("out", "total.ndjson", "")
	seedsOut := flag.String("seeds", "", "")
	per := flag.Int("per", 1, "")
	replay := flag.String("replay", "", "")
	random := flag.Int("random", 0, "")
	from := flag.Int("from", 0, "")
	flag.Parse()
	runtime.GOMAXPROCS(2)
	debug.SetGCPercent(400)
	if *seedsOut != "" {
		seeds(*seed, *per, *seedsOut)
		return
	}
	f, err := os.OpenFile(*out, os.O_CREATE|os.O_APPEND|os.O_WRONLY, 0644)
	if err != nil {
		fmt.Println("HARNESS-ERROR", err)
		os.Exit(2)
	}
	w := bufio.NewWriterSize(f, 1<<20)
	defer w.Flush()
	idx := 0
	run := func(id interface{}, kind string, b []byte, keepInput bool) {
		if idx < *from {
			idx++
			return
		}
		idx++
		r := decodeGuarded(b, transferOf(id))
		// wall time is measured on a machine that may be busy: a slow call is measured again (up to three times, the fastest counts);
		// allocation does not depend on the load
		for again := 0; again < 3 && r.outcome != "hang" && r.outcome != "panic" && r.ms > 50; again++ {
			if r2 := decodeGuarded(b, transferOf(id)); r2.outcome == "hang" || r2.ms < r.ms {
				r2.alloc = r.alloc
				r = r2
			}
		}
		e := ev.M{"ev": "Decode", "id": id, "kind": kind, "len": len(b), "outcome": r.outcome, "ms": int(r.ms), "allocKiB": int(r.alloc / 1024)}
		if keepInput || r.outcome == "panic" || r.outcome == "hang" || r.ms > 200 || r.alloc > 64<<20 {
			e["input"] = ev.Ints(b)
		}
		j, _ := json.Marshal(e)
		w.Write(append(j, '\n'))
		if r.outcome == "hang" {
			w.Flush()
			os.Exit(3)
		}
	}
	if *replay != "" {
		in, err := os.Open(*replay)
		if err != nil {
			fmt.Println("HARNESS-ERROR", err)
			os.Exit(2)
		}
		sc := bufio.NewScanner(in)
		sc.Buffer(make([]byte, 1<<20), 1<<26)
		for sc.Scan() {
			var c struct {
				Id    interface{} `json:"id"`
				Kind  string      `json:"kind"`
				Bytes []int       `json:"bytes"`
			}
			if err := json.Unmarshal(sc.Bytes(), &c); err != nil {
				fmt.Println("HARNESS-ERROR", err)
				os.Exit(2)
			}
			b := make([]byte, len(c.Bytes))
			for i, x := range c.Bytes {
				b[i] = byte(x)
			}
			run(c.Id, c.Kind, b, false)
		}
	}
	if *random > 0 {
		r := ev.Rng(*seed, "total-random")
		valid := seeds(*seed+1, 1, "")
		for i := 0; i < *random; i++ {
			switch i % 3 {
			case 0: // random byte string, NGAP-like first octets half of the time
				n := r.Intn(64)
				if i%30 == 0 {
					n = r.Intn(4096)
				}
				b := ev.Bytes(r, n)
				if i%2 == 0 && n > 3 {
					b[0] = byte([]int{0x00, 0x20, 0x40}[r.Intn(3)])
					b[1] = byte(r.Intn(52))
				}
				run(fmt.Sprint("r", i), "random", b, false)
			case 1: // multi-byte corruption of a valid encoding
				b := append([]byte{}, valid[r.Intn(len(valid))]...)
				for k := 1 + r.Intn(4); k > 0 && len(b) > 0; k-- {
					b[r.Intn(len(b))] = byte([]int{0, 0x7f, 0x80, 0xff, 0xc1, 0xc4, r.Intn(256)}[r.Intn(7)])
				}
				run(fmt.Sprint("m", i), "multi-byte", b, false)
			case 2: // splice: head of one valid encoding, tail of another, or inserted / removed octets
				a, c := valid[r.Intn(len(valid))], valid[r.Intn(len(valid))]
				cut := r.Intn(len(a) + 1)
				b := append(append([]byte{}, a[:cut]...), c[r.Intn(len(c)+1):]...)
				run(fmt.Sprint("s", i), "splice", b, false)
			}
		}
		// one IE of a valid message repeated many times, marked "ignore", each value announcing a huge list and carrying nothing: the cost
		// of a message must stay bounded by its size, whatever the decoder does with an IE it cannot decode (for every IE id of every
		// message type; 400 and 2000 repetitions)
		nrep := 0
		for mi, b := range valid {
			if len(b) < 8 || mi >= 90 {
				continue
			}
			p := 3
			if b[p]&0x80 != 0 {
				p++
			}
			p++
			v := b[p:]
			if len(v) < 3 {
				continue
			}
			q, seen := 3, map[int]bool{}
			for q+4 <= len(v) && len(seen) < 8 {
				id := int(v[q])<<8 | int(v[q+1])
				l, hl := int(v[q+3]), 4
				if l&0x80 != 0 && q+5 <= len(v) {
					l, hl = (l&0x3f)<<8|int(v[q+4]), 5
				}
				if !seen[id] {
					seen[id] = true
					for vi, payload := range [][]byte{{0x80, 0xff, 0xfe}, {0xff, 0xfe}, {0x00, 0xff, 0xfe, 0x00}, {0x40, 0xff, 0xff}} {
						if (mi+vi)%2 == 1 {
							continue // two of the four shapes per message
						}
						n := []int{400, 2000}[(mi+id)%2]
						val := []byte{v[0], byte(n >> 8), byte(n)}
						for k := 0; k < n; k++ {
							val = append(val, byte(id>>8), byte(id), 0x40, byte(len(payload)))
							val = append(val, payload...)
						}
						if len(val) >= 16384 {
							continue
						}
						in := append([]byte{b[0], b[1], b[2], byte(0x80 | len(val)>>8), byte(len(val))}, val...)
						run(fmt.Sprintf("q%d-%d-%d", mi, id, vi), "repeat", in, false)
						nrep++
					}
				}
				q += hl + l
			}
		}
	}
}
