// rec-extract: replayer / recorder for C12.
//
//	-replay cases.ndjson : run the two extractors of stgutg on TLC-generated setup requests (GenExtract) and add the observation
//	-term                : termination sweep: every sequence up to length 3 over the octet classes of PduExtract.tla wrapped into an
//	                       otherwise valid message, leads from the model checker (-leads file), random byte strings, truncations
//
// Every call runs under a watchdog; a call that does not return within the deadline is recorded as a hang and the process exits
// with status 3 after flushing (a hung goroutine cannot be stopped); the driver restarts it behind that case (-from).
package main

import (
	"bufio"
	"encoding/json"
	"flag"
	"fmt"
	"net"
	"os"
	"time"

	"stgutg"
	"verifharness/internal/ev"
)

type obs struct {
	ip, upf []byte
	teid    uint32
	panic   bool
}

func guarded(f func()) (hang bool, panicked bool) {
	done := make(chan bool, 1)
	go func() {
		p := ev.Catch(f)
		done <- p != ""
	}()
	select {
	case p := <-done:
		return false, p
	case <-time.After(5 * time.Second): // generous: the machine may be busy; a walk that does not terminate never answers at all
		return true, false
	}
}

func toB(x interface{}) []byte {
	a, _ := x.([]interface{})
	b := make([]byte, len(a))
	for i, v := range a {
		b[i] = byte(v.(float64))
	}
	return b
}

// wrap puts optional-element octets behind the fixed part of a PDU SESSION ESTABLISHMENT ACCEPT inside DL NAS TRANSPORT
// inside a security protected message, as the emulator expects them
func wrap(op []byte) []byte {
	sm := append([]byte{0x2e, 5, 1, 0xc2, 0x11, 0x00, 0x00, 6, 0, 1, 6, 0, 1}, op...)
	dl := append([]byte{0x7e, 0x00, 0x68, 0x01, byte(len(sm) >> 8), byte(len(sm))}, sm...)
	return append([]byte{0x7e, 0x02, 0, 0, 0, 0, 0}, dl...)
}

func main() {
	seed := flag.Int64("seed", 1, "")
	tier := flag.String("tier", "quick", "")
	out := flag.String("out", "extract.ndjson", "")
	replay := flag.String("replay", "", "")
	term := flag.Bool("term", false, "")
	leads := flag.String("leads", "", "")
	from := flag.Int("from", 0, "")
	flag.Parse()
	f, err := os.OpenFile(*out, os.O_CREATE|os.O_APPEND|os.O_WRONLY, 0644)
	if err != nil {
		fmt.Println("HARNESS-ERROR", err)
		os.Exit(2)
	}
	w := bufio.NewWriter(f)
	emit := func(m ev.M) {
		b, _ := json.Marshal(m)
		w.Write(append(b, '\n'))
		w.Flush()
	}
	idx := 0
	if *replay != "" {
		in, err := os.Open(*replay)
		if err != nil {
			fmt.Println("HARNESS-ERROR", err)
			os.Exit(2)
		}
		sc := bufio.NewScanner(in)
		sc.Buffer(make([]byte, 1<<20), 1<<26)
		for sc.Scan() {
			if idx < *from {
				idx++
				continue
			}
			idx++
			var c map[string]interface{}
			if err := json.Unmarshal(sc.Bytes(), &c); err != nil {
				fmt.Println("HARNESS-ERROR", err)
				os.Exit(2)
			}
			nas, tr := toB(c["nas"]), toB(c["transfer"])
			var ip, upf net.IP
			var teid uint32
			hang, pn := guarded(func() {
				if len(nas) > 0 { // a transfer-only case carries no NAS PDU
					ip = stgutg.DecodePDUSessionNASPDU(nas)
				}
				teid, upf = stgutg.DecodePDUSessionResourceSetupRequestTransfer(tr)
			})
			c["obs"] = ev.M{"hang": hang, "panic": pn, "ip": ev.Ints(ip), "teid": ev.BE32(teid), "upf": ev.Ints(upf)}
			emit(c)
			if hang {
				os.Exit(3)
			}
		}
		return
	}
	if *term {
		r := ev.Rng(*seed, "extract")
		var inputs []ev.M
		alpha := []byte{41, 128, 89, 34, 121, 0, 1, 2}
		var rec func(prefix []byte, n int)
		rec = func(prefix []byte, n int) {
			inputs = append(inputs, ev.M{"fn": "nas", "cls": "alphabet", "op": append([]byte{}, prefix...)})
			if n == 0 {
				return
			}
			for _, a := range alpha {
				rec(append(prefix, a), n-1)
			}
		}
		depth := 3
		if *tier == "thorough" {
			depth = 4
		}
		rec(nil, depth)
		// adversarial announced lengths: every element id of the walk (and 0x29, a half-octet id, an unknown id) behind several
		// prefixes, announcing each extreme of a one- and two-octet length (a walk index computed modulo 2^16 or 2^8 would wrap)
		ids := []byte{0x59, 0x29, 0x56, 0x22, 0x75, 0x78, 0x79, 0x7B, 0x25, 0x17, 0x18, 0x77, 0x66, 0x1F, 0x80, 0xC1, 0x00, 0x27}
		lens := [][]byte{{0}, {1}, {0x7f}, {0x80}, {0xfb}, {0xfc}, {0xfd}, {0xfe}, {0xff}, {0, 0}, {0, 1}, {0, 0xff}, {1, 0}, {0x7f, 0xff}, {0x80, 0}}
		for x := 0xf0; x <= 0xff; x++ {
			lens = append(lens, []byte{0xff, byte(x)})
		}
		prefixes := [][]byte{{}, {0x59, 0x24}, {0x80}, {0x56, 0x20, 0xC1}}
		tails := [][]byte{{1, 2}}
		if *tier == "thorough" {
			tails = append(tails, []byte{}, ev.Bytes(r, 300))
		}
		for _, id := range ids {
			for _, ln := range lens {
				for _, pf := range prefixes {
					for _, tl := range tails {
						op := append(append(append(append([]byte{}, pf...), id), ln...), tl...)
						inputs = append(inputs, ev.M{"fn": "nas", "cls": "length-extremes", "op": op})
					}
				}
			}
		}
		// the two length fields of the fixed part (payload container length, QoS rules length) at their extremes, with and without contents
		for _, cl := range []int{0, 1, 5, 0x7fff, 0x8000, 0xfff2, 0xfff8, 0xfffd, 0xfffe, 0xffff} {
			for _, ql := range []int{0, 1, 0x00ff, 0x7fff, 0x8000, 0xfff0, 0xfff2, 0xfff7, 0xfff9, 0xfffe, 0xffff} {
				for _, tail := range [][]byte{{}, {0x29, 5, 1, 10, 0, 0, 1}, ev.Bytes(r, 40)} {
					sm := append([]byte{0x2e, 5, 1, 0xc2, 0x11, byte(ql >> 8), byte(ql)}, tail...)
					dl := append([]byte{0x7e, 0x00, 0x68, 0x01, byte(cl >> 8), byte(cl)}, sm...)
					inputs = append(inputs, ev.M{"fn": "nas-raw", "cls": "fixed-part-lengths", "raw": append([]byte{0x7e, 0x02, 0, 0, 0, 0, 0}, dl...)})
				}
			}
		}
		// setup request transfers: an IE header (id, criticality, length) with an extreme length for each IE id of the transfer, cut at each octet
		for _, id := range []byte{130, 139, 134, 136, 0, 255} {
			for _, ln := range []byte{0, 1, 9, 0x7f, 0x80, 0xff} {
				for _, first := range [][]byte{{}, {0, 130, 0, 2, 0x10, 0x20}} {
					full := append(append(append([]byte{0, 0, 2}, first...), 0, id, 0, ln), ev.Bytes(r, 12)...)
					for cut := 3; cut <= len(full); cut += 1 + (len(full)-3)/6 {
						inputs = append(inputs, ev.M{"fn": "transfer", "cls": "ie-header", "raw": append([]byte{}, full[:cut]...)})
					}
					inputs = append(inputs, ev.M{"fn": "transfer", "cls": "ie-header", "raw": full})
				}
			}
		}
		if *leads != "" {
			if b, err := os.ReadFile(*leads); err == nil {
				var ls [][]int
				json.Unmarshal(b, &ls)
				for _, l := range ls {
					op := make([]byte, len(l))
					for i, x := range l {
						op[i] = byte(x)
					}
					inputs = append(inputs, ev.M{"fn": "nas", "cls": "lead", "op": op})
				}
			}
		}
		nrand := 300
		if *tier == "thorough" {
			nrand = 20000
		}
		for i := 0; i < nrand; i++ {
			n := r.Intn(60)
			if i%10 == 0 {
				n = r.Intn(4096)
			}
			b := ev.Bytes(r, n)
			switch i % 4 {
			case 0:
				inputs = append(inputs, ev.M{"fn": "nas", "cls": "random-op", "op": b})
			case 1:
				inputs = append(inputs, ev.M{"fn": "nas-raw", "cls": "random", "raw": b})
			case 2:
				inputs = append(inputs, ev.M{"fn": "transfer", "cls": "random", "raw": b})
			case 3: // transfer-like: plausible header, random IEs
				t := append([]byte{0, 0, byte(1 + r.Intn(4))}, b...)
				inputs = append(inputs, ev.M{"fn": "transfer", "cls": "random-ies", "raw": t})
			}
		}
		for _, in := range inputs {
			if idx < *from {
				idx++
				continue
			}
			idx++
			var input []byte
			fn := in["fn"].(string)
			var call func()
			switch fn {
			case "nas":
				input = wrap(in["op"].([]byte))
				call = func() { stgutg.DecodePDUSessionNASPDU(input) }
			case "nas-raw":
				input = in["raw"].([]byte)
				call = func() { stgutg.DecodePDUSessionNASPDU(input) }
			default:
				input = in["raw"].([]byte)
				call = func() { stgutg.DecodePDUSessionResourceSetupRequestTransfer(input) }
			}
			hang, pn := guarded(call)
			outcome := "value"
			if hang {
				outcome = "hang"
			} else if pn {
				outcome = "panic"
			}
			e := ev.M{"ev": "Term", "id": idx - 1, "fn": fn, "cls": in["cls"], "input": ev.Ints(input), "outcome": outcome}
			if op, ok := in["op"].([]byte); ok {
				e["op"] = ev.Ints(op)
			}
			emit(e)
			if hang {
				os.Exit(3)
			}
		}
	}
}
