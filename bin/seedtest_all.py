#!/usr/bin/env python3
"""Run seedtest over all sub-agent outputs in /tmp/wt/*-out/{A,B}; results to /tmp/wt/results.json (appended)."""
import json, os, subprocess, sys, glob
REL = {"C01": ["C01", "C05", "C03", "C13"], "C02": ["C02", "C12", "C13"], "C03": ["C03", "C04", "C13"], "C04": ["C04", "C03"],
       "C05": ["C05", "C01"], "C06": ["C06", "C07"], "C07": ["C07", "C06"], "C08": ["C08", "C09"], "C09": ["C09", "C08"],
       "C10": ["C10", "C07"], "C11": ["C11", "C01"], "C12": ["C12", "C02"], "C13": ["C13", "C03"], "C14": ["C14", "C04"],
       "C15": ["C15"], "C16": ["C16", "C02"], "C17": ["C17"], "C18": ["C18"], "C19": ["C19"], "C20": ["C20"]}
only = sys.argv[1:]
resp = "/tmp/wt/results.json"
res = json.load(open(resp)) if os.path.exists(resp) else {}
here = os.path.dirname(os.path.abspath(__file__))
for d in sorted(glob.glob("/tmp/wt/*-out/*")):
    pid = os.path.basename(os.path.dirname(d))[:3]
    tag = pid + "-" + os.path.basename(d)
    if only and pid not in only and tag not in only:
        continue
    if tag in res or not os.path.exists(os.path.join(d, "patch.diff")):
        continue
    p = subprocess.run([sys.executable, os.path.join(here, "seedtest.py"), os.path.join(d, "patch.diff")] + REL[pid], capture_output=True, text=True)
    out = p.stdout
    caught = [l.split()[1] for l in out.splitlines() if l.startswith("== ") and "exit=1" in l]
    errs = [l.split()[1] for l in out.splitlines() if l.startswith("== ") and "exit=2" in l]
    res[tag] = {"caught_by": caught, "harness_error": errs, "ran": REL[pid], "log": out[-3000:]}
    json.dump(res, open(resp, "w"), indent=1)
    print(tag, "caught by", caught, "errors", errs, flush=True)
