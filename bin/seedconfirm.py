#!/usr/bin/env python3
"""Confirm a seeded change in a scratch worktree of /repo (never in /repo itself):
   HEAD + demonstration passes; HEAD + patch builds (with and without the verif tag), passes the 93 pinned tests, and the
   demonstration fails.  usage: seedconfirm.py <dir with patch.diff, demo/, meta.json> [...]   -> prints one JSON line per dir"""
import glob
import json
import os
import re
import shutil
import subprocess
import sys

WT = "/tmp/wt/confirm"
ENV = dict(os.environ, GOPROXY="off", GOSUMDB="off", GOTOOLCHAIN="local")
ENV.pop("GOFLAGS", None)
PKGDIR = {"tglib": "src/tglib", "stgutg": "src/stgutg", "ngap": "src/free5gclib/ngap", "nas": "src/free5gclib/nas", "aper": "src/free5gclib/aper",
          "security": "src/free5gclib/nas/security", "milenage": "src/free5gclib/milenage", "nasMessage": "src/free5gclib/nas/nasMessage",
          "nasConvert": "src/free5gclib/nas/nasConvert", "ngapConvert": "src/free5gclib/ngap/ngapConvert", "snow3g": "src/free5gclib/nas/security/snow3g",
          "nasType": "src/free5gclib/nas/nasType", "nasTestpacket": "src/free5gclib/nas/nasTestpacket", "ngapTestpacket": "src/tglib/ngapTestpacket"}


def sh(cmd, cwd, timeout=1500):
    r = subprocess.run(cmd, shell=True, cwd=cwd, env=ENV, capture_output=True, text=True, timeout=timeout)
    return r.returncode, (r.stdout + r.stderr)


def reset():
    sh("git checkout -q -- . && git clean -fdqx -- . ", WT)


def place_demo(d):
    """copy the demonstration files into the worktree; returns [(package dir, run pattern, tags)]"""
    meta = {}
    if os.path.exists(os.path.join(d, "meta.json")):
        meta = json.load(open(os.path.join(d, "meta.json")))
    text = (meta.get("demo_cmd") or "") + "\n"
    rp = os.path.join(d, "demo", "README.txt")
    if os.path.exists(rp):
        text += open(rp).read()
    runs = []
    for f in sorted(glob.glob(os.path.join(d, "demo", "**", "*.go"), recursive=True)):
        base = os.path.basename(f)
        src = open(f).read()
        pkg = re.search(r"^package (\w+)", src, re.M).group(1)
        m = re.search(re.escape(base) + r"[^\n]*?((?:<repo>/)?src/[A-Za-z0-9_/]+)", text) or re.search(r"((?:<repo>/)?src/[A-Za-z0-9_/]+)[^\n]*" + re.escape(base), text)
        target = None
        explicit = re.search(r"<repo>/([A-Za-z0-9_./-]+?)/" + re.escape(base), text)
        if pkg.endswith("_test"):
            pkg = pkg[:-5]
        if pkg in PKGDIR:
            target = PKGDIR[pkg]
        elif m:
            target = m.group(1).replace("<repo>/", "").rstrip("/")
        if pkg == "main":
            target = m.group(1).replace("<repo>/", "").rstrip("/") if m else "."
            if re.search(r"<repo>/" + re.escape(base), text) or re.search(re.escape(base) + r"\s+<repo>/?\s", text):
                target = "."        # the instructions name the repository root itself
        if explicit:
            target = explicit.group(1)          # the instructions name the directory of this very file
        if target is None:
            raise SystemExit("cannot place " + f)
        if target.endswith(".go"):
            target = os.path.dirname(target)
        os.makedirs(os.path.join(WT, target), exist_ok=True)
        shutil.copy(f, os.path.join(WT, target, base))
        tags = "verif" if re.search(r"^//go:build .*verif", src, re.M) or re.search(r"go test[^\n]*-tags verif", text) else ""
        tests = re.findall(r"^func (Test\w+)\(", src, re.M)
        runs.append((target, "^(" + "|".join(tests) + ")$" if tests else None, tags, pkg == "main" and not base.endswith("_test.go")))
    return runs, meta


def run_demo(runs):
    ok, out = True, ""
    for target, pat, tags, is_main in runs:
        if is_main:
            rc, o = sh("go run %s ." % ("-tags " + tags if tags else ""), os.path.join(WT, target))
        elif pat:
            rc, o = sh("go test -vet=off -count=1 -timeout 20m %s -run '%s' ." % ("-tags " + tags if tags else "", pat), os.path.join(WT, target))
        else:
            continue
        ok = ok and rc == 0
        out += o[-1500:]
    return ok, out


def confirm(d):
    res = {"dir": d}
    reset()
    runs, meta = place_demo(d)
    res["property"] = meta.get("property")
    ok, out = run_demo(runs)
    res["demo_passes_at_head"] = ok
    if not ok:
        res["head_out"] = out[-800:]
    rc, o = sh("git apply --whitespace=nowarn " + os.path.join(d, "patch.diff"), WT)
    res["applies"] = rc == 0
    if rc != 0:
        res["apply_err"] = o[-400:]
        reset()
        return res
    b = True
    for tags in ("", "-tags verif"):
        rc, o = sh("go build %s ./... " % tags, WT)
        b = b and rc == 0
        for m in ("src/free5gclib", "src/stgutg", "src/tglib"):
            rc, o = sh("go build %s ./..." % tags, os.path.join(WT, m))
            b = b and rc == 0
    res["builds"] = b
    # the pinned suite without the demonstration files
    for target, pat, tags, is_main in runs:
        pass
    demo_files = [os.path.join(WT, t, os.path.basename(f)) for f in sorted(glob.glob(os.path.join(d, "demo", "**", "*.go"), recursive=True)) for (t, _, _, _) in runs[:1]]
    stash = []
    for t, _, _, _ in runs:
        for f in glob.glob(os.path.join(d, "demo", "**", "*.go"), recursive=True):
            p = os.path.join(WT, t, os.path.basename(f))
            if os.path.exists(p):
                os.rename(p, p + ".off")
                stash.append(p)
    rc, o = sh("go test -vet=off -count=1 ./... 2>&1 | tail -30", os.path.join(WT, "src/free5gclib"))
    res["suite_passes"] = rc == 0 and "FAIL" not in o
    if not res["suite_passes"]:
        res["suite_out"] = o[-600:]
    for p in stash:
        os.rename(p + ".off", p)
    ok, out = run_demo(runs)
    res["demo_fails_with_patch"] = not ok
    res["patched_out"] = out[-600:]
    reset()
    res["confirmed"] = bool(res["demo_passes_at_head"] and res["applies"] and res["builds"] and res["suite_passes"] and res["demo_fails_with_patch"])
    return res


if __name__ == "__main__":
    if not os.path.exists(WT):
        subprocess.run(["git", "-C", "/repo", "worktree", "add", "-q", "--detach", WT, "HEAD"], check=True)
    for d in sys.argv[1:]:
        try:
            print(json.dumps(confirm(d.rstrip("/"))), flush=True)
        except SystemExit as e:
            print(json.dumps({"dir": d, "confirmed": False, "error": str(e)}), flush=True)
