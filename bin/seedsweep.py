#!/usr/bin/env python3
"""Regression run of the kept seeded changes (seeded/<id>-<X>/patch.diff) against the current checks: for each seed the patch is applied to
/repo, the check of its own property (quick tier) is started, and as soon as that check has copied the working tree (VERIF_COPIED_MARK)
the patch is undone and the next seed follows, so that several checks run at once while /repo carries one patch at a time.
Writes seeded/<tag>/meta.json ("sweep": {check, exit, lines}) and prints one line per seed.
usage: seedsweep.py [-j N] [tags or property ids ...]"""
import glob
import json
import os
import subprocess
import sys
import time

HERE = os.path.dirname(os.path.abspath(__file__))
VERIF = os.path.dirname(HERE)
args = sys.argv[1:]
par = 3
if args[:1] == ["-j"]:
    par = int(args[1])
    args = args[2:]


def git(*a):
    return subprocess.run(["git", "-C", "/repo"] + list(a), capture_output=True, text=True)


def restore():
    git("checkout", "--", ".")
    subprocess.run(["git", "-C", "/repo", "clean", "-fdq", "--", "src"], capture_output=True)


if git("status", "--porcelain").stdout.strip():
    print("/repo is not clean")
    sys.exit(2)
seeds = []
for d in sorted(glob.glob(os.path.join(VERIF, "seeded", "*"))):
    tag = os.path.basename(d)
    if os.path.isfile(os.path.join(d, "patch.diff")) and (not args or tag in args or tag[:3] in args):
        seeds.append((tag, d))
running = []     # (tag, dir, process, log path, start time)
results = {}


def reap(block):
    global running
    while True:
        for item in list(running):
            tag, d, p, logp, t0 = item
            if p.poll() is not None:
                out = open(logp).read()
                lines = [l.strip()[:300] for l in out.splitlines() if l.startswith("VIOLATION") or l.startswith("  key=") or l.startswith("HARNESS") or " tier=" in l]
                mp = os.path.join(d, "meta.json")
                meta = json.load(open(mp)) if os.path.exists(mp) else {}
                meta["sweep"] = {"check": tag[:3], "exit": p.returncode, "lines": lines[:7], "seconds": int(time.time() - t0),
                                 "how": "bin/seedsweep.py: git -C /repo apply patch.diff; bin/check %s --tier quick (working tree copied); git -C /repo checkout -- ." % tag[:3]}
                json.dump(meta, open(mp, "w"), indent=1)
                print(tag, "exit", p.returncode, "(%ds)" % (time.time() - t0), lines[-1][:150] if lines else "", flush=True)
                results[tag] = p.returncode
                running.remove(item)
                os.remove(logp)
        if not block or len(running) < par:
            return
        time.sleep(1)


try:
    for tag, d in seeds:
        reap(True)
        r = git("apply", os.path.join(d, "patch.diff"))
        if r.returncode != 0:
            print(tag, "patch does not apply:", r.stderr.strip()[:200], flush=True)
            restore()
            continue
        mark = "/root/work/sweep-%s.mark" % tag
        logp = "/root/work/sweep-%s.log" % tag
        if os.path.exists(mark):
            os.remove(mark)
        p = subprocess.Popen([os.path.join(HERE, "check"), tag[:3], "--tier", "quick"], cwd=VERIF, stdout=open(logp, "w"), stderr=subprocess.STDOUT,
                             env=dict(os.environ, VERIF_COPIED_MARK=mark))
        t0 = time.time()
        while not os.path.exists(mark) and p.poll() is None and time.time() - t0 < 120:
            time.sleep(0.2)
        restore()
        if os.path.exists(mark):
            os.remove(mark)
        running.append((tag, d, p, logp, t0))
    while running:
        reap(False)
        time.sleep(1)
finally:
    restore()
missed = [t for t, rc in results.items() if rc == 0]
errors = [t for t, rc in results.items() if rc not in (0, 1)]
print("seeds %d caught %d missed %s errors %s" % (len(results), sum(1 for rc in results.values() if rc == 1), missed, errors))
