#!/usr/bin/env python3
"""Apply a seeded change to /repo, run the given checks (quick tier), undo the change.
usage: seedtest.py <patch.diff> <property id> [more ids...]   (env VERIF_TIER / VERIF_SEED are passed through)"""
import subprocess, sys, os, time
patch, checks = sys.argv[1], sys.argv[2:]
def git(*a): return subprocess.run(["git", "-C", "/repo"] + list(a), capture_output=True, text=True)
if git("status", "--porcelain").stdout.strip():
    print("/repo is not clean"); sys.exit(2)
r = git("apply", patch)
if r.returncode != 0:
    print("patch does not apply:", r.stderr); sys.exit(2)
res = {}
def one(c):
    t0 = time.time()
    p = subprocess.run([os.path.join(os.path.dirname(os.path.abspath(__file__)), "check"), c, "--tier", os.environ.get("VERIF_TIER", "quick")], capture_output=True, text=True, cwd=os.path.dirname(os.path.dirname(os.path.abspath(__file__))))
    lines = [l for l in p.stdout.splitlines() if l.startswith("VIOLATION") or l.startswith("  key=") or l.startswith("HARNESS") or l.startswith(c + " tier")]
    return c, (p.returncode, time.time() - t0, lines[:7])
try:
    # the checks of one seed run two at a time (each copies /repo's working tree, patch applied, into its own scratch directory)
    import concurrent.futures as cf
    with cf.ThreadPoolExecutor(max_workers=int(os.environ.get("SEEDTEST_PARALLEL", "2"))) as ex:
        for c, r in ex.map(one, checks):
            res[c] = r
finally:
    git("checkout", "--", ".")
    subprocess.run(["git", "-C", "/repo", "clean", "-fdq", "--", "src"], capture_output=True)
for c, (rc, t, lines) in res.items():
    print("== %s exit=%d (%.0fs)" % (c, rc, t))
    for l in lines: print("   ", l[:260])
print("repo clean:", not git("status", "--porcelain").stdout.strip())
