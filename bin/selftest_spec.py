#!/usr/bin/env python3
"""Run spec/SelfTest.tla (published vectors) and build every harness command once (warms the Go build cache)."""
import os, sys
sys.path.insert(0, os.path.dirname(os.path.abspath(__file__)))
import vlib

sc = vlib.Scratch()
try:
    sc.copy_repo()
    d = sc.specdir()
    r = vlib.run_tlc(d, "SelfTest", vlib.cfg_text(post="Post"), timeout=600)
    if not r.ok or "SELFTEST FAILED" in r.out:
        print(r.out[-3000:])
        print("spec self-test FAILED")
        sys.exit(2)
    print("spec self-test ok (%.1fs)" % r.wall)
    cmds = sorted(os.listdir(os.path.join(vlib.HARNESS, "cmd")))
    sc.build(cmds)
    sc.build_emulator()
    print("harness build ok:", " ".join(cmds))
finally:
    sc.cleanup()
