#!/usr/bin/env python3
"""Run spec/SelfTest.tla (published vectors) and build every harness command once (warms the Go build cache)."""
import os, sys
sys.path.insert(0, os.path.dirname(os.path.abspath(__file__)))
import vlib

sc = vlib.Scratch()
try:
    sc.copy_repo()
    d = sc.specdir()
    r = vlib.run_tlc(d, "SelfTest", vlib.cfg_text(post="Post"), timeout=600)
    if not r.ok or "SELFTEST FAILED" in r.out:
        print(r.out[-3000:])
        print("spec self-test FAILED")
        sys.exit(2)
    print("spec self-test ok (%.1fs)" % r.wall)
    # the Apalache lemma module must state its lemmas about the very operators of NasSec.tla
    import re
    def norm(x):
        return re.sub(r"\s+", " ", x.replace("last", "l")).strip()
    nassec = norm(open(os.path.join(vlib.SPEC, "NasSec.tla")).read())
    lemma = open(os.path.join(vlib.SPEC, "NasCountLemma.tla")).read()
    for op in ("Sqn(c) ==", "Ovf(c) ==", "AddOne(c) ==", "MkCount(ovf, sqn) ==", "Estimate(l, sqn) =="):
        line = [norm(x) for x in lemma.splitlines() if x.startswith(op)]
        if len(line) != 1 or line[0] not in nassec:
            print("NasCountLemma.tla: operator %s differs from NasSec.tla" % op)
            sys.exit(2)
    ok, txt = vlib.run_apalache(d, "NasCountLemma", "Lemmas")
    if not ok:
        print(txt[-2000:])
        print("NasCountLemma FAILED")
        sys.exit(2)
    print("NasCountLemma (Apalache) ok")
    # the clamp lemma module must state its lemmas about the very Min / Limit of Stg.tla
    flat = lambda x: re.sub(r"\s+", " ", x)
    stg = flat(open(os.path.join(vlib.SPEC, "Stg.tla")).read())
    cl = open(os.path.join(vlib.SPEC, "StgClampLemma.tla")).read()
    a = cl.index("Limit(c, ph) ==")
    limit_def = flat(cl[a:cl.index("\n\n", a)])
    if limit_def not in stg or "Min(a, b) == IF a < b THEN a ELSE b" not in stg or "Min(a, b) == IF a < b THEN a ELSE b" not in cl:
        print("StgClampLemma.tla: Min / Limit differ from Stg.tla")
        sys.exit(2)
    ok, txt = vlib.run_apalache(d, "StgClampLemma", "Lemmas")
    ok2, _ = vlib.run_apalache(d, "StgClampLemma", "ReleaseClampIsRegistrationClamp")
    if not ok or ok2:
        print(txt[-2000:])
        print("StgClampLemma FAILED" if not ok else "StgClampLemma: the anti-vacuity statement was not refuted")
        sys.exit(2)
    print("StgClampLemma (Apalache) ok")
    cmds = sorted(os.listdir(os.path.join(vlib.HARNESS, "cmd")))
    sc.build(cmds)
    sc.build_emulator()
    print("harness build ok:", " ".join(cmds))
finally:
    sc.cleanup()
