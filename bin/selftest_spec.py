#!/usr/bin/env python3
"""Run spec/SelfTest.tla (published vectors) and build every harness command once (warms the Go build cache)."""
import os, sys
sys.path.insert(0, os.path.dirname(os.path.abspath(__file__)))
import vlib

sc = vlib.Scratch()
try:
    sc.copy_repo()
    d = sc.specdir()
    r = vlib.run_tlc(d, "SelfTest", vlib.cfg_text(post="Post"), timeout=600)
    if not r.ok or "SELFTEST FAILED" in r.out:
        print(r.out[-3000:])
        print("spec self-test FAILED")
        sys.exit(2)
    print("spec self-test ok (%.1fs)" % r.wall)
    # the Apalache lemma module must state its lemmas about the very operators of NasSec.tla
    import re
    def norm(x):
        return re.sub(r"\s+", " ", x.replace("last", "l")).strip()
    nassec = norm(open(os.path.join(vlib.SPEC, "NasSec.tla")).read())
    lemma = open(os.path.join(vlib.SPEC, "NasCountLemma.tla")).read()
    for op in ("Sqn(c) ==", "Ovf(c) ==", "AddOne(c) ==", "MkCount(ovf, sqn) ==", "Estimate(l, sqn) =="):
        line = [norm(x) for x in lemma.splitlines() if x.startswith(op)]
        if len(line) != 1 or line[0] not in nassec:
            print("NasCountLemma.tla: operator %s differs from NasSec.tla" % op)
            sys.exit(2)
    ok, txt = vlib.run_apalache(d, "NasCountLemma", "Lemmas")
    if not ok:
        print(txt[-2000:])
        print("NasCountLemma FAILED")
        sys.exit(2)
    print("NasCountLemma (Apalache) ok")
    cmds = sorted(os.listdir(os.path.join(vlib.HARNESS, "cmd")))
    sc.build(cmds)
    sc.build_emulator()
    print("harness build ok:", " ".join(cmds))
finally:
    sc.cleanup()
