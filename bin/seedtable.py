#!/usr/bin/env python3
"""Print the table of seeded changes (seeded/*/meta.json) for DESIGN.md section 14.5."""
import glob, json, os
V = os.path.dirname(os.path.dirname(os.path.abspath(__file__)))
rows = []
for d in sorted(glob.glob(os.path.join(V, "seeded", "*"))):
    mp = os.path.join(d, "meta.json")
    if not os.path.exists(mp):
        continue
    m = json.load(open(mp))
    tag = os.path.basename(d)
    def cl(x, n):
        x = " ".join(str(x or "").split()).replace("|", "/")
        return x if len(x) <= n else x[:n - 1].rstrip() + "…"
    sw = m.get("sweep")
    if sw:
        own = {0: "**missed**", 1: "caught"}.get(sw["exit"], "error (exit %d)" % sw["exit"])
        keys = [l for l in sw.get("lines", []) if l.startswith("key=")]
        if keys and sw["exit"] == 1:
            own += ": " + cl(keys[0][4:].split(" what=")[0], 70)
    else:
        own = "(not swept)"
    if m.get("superseded"):
        own = "superseded by a repair of the tree (see the table of misses)"
    others = ", ".join(c for c in m.get("caught_by", []) if c != tag[:3]) or "-"
    rows.append("| %s | %s | %s | %s | %s |" % (tag, cl(m.get("summary"), 230), cl(m.get("needs"), 170), own, others))
import sys
out = []
def print(*a):
    out.append(" ".join(str(x) for x in a))
print("| change | what it does | needs, to manifest | check of its own property, final sweep (quick tier) | other checks that caught it in the round it was made |")
print("|---|---|---|---|---|")
print("\n".join(rows))
print("\n%d seeded changes kept; %d caught by the check of their own property in the final sweep." % (len(rows), sum(1 for r in rows if "| caught" in r)))
text = "\n".join(out) + "\n"
if "--design" in sys.argv:
    dp = os.path.join(V, "DESIGN.md")
    d = open(dp).read()
    a, b = d.index("<!-- seedtable:begin -->") + len("<!-- seedtable:begin -->"), d.index("<!-- seedtable:end -->")
    open(dp, "w").write(d[:a] + "\n" + text + d[b:])
else:
    sys.stdout.write(text)
