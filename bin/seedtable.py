#!/usr/bin/env python3
"""Print the table of seeded changes (seeded/*/meta.json) for DESIGN.md section 14.5."""
import glob, json, os
V = os.path.dirname(os.path.dirname(os.path.abspath(__file__)))
rows = []
for d in sorted(glob.glob(os.path.join(V, "seeded", "*"))):
    mp = os.path.join(d, "meta.json")
    if not os.path.exists(mp):
        continue
    m = json.load(open(mp))
    tag = os.path.basename(d)
    def cl(x, n):
        x = " ".join(str(x or "").split()).replace("|", "/")
        return x if len(x) <= n else x[:n - 1].rstrip() + "…"
    caught = ", ".join(m.get("caught_by", [])) or "**missed**"
    ran = ", ".join(sorted(m.get("checks", {})))
    rows.append("| %s | %s | %s | %s | %s |" % (tag, cl(m.get("summary"), 230), cl(m.get("needs"), 170), caught, ran))
print("| change | what it does | needs, to manifest | caught by (quick tier) | checks run |")
print("|---|---|---|---|---|")
print("\n".join(rows))
print("\n%d seeded changes kept, %d caught by at least one check." % (len(rows), sum(1 for r in rows if "**missed**" not in r)))
