"""Online runs: the real emulator process against the specification's AMF executed by TLC (StgOnline.tla).

Python only chooses scenario parameters (configuration and the AMF's free choices), writes config.yaml, starts the
byte pump and TLC, and collects TLC's verdict.  Every judgement is made by TLC.
"""
import concurrent.futures as cf
import json
import os
import random
import shutil
import subprocess
import time

import vlib
from vlib import HarnessError


def num(i):
    if -(1 << 30) < i < (1 << 30):
        return {"n": i}
    b = []
    x = i
    while x > 0:
        b.insert(0, x & 255)
        x >>= 8
    return {"big": b}


def yaml_str(s):
    """double-quoted YAML scalar (the harness's own emitter)"""
    out = '"'
    for ch in s:
        o = ord(ch)
        if ch == '"':
            out += '\\"'
        elif ch == "\\":
            out += "\\\\"
        elif 32 <= o < 127:
            out += ch
        else:
            out += "\\x%02x" % o
    return out + '"'


def ascii_ints(s):
    return [ord(c) for c in s]


def make_scenario(rnd, counts, nues_choices=None, fault=None, opts=None):
    """Scenario = configuration of the emulator + the AMF's free choices per UE."""
    opts = opts or {}
    mnc_len = opts.get("mnc_len", rnd.choice([2, 3]))
    if opts.get("mnc"):
        mnc_len = len(opts["mnc"])
    mcc = "".join(rnd.choice("0123456789") for _ in range(3))
    if opts.get("mcc"):
        mcc = opts["mcc"]
    mnc = "".join(rnd.choice("0123456789") for _ in range(mnc_len))
    if "det" in opts:
        # MNCs whose numeric value has fewer digits than the MNC (012, 007, 05): the serving network name and the PLMN octets must
        # keep the configured digits; cycled with the run index
        dg = lambda: rnd.choice("123456789")
        mnc = ([dg() + mnc[1:], "0" + dg() + mnc[2:], "00" + dg()] if mnc_len == 3 else [mnc, dg() + mnc[1:], "0" + dg()])[opts["det"] % 3]
    if opts.get("mnc"):
        mnc = opts["mnc"]           # an explicit MNC wins over the cycled ones
    imsi_len = opts.get("imsi_len", rnd.choice([13, 14, 15]))
    msin_len = imsi_len - 3 - mnc_len
    nreg = counts["reg"]
    # MSIN chosen so that the PDU session identity the emulator derives (IMSI mod 10^4, as an octet) lies in 1..15
    # for every UE of the run (scenario assumption, DESIGN section 3.2 OnePsi)
    base = rnd.randrange(0, 10 ** max(msin_len - 4, 0)) if msin_len > 4 else 0
    low = rnd.randrange(1, max(2, 16 - nreg)) if msin_len >= 4 else rnd.randrange(1, 10)
    if opts.get("free_msin") and msin_len >= 5 and counts["pdu"] == 0:
        # registration-only runs need no PDU session identity: let the subscriber block cross a multiple of 10^4
        low = 10000 - rnd.randrange(1, nreg + 1) if nreg > 1 else rnd.choice([9999, 0, rnd.randrange(10000)])
        if nreg > 1 and "det" in opts:
            low = 10000 - (nreg - 1) - opts["det"] % 2      # the last (or the last but one) UE of the run lands on ...0000
        if "low" in opts:
            low = opts["low"]
        base = max(base, 1) if low == 0 else base
    msin_val = base * 10000 + low if msin_len >= 4 else low
    if "msin_val" in opts and counts["pdu"] == 0:
        msin_val = opts["msin_val"]      # an explicit subscriber number (registration-only runs: no PDU session identity is derived from it)
    msin = str(msin_val).zfill(msin_len)[-msin_len:]
    if opts.get("msin_has_plmn") and counts["pdu"] == 0 and msin_len >= len(mcc + mnc) + 2:
        # the home network's digits occur again inside the subscriber number (a registration-only run: no session identity is derived)
        msin = ("1" + mcc + mnc + "0" * msin_len)[:msin_len - 1] + "1"
    imsi = mcc + mnc + msin
    bits = opts.get("gnb_bits", rnd.choice([22, 24, 27, 32]))
    # gnb_id is a YAML string: octets above 0x7f cannot be written in it (they would become UTF-8 sequences)
    gid = [rnd.randrange(128) for _ in range((bits + 7) // 8)]
    if bits % 8:
        gid[-1] &= (0xff << (8 - bits % 8)) & 0xff
    name_len = opts.get("name_len", rnd.choice([1, 2, 7, 75, 150]))
    name = "".join(rnd.choice("ABCDEFGHIJKLMNOPQRSTUVWXYZabcdefghijklmnopqrstuvwxyz0123456789-") for _ in range(name_len))
    if "det" in opts and name_len >= 7:
        # the other characters of the PrintableString alphabet (X.680 table 10), a blank among them, inside the name
        sym = [" ", "=", "'()", "+,", "./:", "?"][opts["det"] % 6]
        name = name[:2] + sym + name[2 + len(sym):]
    k = [rnd.randrange(256) for _ in range(16)]
    op = [rnd.randrange(256) for _ in range(16)]
    if opts.get("lead0"):
        # keys whose hexadecimal text begins with zero digits
        k[0], op[0] = rnd.randrange(16), 0
        op[1] = rnd.randrange(16)
    use_opc = opts.get("use_opc", rnd.choice([True, False]))
    opc = [rnd.randrange(256) for _ in range(16)] if use_opc else []
    if opts.get("lead0") and opc:
        opc[0] = 0
    gtp = [rnd.choice([10, 192, 172]), rnd.randrange(256), rnd.choice([0, 255, rnd.randrange(256)]), rnd.randrange(1, 255)]
    sst = rnd.choice([1, 2, 3, 128])
    sd = [rnd.randrange(256) for _ in range(3)]
    amf_ip = "%d.%d.%d.%d" % (rnd.choice([10, 127, 192]), rnd.randrange(256), rnd.randrange(256), rnd.randrange(1, 255))
    stg_ip = "%d.%d.%d.%d" % (rnd.choice([10, 127, 192]), rnd.randrange(256), rnd.randrange(256), rnd.randrange(1, 255))
    amf_port, stg_port = rnd.choice([0, 1, 38412, 65535, rnd.randrange(65536)]), rnd.choice([0, 9487, 65535, rnd.randrange(65536)])
    cfg = {"amfIp": amf_ip, "amfPort": amf_port, "stgIp": stg_ip, "stgPort": stg_port, "mcc": ascii_ints(mcc), "mnc": ascii_ints(mnc), "imsi": ascii_ints(imsi), "k": k, "op": op, "opc": opc,
           "gnbId": gid, "gnbBits": bits, "gnbName": ascii_ints(name), "gtpIp": gtp, "sst": sst, "sd": sd, "counts": counts}
    ues = []
    amf_ids = [0, 1, 255, 256, 65535, 65536, (1 << 32) - 1, 1 << 32, (1 << 40) - 1]
    for u in range(max(nreg, 1)):
        supi = str(int(imsi) + u).zfill(len(imsi))
        ues.append({
            "supiStr": "imsi-" + supi,
            "rand": [rnd.randrange(256) for _ in range(16)],
            "sqn": rnd.choice([[0, 0, 0, 0, 0, 1], [255] * 6, [rnd.randrange(256) for _ in range(6)]]),
            "amfField": rnd.choice([[0x80, 0], [0, 0], [0xff, 0xff]]),
            "amfId": num(rnd.choice(amf_ids) if rnd.random() < 0.7 else rnd.randrange(1 << 40)),
            "ngksi": rnd.randrange(7), "encAlg": 0, "intAlg": 2,
            "optIEs": rnd.choice([0, 1, 2]), "tmsi": [rnd.randrange(256) for _ in range(4)],
            "ip": [rnd.choice([10, 0, 255]), rnd.randrange(256), rnd.choice([0, 255, 7]), rnd.randrange(256)],
            "teid": rnd.choice([[0, 0, 0, 0], [0, 0, 0, 1], [128, 0, 0, 0], [255, 255, 255, 255], [rnd.randrange(256) for _ in range(4)]]),
            "upf": [rnd.choice([10, 192]), rnd.randrange(256), rnd.randrange(256), rnd.randrange(1, 255)],
            "qosRules": [rnd.randrange(256) for _ in range(rnd.choice([0, 1, 9, 127, 128, 255, 256, 1000]))],
            "qosFlows": [rnd.randrange(256) for _ in range(rnd.choice([3, 6, 60]))],
            "smOpt": rnd.choice([0, 1, 2]),
            "withAmbr": rnd.choice([True, False]),
            "ambrDl": num(rnd.choice([0, 1, 255, 256, 1 << 32, 4000000000000, rnd.randrange(4000000000001)])),
            "ambrUl": num(rnd.choice([0, 1, 65535, 65536, 1 << 24, 4000000000000])),
        })
        # the AMF's algorithm priority lists (TS 33.501 6.7.1): it selects the first entry the UE advertises
        ues[-1]["encPrio"], ues[-1]["intPrio"] = rnd.choice([[0], [1, 2, 0], [2, 1, 0], [2, 0, 1]]), rnd.choice([[2], [1, 2], [2, 1]])
        # optional IEs of the PDU SESSION RESOURCE SETUP REQUEST itself (TS 38.413 9.2.1.1): RAN Paging Priority precedes the list
        r2 = random.Random(rnd.random())
        ues[-1]["setupPaging"] = opts.get("setup_paging", r2.random() < 0.5)
        if opts.get("big_amf_id") and u == 0:
            ues[u]["amfId"] = num(rnd.choice([1 << 32, (1 << 40) - 1, rnd.randrange(1 << 32, 1 << 40)]))
        if u and ues[u]["amfId"] in [x["amfId"] for x in ues[:u]]:
            ues[u]["amfId"] = num(1000 + u)
    if "det" in opts:
        # the AMF's per-UE choices cycle with the run index and the UE index instead of being drawn: every class of every choice
        # is met in every run of a check (quick tier: 3 runs), whatever the seed
        d = opts["det"]
        qlens = [0, 256, 9, 1000, 1, 255]
        for u, ue in enumerate(ues):
            s_ = d * 3 + u
            rr = random.Random(rnd.random())
            ue["optIEs"] = (d + u) % 3
            ue["encPrio"], ue["intPrio"] = [[1, 2, 0], [0], [2, 1, 0]][(d + u) % 3], [[1, 2], [2, 1], [2]][(d + u) % 3]
            ue["ngksi"] = [0, 6, 3, 1, 5][(d + u) % 5]
            ue["sqnZero"] = [1, 0, 2][(d + u) % 3]          # leading zero octets of the concealed SQN in AUTN
            ue["amfField"] = [[0x80, 0], [0, 0], [0xff, 0xff]][(d + u) % 3]
            if (d + 2 * u) % 3 < 2:
                ue["sqn"] = [[0, 0, 0, 0, 0, 1], [255] * 6][(d + 2 * u) % 3]
            if not (opts.get("big_amf_id") and u == 0):
                ue["amfId"] = num(amf_ids[(3 * d + u) % len(amf_ids)])
            ue["smOpt"] = (d + u) % 3          # not s_ % 3, which is u % 3: the accept with every optional IE would never be built for two UEs
            ue["qosRules"] = [rr.randrange(256) for _ in range(qlens[s_ % 6])]
            ue["setupPaging"] = opts.get("setup_paging", s_ % 2 == 0)
            ue["withAmbr"] = (s_ // 2) % 2 == 0
            # 139 is the id of the tunnel IE that follows the bit rate IE in the transfer: its encoding contains the octets 00 8B
            ue["ambrDl"] = num([139, 1 << 32, 4000000000000, 0, 256, 35584][s_ % 6])
            ue["ambr"] = [[6, 0, 1, 6, 0, 1], [0, 0, 1, 6, 0, 1], [1, 255, 255, 0, 0, 0]][(d + u) % 3]      # session AMBR: unit 0 = "value is not used"
            if (d + u) % 2 == 1:
                # later-release IEs behind the Accept's tabulated ones (serving PLMN rate control = 41, a header compression configuration)
                ue["acceptTail"] = [[0x18, 2, 0x00, 0x29], [0x18, 2, 0x29, 0x22, 0x66, 3, 0x29, 0x7B, 0x00]][(d + u) // 2 % 2]
            ue["setupMsgNas"] = (d + u) % 2 == 1       # another NAS message in the message-level NAS-PDU IE of the setup request
            if opts.get("slow") and u == opts["slow"] - 1:
                ue["setupDelay"] = 17                  # the SMF answers this UE's session request after 17 s
            if opts.get("tail_ie") and u == opts["tail_ie"] - 1:
                ue["setupTailIe"] = True               # UE-AMBR (id 110) behind the list of this UE's setup request
            if opts.get("fill") and u == opts["fill"] - 1:
                ue["setupFill"] = 2048                 # this UE's setup request fills the emulator's receive buffer exactly
            if u >= 1 and d % 2 == 0:
                # two UPFs that number their tunnels alike: the same TEID from another UPF address (a TEID is unique per address only)
                ue["teid"] = list(ues[0]["teid"])
                ue["upf"] = [ues[0]["upf"][0], ues[0]["upf"][1], ues[0]["upf"][2], (ues[0]["upf"][3] % 250) + 2]
        for u in range(1, len(ues)):
            if ues[u]["amfId"] in [x["amfId"] for x in ues[:u]]:
                ues[u]["amfId"] = num(1000 + u)
    scn = {"cfg": cfg, "ues": ues, "fault": fault or {"kind": "none", "at": -1, "bytes": []}}
    if "det" in opts:
        scn["amfName"] = [[ord(c) for c in x] for x in ["AMF 1", "open5gs-amf0", "SubNetwork=1,ManagedElement=AMF (7)/a:b+c.d?'"]][opts["det"] % 3]
        scn["amfOtherPlmn"] = (opts["det"] + 1) % 3           # the AMF serves a second PLMN: listed in front of the gNB's (1), behind it (2), not at all (0)
        if "other_plmn" in opts:
            scn["amfOtherPlmn"] = opts["other_plmn"]           # (fixed by the check where it has too few runs to cycle through the three)
    if opts.get("gid_hex") and bits == 32:
        # four octets that are all hexadecimal digits in ASCII: the identifier is these octets, not the number they spell
        cfg["gnbId"] = [0x31, 0x32, 0x41, 0x66]
    gid = cfg["gnbId"]
    text = {"mcc": mcc, "mnc": mnc, "imsi": imsi, "name": name, "gid": "".join(chr(b) for b in gid),
            "k": "".join("%02x" % b for b in k), "op": "".join("%02x" % b for b in op), "opc": "".join("%02x" % b for b in opc),
            "gtp": ".".join(str(b) for b in gtp), "sd": "".join("%02x" % b for b in sd)}
    return scn, text


def write_config(path, scn, text, extra=None):
    c = scn["cfg"]["counts"]
    kv = [("amf_ngap_ip", yaml_str(scn["cfg"]["amfIp"])), ("amf_ngap_port", scn["cfg"]["amfPort"]), ("gnb_gtp_ip", yaml_str(text["gtp"])),
          ("stg_ngap_ip", yaml_str(scn["cfg"]["stgIp"])), ("stg_ngap_port", scn["cfg"]["stgPort"]), ("initial_imsi", yaml_str(text["imsi"])),
          ("mcc", yaml_str(text["mcc"])), ("mnc", yaml_str(text["mnc"])), ("gnb_id", yaml_str(text["gid"])),
          ("gnb_bitlength", scn["cfg"]["gnbBits"]), ("gnb_name", yaml_str(text["name"])), ("k", yaml_str(text["k"])),
          ("opc", yaml_str(text["opc"])), ("op", yaml_str(text["op"])), ("sst", scn["cfg"]["sst"]), ("sd", yaml_str(text["sd"])),
          ("downlink_iface", yaml_str("lo")), ("uplink_iface", yaml_str("lo")), ("ue_number", c["reg"]),
          ("ue_registration", c["reg"]), ("ue_pdu", c["pdu"]), ("ue_service", c["svc"]), ("ue_pdu_release", c["rel"]),
          ("ue_deregistration", c["dereg"])]
    if extra:
        kv = [(k, extra.get(k, v)) for k, v in kv]
    with open(path, "w") as f:
        f.write("info:\n  version: 0.9.0\n\nconfiguration:\n")
        for k, v in kv:
            f.write("  %s: %s\n" % (k, v))


def run_online(sc, emu, name, scn, text, timeout=600, argv=("-t",), extra_cfg=None):
    """One emulator run against the TLC AMF. Returns dict(rejects, verdict, tlc, wall)."""
    d = os.path.join(sc.work, name)
    os.makedirs(d)
    write_config(os.path.join(d, "config.yaml"), scn, text, extra_cfg)
    scnp = os.path.join(d, "scenario.json")
    json.dump(scn, open(scnp, "w"))
    open(os.path.join(d, "hooks.ndjson"), "w").close()
    sock = os.path.join(d, "ctl.sock")
    logp = os.path.join(d, "pump.ndjson")
    pump = os.path.join(sc.bin, "pump")
    pp = subprocess.Popen([pump, "serve", "-sock", sock, "-dir", d, "-emu", emu, "-log", logp, "--"] + list(argv),
                          stdout=subprocess.DEVNULL, stderr=subprocess.DEVNULL)
    t0 = time.time()
    try:
        for _ in range(100):
            if os.path.exists(sock):
                break
            time.sleep(0.05)
        else:
            raise HarnessError("pump did not come up")
        sd = sc.specdir()
        cfg = vlib.cfg_text({"ScenarioPath": scnp, "SchemaPath": sc.schema, "Online": True, "PumpBin": pump, "Sock": sock,
                             "WorkDir": d, "LogPath": logp, "HooksPath": os.path.join(d, "hooks.ndjson")},
                            nxt="Next", post="Judged")
        r = vlib.run_tlc(sd, "StgOnline", cfg, name="StgOnline", timeout=timeout, heap="3g")
        shutil.rmtree(sd, ignore_errors=True)
    finally:
        try:
            subprocess.run([pump, "ctl", "-sock", sock, "quit"], capture_output=True, timeout=10)
        except Exception:
            pass
        try:
            pp.wait(timeout=5)
        except Exception:
            pp.kill()
    verdict = None
    vp = os.path.join(d, "verdict.json")
    if os.path.exists(vp):
        verdict = json.load(open(vp))
    return {"name": name, "tlc": r, "verdict": verdict, "dir": d, "wall": time.time() - t0, "scn": scn}


def prepare(sc):
    sc.build(["pump", "rec-build"])
    emu = sc.build_emulator()
    sc.schema = os.path.join(sc.work, "schema.json")
    sc.run("rec-build", ["-tier", "quick", "-out", os.path.join(sc.work, "b.ndjson"), "-schema", sc.schema])
    return emu


def run_many(sc, emu, jobs, parallel=8, timeout=900):
    """jobs: list of (name, scn, text, argv). Runs them in parallel."""
    def one(j):
        return run_online(sc, emu, j[0], j[1], j[2], timeout=timeout, argv=j[3] if len(j) > 3 else ("-t",))
    with cf.ThreadPoolExecutor(max_workers=parallel) as ex:
        return list(ex.map(one, jobs))


def stg_trace(run):
    """The run as Stg.tla sees it: scenario, one line per uplink message (projected by Amf!Abs inside TLC), exit or hang."""
    v, scn = run["verdict"], run["scn"]
    lines = [{"ev": "scenario", "counts": scn["cfg"]["counts"], "fault": {"kind": scn["fault"]["kind"], "at": scn["fault"]["at"]}}]
    for n in v["notes"]:
        lines.append({"ev": "ul", "k": n["k"], "t": n["note"], "u": n["u"], "cnt": n["cnt"], "nout": n["nout"], "bad": n["bad"]})
    res = v["result"]
    if res.get("kind") == "exit":
        lines.append({"ev": "exit", "code": res["code"], "banner": bool(res.get("banner")), "reports": v.get("reportsAbs", [])})
    else:
        lines.append({"ev": "hang"})
    return lines


def validate_stg(sc, runs, parallel=None):
    """Trace validation of every run against the abstract system specification (TraceStg.tla). Returns [(run, TlcResult)]."""
    def one(r):
        p = os.path.join(r["dir"], "stg-trace.ndjson")
        with open(p, "w") as f:
            f.write("\n".join(json.dumps(x) for x in stg_trace(r)) + "\n")
        c = r["scn"]["cfg"]["counts"]
        d = sc.specdir()
        cfg = vlib.cfg_text({"TracePath": p, "MaxCnt": max([3] + list(c.values()))}, init="TraceInit", nxt="TraceNext", post="Accepted",
                            extra='CONSTANT Faults = {"none", "close", "closeafter", "garbage"}\nCONSTRAINT HighWater')
        t = vlib.run_tlc(d, "TraceStg", cfg, timeout=600, workers=1, heap="2g")
        shutil.rmtree(d, ignore_errors=True)
        return (r, t)
    with cf.ThreadPoolExecutor(max_workers=parallel or vlib.NCPU) as ex:
        return list(ex.map(one, runs))
