#!/usr/bin/env python3
"""Shared driver library for the STGUTG verification checks.

Roles (DESIGN.md section 0): the Go harness is a dumb recorder/pump, TLC is the judge.
This library only builds things, moves files, runs TLC and turns TLC's verdicts into the
exit status / VIOLATION lines / evidence files the interface asks for.
"""
import concurrent.futures as cf
import json
import os
import re
import shutil
import subprocess
import sys
import tempfile
import time

VERIF = os.path.dirname(os.path.dirname(os.path.abspath(__file__)))
REPO = os.environ.get("VERIF_REPO", "/repo")
SPEC = os.path.join(VERIF, "spec")
HARNESS = os.path.join(VERIF, "harness")
TLA_CP = "/opt/veriftools/tla/tla2tools.jar:/opt/veriftools/tla/CommunityModules-deps.jar"
NCPU = os.cpu_count() or 4


class HarnessError(Exception):
    """Anything that is not a verdict about the code: exit status 2, never a VIOLATION."""


def log(*a):
    print(*a, flush=True)


def goenv():
    e = dict(os.environ)
    e.update(GOFLAGS="-mod=mod", GOPROXY="off", GOSUMDB="off", GOTOOLCHAIN="local", GOWORK="off")
    return e


class Scratch:
    """A scratch copy of /repo's working tree plus the harness, outside /repo and /verif."""

    def __init__(self):
        self.dir = tempfile.mkdtemp(prefix="verif-")
        self.repo = os.path.join(self.dir, "repo")
        self.harness = os.path.join(self.dir, "harness")
        self.bin = os.path.join(self.dir, "bin")
        self.work = os.path.join(self.dir, "work")
        os.makedirs(self.work)
        os.makedirs(self.bin)
        self._spec_n = 0

    def copy_repo(self):
        r = subprocess.run(["rsync", "-a", "--exclude", ".git", "--exclude", "stgutgmain", "--exclude", "*.png",
                            REPO + "/", self.repo + "/"], capture_output=True, text=True)
        if r.returncode != 0:
            raise HarnessError("rsync of /repo failed: " + r.stderr)
        if os.environ.get("VERIF_COPIED_MARK"):
            # tells bin/seedsweep.py that the working tree has been copied (nothing reads /repo after this point)
            open(os.environ["VERIF_COPIED_MARK"], "w").write("copied\n")
        shutil.copytree(HARNESS, self.harness)
        sums = set()
        for p in ["go.sum", "go.work.sum", "src/free5gclib/go.sum", "src/stgutg/go.sum", "src/tglib/go.sum"]:
            fp = os.path.join(self.repo, p)
            if os.path.exists(fp):
                sums.update(l for l in open(fp).read().splitlines() if l.strip())
        extra = os.path.join(HARNESS, "go.sum.extra")
        if os.path.exists(extra):
            sums.update(l for l in open(extra).read().splitlines() if l.strip())
        with open(os.path.join(self.harness, "go.sum"), "w") as f:
            f.write("\n".join(sorted(sums)) + "\n")

    def build(self, cmds, race=False):
        """Build harness commands (with the verif tag) from the scratch copy."""
        args = ["go", "build", "-trimpath", "-tags", "verif"]
        if race:
            args.append("-race")
        args += ["-o", self.bin + "/"] + ["./cmd/" + c for c in cmds]
        r = subprocess.run(args, cwd=self.harness, env=goenv(), capture_output=True, text=True)
        if r.returncode != 0:
            raise HarnessError("harness build failed (the tree under test may not compile with the hooks):\n" + r.stderr[-4000:])

    def build_emulator(self):
        out = os.path.join(self.bin, "stgutg-emu")
        e = dict(os.environ)
        e.pop("GOFLAGS", None)
        e.update(GOPROXY="off", GOSUMDB="off", GOTOOLCHAIN="local")
        r = subprocess.run(["go", "build", "-trimpath", "-tags", "verif", "-o", out, "."], cwd=self.repo, env=e,
                           capture_output=True, text=True)
        if r.returncode != 0:
            raise HarnessError("emulator build failed:\n" + r.stderr[-4000:])
        return out

    def run(self, cmd, args, timeout=600, env=None, check=True):
        e = dict(os.environ)
        if env:
            e.update(env)
        t0 = time.time()
        try:
            r = subprocess.run([os.path.join(self.bin, cmd)] + [str(a) for a in args], cwd=self.work, env=e,
                               capture_output=True, text=True, timeout=timeout)
        except subprocess.TimeoutExpired:
            raise HarnessError("recorder %s timed out after %ss" % (cmd, timeout))
        if check and r.returncode != 0:
            raise HarnessError("recorder %s failed (%d):\n%s" % (cmd, r.returncode, (r.stdout + r.stderr)[-4000:]))
        return r

    def specdir(self):
        """A fresh copy of the spec directory (TLC litters its working directory)."""
        self._spec_n += 1
        d = os.path.join(self.dir, "spec%d" % self._spec_n)
        os.makedirs(d)
        for f in os.listdir(SPEC):
            if f.endswith(".tla"):
                shutil.copy(os.path.join(SPEC, f), d)
        return d

    def cleanup(self):
        shutil.rmtree(self.dir, ignore_errors=True)


class TlcResult:
    def __init__(self):
        self.generated = 0
        self.distinct = 0
        self.rejects = []     # dicts: line, id, ev, why
        self.prints = []
        self.ok = False       # TLC finished without error
        self.error = ""
        self.out = ""
        self.wall = 0.0


REJ = re.compile(r'^"?REJECT line=(\d+) id=(.*?) ev=(\S+) why=(.*?)"?$')


def cfg_text(constants=None, init="Init", nxt="Next", post=None, invariants=(), spec=None, extra=""):
    lines = []
    for k, v in (constants or {}).items():
        if isinstance(v, str):
            v = json.dumps(v)
        elif isinstance(v, bool):
            v = "TRUE" if v else "FALSE"
        lines.append("CONSTANT %s = %s" % (k, v))
    if spec:
        lines.append("SPECIFICATION " + spec)
    else:
        lines += ["INIT " + init, "NEXT " + nxt]
    lines.append("CHECK_DEADLOCK FALSE")
    for i in invariants:
        lines.append("INVARIANT " + i)
    if post:
        lines.append("POSTCONDITION " + post)
    if extra:
        lines.append(extra)
    return "\n".join(lines) + "\n"


def run_tlc(specdir, module, cfg, name=None, timeout=900, workers=1, heap="3g", extra_args=(), javaopts=()):
    """Run TLC on module with the given cfg text.  Returns TlcResult."""
    name = name or module
    cfgp = os.path.join(specdir, name + ".cfg")
    with open(cfgp, "w") as f:
        f.write(cfg)
    meta = os.path.join(specdir, "meta-" + name)
    # (TLC leaves an empty tlc-<n> directory in java.io.tmpdir at every start: it goes into the scratch copy, which is removed)
    jtmp = os.path.join(specdir, "jtmp-" + name)
    os.makedirs(jtmp, exist_ok=True)
    cmd = ["java", "-Xss512m", "-Xmx" + heap, "-XX:+UseParallelGC", "-XX:ParallelGCThreads=2", "-Djava.io.tmpdir=" + jtmp] + list(javaopts) + \
          ["-cp", TLA_CP, "tlc2.TLC", "-workers", str(workers), "-metadir", meta, "-config", cfgp] + list(extra_args) + \
          [os.path.join(specdir, module + ".tla")]
    res = TlcResult()
    t0 = time.time()
    # the thorough tier and busy machines: bin/check scales every TLC time limit (a timeout is "no verdict", exit 2, never a violation)
    timeout = timeout * float(os.environ.get("VERIF_TIMEOUT_SCALE", "1"))
    try:
        r = subprocess.run(cmd, cwd=specdir, capture_output=True, text=True, timeout=timeout)
        out = r.stdout + r.stderr
        rc = r.returncode
    except subprocess.TimeoutExpired as e:
        out = (e.stdout or b"").decode(errors="replace") if isinstance(e.stdout, bytes) else (e.stdout or "")
        res.error = "TLC timed out after %ss" % timeout
        rc = -1
    res.wall = time.time() - t0
    res.out = out
    for line in out.splitlines():
        m = REJ.match(line.strip())
        if m:
            res.rejects.append({"line": int(m.group(1)), "id": m.group(2).replace('\\"', '"').strip('"'),
                                "ev": m.group(3), "why": m.group(4).replace('\\"', '"')})
        elif line.startswith('"') or line.startswith("<<"):
            res.prints.append(line)
        m = re.match(r"^(\d+) states generated, (\d+) distinct states found", line)
        if m:
            res.generated, res.distinct = int(m.group(1)), int(m.group(2))
    if rc == 0 and "Model checking completed. No error has been found." in out:
        res.ok = True
    elif not res.error:
        errs = [l for l in out.splitlines() if "rror" in l]
        detail = ""
        if "unexpected exception" in out or "evaluating" in out:
            i = out.find("The exception was")
            j = out.find("The error occurred when TLC was evaluating")
            detail = " || " + " ".join(out[i:i + 600].split()) if i >= 0 else ""
            detail += " || " + " ".join(out[j:j + 700].split()) if j >= 0 else ""
        res.error = "TLC exit %s: %s%s" % (rc, " | ".join(errs[:6]) or out[-1500:], detail)
    shutil.rmtree(meta, ignore_errors=True)
    return res


def run_apalache(specdir, module, inv, init="Init", nxt="Next", length=0, timeout=600):
    """Symbolic check with Apalache (SMT): returns (ok, output). ok = the invariant holds for all states up to the given length."""
    out = os.path.join(specdir, "apalache-out-" + module)
    cmd = ["apalache-mc", "check", "--init=" + init, "--next=" + nxt, "--inv=" + inv, "--length=%d" % length, "--out-dir=" + out,
           os.path.join(specdir, module + ".tla")]
    try:
        r = subprocess.run(cmd, cwd=specdir, capture_output=True, text=True, timeout=timeout)
    except subprocess.TimeoutExpired:
        raise HarnessError("apalache timed out on " + module)
    txt = r.stdout + r.stderr
    shutil.rmtree(out, ignore_errors=True)
    if "The outcome is: NoError" in txt and r.returncode == 0:
        return True, txt
    if "The outcome is: Error" in txt or "violat" in txt:
        return False, txt
    raise HarnessError("apalache failed on %s: %s" % (module, txt[-1500:]))


def split_lines(path, n, outdir, prefix):
    """Split an ndjson file into at most n chunks of consecutive lines. Returns [(chunkpath, first_line_index)]."""
    lines = open(path).read().splitlines()
    n = max(1, min(n, len(lines)))
    size = (len(lines) + n - 1) // n
    chunks = []
    for i in range(0, len(lines), size):
        p = os.path.join(outdir, "%s-%03d.ndjson" % (prefix, i // size))
        with open(p, "w") as f:
            f.write("\n".join(lines[i:i + size]) + "\n")
        chunks.append((p, i))
    return chunks, lines


def validate_trace(sc, module, trace_path, parallel=NCPU, timeout=900, constants=None, post="Consumed", heap="3g"):
    """Validate a stateless trace by splitting it over several TLC processes.
    Returns (list of TlcResult, rejects with absolute line numbers and the event)."""
    chunks, lines = split_lines(trace_path, parallel, sc.work, os.path.basename(trace_path))
    results = []

    def one(i):
        p, off = chunks[i]
        d = sc.specdir()
        c = dict(constants or {})
        c["TracePath"] = p
        r = run_tlc(d, module, cfg_text(c, post=post), timeout=timeout, heap=heap)
        r.offset = off
        shutil.rmtree(d, ignore_errors=True)
        return r

    with cf.ThreadPoolExecutor(max_workers=parallel) as ex:
        results = list(ex.map(one, range(len(chunks))))
    rejects = []
    for r in results:
        if not r.ok:
            raise HarnessError("trace validation did not complete for %s: %s" % (module, r.error))
        for rj in r.rejects:
            a = dict(rj)
            a["line"] = rj["line"] + r.offset
            try:
                a["event"] = json.loads(lines[a["line"] - 1])
            except Exception:
                a["event"] = None
            rejects.append(a)
    # the recorder's closing "Held" event is judged like any line but is no test case: collectors do not see it
    return results, rejects, [l for l in lines if '"ev":"Held"' not in l]


# ------------------------------------------------------------------------------------------------
# known findings, verdicts, evidence
# ------------------------------------------------------------------------------------------------
def load_known(pid):
    """known_findings.jsonl: {"property","key","what"} (open findings) or {"fixed": "..."} lines."""
    p = os.path.join(VERIF, "known_findings.jsonl")
    out = []
    if os.path.exists(p):
        for l in open(p):
            l = l.strip()
            if not l or l.startswith("#"):
                continue
            try:
                j = json.loads(l)
            except Exception:
                continue
            if j.get("property") == pid and "key" in j and not j.get("fixed"):
                out.append(j)
    return out


class Verdict:
    def __init__(self, pid, tier, seed):
        self.pid, self.tier, self.seed = pid, tier, seed
        self.t0 = time.time()
        self.violations = []   # (key, what, replay_payload)
        self.known_hits = {}
        self.states = 0
        self.transitions = 0
        self.traces = 0
        self.evaluations = 0
        self.distinct = set()
        self.samples = []
        self.rule = ""
        self.assumptions = []
        self.extra = {}
        self.exhaustive = False
        self.known = load_known(pid)

    def add_tlc(self, results):
        for r in results:
            self.states += r.distinct
            self.transitions += r.generated

    def violation(self, key, what, payload):
        for k in self.known:
            if re.fullmatch(k["key"], key):
                self.known_hits.setdefault(k["key"], [k.get("what", ""), 0])
                self.known_hits[k["key"]][1] += 1
                return
        self.violations.append((key, what, payload))

    def finish(self):
        wall = time.time() - self.t0
        if getattr(self, "only_key", None) is not None:
            hit = [x for x in self.violations if x[0] == self.only_key]
            log("replay: violation key %r %s (%d other violation(s) in this run)" % (self.only_key, "REPRODUCED" if hit else "not reproduced", len(self.violations) - len(hit)))
            for (key, what, payload) in hit[:1]:
                log("VIOLATION property=%s replay=%s" % (self.pid, getattr(self, "replay_path", "(replayed)")))
                log("  key=%s what=%s" % (key, what[:400]))
            return 1 if hit else 0
        for k, (what, n) in self.known_hits.items():
            log("KNOWN-FINDING: property=%s %s [%s, %d case(s) this run]" % (self.pid, what, k, n))
        rdir = os.path.join(VERIF, "replays", self.pid)
        nviol = len(self.violations)
        seen = {}
        shown = 0
        for i, (key, what, payload) in enumerate(self.violations):
            seen[key] = seen.get(key, 0) + 1
            if seen[key] > 2 or shown >= 12:
                continue
            shown += 1
            os.makedirs(rdir, exist_ok=True)
            p = os.path.join(rdir, "seed%d-%s-%03d.json" % (self.seed, self.tier, i))
            with open(p, "w") as f:
                json.dump({"property": self.pid, "key": key, "what": what, "seed": self.seed, "tier": self.tier,
                           "case": payload}, f, indent=1, default=str)
            log("VIOLATION property=%s replay=%s" % (self.pid, p))
            log("  key=%s what=%s" % (key, what[:400]))
        if nviol:
            os.makedirs(rdir, exist_ok=True)
            with open(os.path.join(rdir, "all-seed%d-%s.json" % (self.seed, self.tier)), "w") as f:
                json.dump([{"key": k, "what": w, "case": c} for (k, w, c) in self.violations], f, default=str)
        if nviol > shown:
            log("  ... %d violations in all, by key: %s" % (nviol, json.dumps(seen)))
        cov = {"states": max(self.states, 0), "transitions": max(self.transitions, 0),
               "traces_validated_against_impl": self.traces,
               "evaluations": self.evaluations, "distinct_nontrivial": len(self.distinct),
               "rule": self.rule, "samples": self.samples[:5], "exhaustive": self.exhaustive}
        cov.update(self.extra)
        ev = {"property_id": self.pid, "tier": self.tier, "seed": self.seed, "level": getattr(self, "level_override", "model_checking"),
              "coverage": cov, "assumptions": self.assumptions, "wall_s": round(wall, 2), "violations": nviol}
        os.makedirs(os.path.join(VERIF, "evidence"), exist_ok=True)
        with open(os.path.join(VERIF, "evidence", self.pid + ".json"), "w") as f:
            json.dump(ev, f, indent=1, default=str)
        log("%s tier=%s seed=%d: %d evaluations, %d distinct non-trivial, %d states, %d traces, %d violation(s), %.1fs"
            % (self.pid, self.tier, self.seed, self.evaluations, len(self.distinct), self.states, self.traces, nviol, wall))
        return 1 if nviol else 0


def canon(x):
    return json.dumps(x, sort_keys=True, separators=(",", ":"))
