#!/usr/bin/env python3
"""Debug helper: first differences between two value trees (JSON)."""
import json, sys
def diff(a, b, path, out):
    if len(out) > 10: return
    if type(a) != type(b): out.append((path, a, b)); return
    if isinstance(a, dict):
        for k in sorted(set(a) | set(b)):
            if k not in a or k not in b: out.append((path + "." + k, a.get(k), b.get(k)))
            else: diff(a[k], b[k], path + "." + k, out)
    elif isinstance(a, list):
        if len(a) != len(b): out.append((path + ".len", len(a), len(b)))
        for i, (x, y) in enumerate(zip(a, b)): diff(x, y, "%s[%d]" % (path, i), out)
    elif a != b: out.append((path, a, b))
if __name__ == "__main__":
    e = json.loads(sys.stdin.readline())
    out = []
    diff(e["tree"], e["dec"].get("tree") if "dec" in e else e["obs"]["tree"], "", out)
    for p, a, b in out: print(p, "|", json.dumps(a)[:200], "|", json.dumps(b)[:200])
