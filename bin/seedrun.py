#!/usr/bin/env python3
"""For each sub-agent output directory (/tmp/wt/<id>-out/<X>): confirm the change in a scratch worktree (seedconfirm), keep it under
/verif/seeded/<id>-<X>/ and run the related checks against it by applying it to /repo and undoing it straight afterwards (seedtest).
usage: seedrun.py [--recheck] [<id>-<X> | <id> ...]"""
import glob
import json
import os
import shutil
import subprocess
import sys

HERE = os.path.dirname(os.path.abspath(__file__))
VERIF = os.path.dirname(HERE)
REL = {"C01": ["C01", "C11", "C16", "C03", "C13"], "C02": ["C02", "C12", "C13"], "C03": ["C03", "C04", "C13"], "C04": ["C04", "C03"],
       "C05": ["C05", "C01"], "C06": ["C06", "C07"], "C07": ["C07", "C06", "C20"], "C08": ["C08", "C09"], "C09": ["C09", "C08"],
       "C10": ["C10", "C06"], "C11": ["C11", "C01", "C02"], "C12": ["C12", "C02"], "C13": ["C13", "C03"], "C14": ["C14", "C04"],
       "C15": ["C15"], "C16": ["C16", "C02", "C18"], "C17": ["C17"], "C18": ["C18", "C16"], "C19": ["C19"], "C20": ["C20"]}
args = [a for a in sys.argv[1:] if not a.startswith("--")]
recheck = "--recheck" in sys.argv
done = set()
for d in sorted(glob.glob("/tmp/wt/*-out/*")) + sorted(glob.glob("/tmp/wt/*-out2/*")) + sorted(glob.glob("/tmp/wt/*-out3/*")) + sorted(glob.glob("/tmp/wt/*-out4/*")) + sorted(glob.glob("/tmp/wt/*-out5/*")) + sorted(glob.glob("/tmp/wt/*-out6/*")) + sorted(glob.glob("/tmp/wt/*-out7/*")) + sorted(glob.glob(os.path.join(VERIF, "seeded", "*"))):
    if not os.path.isfile(os.path.join(d, "patch.diff")):
        continue
    if d.startswith("/tmp/wt/"):
        pid = os.path.basename(os.path.dirname(d))[:3]
        tag = pid + "-" + os.path.basename(d)
    else:
        tag = os.path.basename(d)
        pid = tag[:3]
    if args and pid not in args and tag not in args:
        continue
    if tag in done:
        continue
    done.add(tag)
    keep = os.path.join(VERIF, "seeded", tag)
    metap = os.path.join(keep, "meta.json")
    if os.path.exists(metap) and not d.startswith(keep):
        if "checks" in json.load(open(metap)) and not recheck:
            continue
    if d.startswith(keep) and "checks" in json.load(open(metap)) and not recheck:
        continue
    r = subprocess.run([sys.executable, os.path.join(HERE, "seedconfirm.py"), d], capture_output=True, text=True)
    try:
        conf = json.loads([l for l in r.stdout.splitlines() if l.startswith("{")][-1])
    except Exception:
        conf = {"confirmed": False, "error": (r.stdout + r.stderr)[-500:]}
    if not conf.get("confirmed"):
        print(tag, "NOT CONFIRMED", json.dumps({k: v for k, v in conf.items() if k != "patched_out"})[:600], flush=True)
        continue
    if not d.startswith(keep):
        shutil.rmtree(keep, ignore_errors=True)
        os.makedirs(keep)
        shutil.copy(os.path.join(d, "patch.diff"), keep)
        shutil.copytree(os.path.join(d, "demo"), os.path.join(keep, "demo"))
    meta = {}
    src = os.path.join(d, "meta.json")
    if os.path.exists(src):
        meta = json.load(open(src))
    meta["property"] = pid
    meta["confirmed"] = {k: conf[k] for k in ("demo_passes_at_head", "applies", "builds", "suite_passes", "demo_fails_with_patch")}
    meta["confirmed"]["how"] = "bin/seedconfirm.py in a scratch worktree of /repo: HEAD+demo passes; HEAD+patch builds (with and without -tags verif), the 93 pinned tests pass, the demo fails"
    meta["demo_failure_excerpt"] = conf.get("patched_out", "")[-400:]
    if "--confirm-only" in sys.argv:
        old = json.load(open(metap)) if os.path.exists(metap) else {}
        for k in ("checks", "caught_by", "ran", "sweep"):
            if k in old:
                meta[k] = old[k]
        json.dump(meta, open(metap, "w"), indent=1)
        print(tag, "confirmed", flush=True)
        continue
    p = subprocess.run([sys.executable, os.path.join(HERE, "seedtest.py"), os.path.join(keep, "patch.diff")] + REL[pid], capture_output=True, text=True)
    out = p.stdout
    checks = {}
    for l in out.splitlines():
        if l.startswith("== "):
            w = l.split()
            checks[w[1]] = {"exit": int(w[2].split("=")[1]), "lines": []}
            cur = w[1]
        elif l.startswith("    ") and checks:
            checks[cur]["lines"].append(l.strip()[:300])
    meta["checks"] = checks
    meta["caught_by"] = [c for c, x in checks.items() if x["exit"] == 1]
    meta["ran"] = "git -C /repo apply patch.diff; bin/check <id> --tier quick for " + ", ".join(REL[pid]) + "; git -C /repo checkout -- ."
    json.dump(meta, open(metap, "w"), indent=1)
    print(tag, "caught by", meta["caught_by"], "errors", [c for c, x in checks.items() if x["exit"] == 2], flush=True)
