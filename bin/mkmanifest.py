#!/usr/bin/env python3
"""Regenerate MANIFEST.json from the table below (keeps it schema-valid at all times)."""
import json, os, subprocess
V = os.path.dirname(os.path.dirname(os.path.abspath(__file__)))
TRUST = "Trusted: TLC/SANY/CommunityModules, the TLA+ transcriptions of the standards (self-tested against published vectors in setup), the Go recorders (dumb loggers) and the python driver."
CHECKS = {
 "C05": ("TLA+ trace validation with TLC: Milenage + TS 33.501 KDF chain evaluated in TLA+ as oracle",
         "Every recorded call of the UE-side derivation is explained by Milenage!Aka (TS 35.206, TS 33.501 A.2/A.4/A.6/A.7/A.8, TS 33.220 B.2, HMAC-SHA-256 and AES written in TLA+ and evaluated by TLC) over the full structural grid."),
 "C07": ("TLA+ trace validation with TLC: SNOW 3G state machine / AES / CMAC in TLA+ as oracle",
         "Every recorded call of the NAS encrypt/MAC entry points is validated by TLC against an executable TLA+ transcription of 128-NEA1/2 and 128-NIA1/2 (SNOW 3G as an explicit LFSR/FSM state machine, AES, CMAC); S-boxes and MULalpha/DIValpha exhaustively against their algebraic definitions."),
 "C15": ("TLA+ trace validation with TLC: TS 35.206 + USIM acceptance rule in TLA+",
         "f1..f5*, OPc, AUTN generation, and the accept/resync/reject verdict of every single-bit and single-octet corruption are judged by TLC against Milenage.tla (UsimCheck / AutsCheck)."),
 "C06": ("TLA+ model checking (MCNasSec, exhaustive) + trace validation of recorded uplink histories with TLC",
         "NasSec.tla (COUNT, envelope, receiver estimate) is model-checked exhaustively with symbolic crypto and small counter widths (NthCount, CountFresh, receiver recovers, both wraps); recorded histories of the real protection entry point (all algorithm pairs, header types, resets, wraps at 2^8/2^16/2^24) must each be a NasSec!Protect step with the real algorithms, and a conformant receiver in the spec must verify and recover every message."),
 "C10": ("TLC-generated downlink histories (spec AMF) replayed into the real code, then trace validation with TLC",
         "The specification's AMF (GenNasDl: NasSec!Protect, DIRECTION=downlink) generates protected downlink histories with skips, wraps and new-context resets; they are replayed through tglib.NASDecode and every step must be NasSec!Unprotect: same plain message, COUNT estimate equal to the AMF's COUNT."),
 "C03": ("TLA+ trace validation with TLC: X.691 ALIGNED PER encoder written in TLA+ (Per.tla) as oracle over typed value trees",
         "Every value (all 78 NGAP message types, 24 transfer containers, exhaustive small primitive schemas at several bit offsets) that the real encoder handles is exported as a typed tree with its constraints; TLC evaluates Per!PerEncode on it and demands byte equality, and demands refusal for values violating their constraints."),
 "C04": ("TLA+ trace validation with TLC: decoded tree = encoded tree, re-encode = reference bytes (Per.tla)",
         "For the same generated values the real decoder's output tree must equal the encoded tree and the re-encoding must equal the bytes, which TLC has shown equal to the independent X.691 encoder's output (Per!PerEncode), so every such case is also a canonical encoding from an independent encoder."),
 "C13": ("TLA+ trace validation with TLC: builder output decoded by the spec's X.691 decoder (Per!PerDecode) and judged against TS 38.413 tables in Ngap.tla",
         "Every builder's bytes are decoded inside TLC with an independent PER decoder and must be the TS 38.413 message (class, procedure code, criticality, clause 9.2 IE table for the emulator's messages) carrying exactly the recorded arguments; out-of-range identifiers must be refused; 303/303 single-argument corruptions of a recorded trace are rejected."),
 "C01": ("TLC runs the specification's AMF online against the real emulator process (StgOnline.tla: IOExec byte pump); exhaustive TLC model checking of the abstract system spec (Stg.tla)",
         "The unmodified main() registers its UEs against the AMF of the specification executed by TLC: every uplink message is decoded (Per/Ngap/Nas24501 in TLA+) and judged by Amf!AmfHandle (TS 38.413 tables, identifiers, SUCI/PLMN, RES* = XRES* from Milenage/KDF in TLA+, header types, MAC under the network's keys, COUNT = previous + 1), downlink messages are built and protected by the spec; exit status and banner judged at the end."),
 "C02": ("TLC runs the specification's AMF/SMF online against the real emulator process for complete test-mode runs; exhaustive TLC model checking of the abstract system spec (Stg.tla)",
         "As C01 for all five loops and several UEs: PDU session identity consistency across 5GSM header / NAS transport IE / NGAP response, prerequisites (session and registration state machine of the AMF), COUNT per UE, GTP address of the response transfer, reported (UE IP, TEID, UPF) = assigned (hook H2), procedure counts = the Min() clamps of the main program."),
 "C19": ("fault enumeration driven by the TLA+ spec: TLC-as-AMF injects close/garbage at every downlink index of real emulator runs; exhaustive TLC model checking of Stg.tla with both fault kinds (FailStopSafe, Terminates)",
         "For every downlink message index of a complete test-mode conversation the specification's AMF closes the association instead of answering, and for every consumed answer it sends bytes Per!PerDecode rejects; TLC judges that the real process exits non-zero in bounded time, prints no banner and reports no session it did not obtain; the abstract model is checked exhaustively for the same properties incl. liveness."),
 "C11": ("TLA+ trace validation with TLC: SUCI / PLMN encodings judged by Identity.tla (independent decoder + encoder), exhaustive over all 1.1 M PLMNs in the thorough tier",
         "Every (MCC, MNC) pair is pushed through the emulator's SUCI encoder and the library's PLMN conversion; Identity!SuciDecode must recover MCC/MNC/MSIN, the octets must equal Identity!SuciEncode / PlmnOctets, and the PLMN on the wire (NG Setup, user location) is decoded with the spec's PER decoder."),
 "C16": ("TLA+ trace validation with TLC: set-level invariants of UePop.tla over recorded CreateUE populations up to 10 000 UEs; exhaustive TLC check of the digit arithmetic (MCUePop)",
         "Populations created exactly as the UE loops do are judged by UePop.tla: SUPI_i = IMSI + i with the same digits, pairwise distinct, inside the PLMN; RAN-UE-NGAP-IDs pairwise distinct; configured K/OP/OPc; capability bits exactly the algorithms used. On the wire the same is seen by the TLC AMF in C01/C02 (SUCI of UE u)."),
 "C17": ("TLA+ trace validation with TLC: 3GPP encodings and inverse pairs transcribed in TraceConvert.tla (PCO parser as an explicit state machine)",
         "S-NSSAI, AMF-ID split, transport layer addresses (IPv4/IPv6/dual, both directions) and protocol configuration options (marshal + parse back) are judged against the TLA+ transcriptions; PLMN conversion with C11."),
 "C12": ("TLC-generated well-formed setup requests (GenExtract: spec SMF + Per.tla) replayed into the real extractors and judged by TLC; TLC liveness model checking of the extraction walk (PduExtract.tla) with leads replayed under a watchdog",
         "The specification's SMF builds Accepts (optional IE subsets in table order, QoS rule lengths 0..4000) inside protected DL NAS TRANSPORT and PER-encodes setup request transfers; the real extractors must return exactly the address/TEID/UPF the generator put in. Termination: the walk is transcribed as a TLA+ state machine and model-checked for termination over all octet-class strings up to length 4; every class string up to length 3|4 and random inputs up to 4 KiB are run through the real functions under a 2 s watchdog."),
 "C14": ("fault enumeration generated by a TLA+ fault model (PerFault.tla: truncate / flip-bit / set-octet / max-count / insert / delete actions over valid encodings), replayed into the real decoder under a watchdog, outcomes judged by TLC (Totality.tla)",
         "TLC derives the faulty inputs from valid encodings of every message type with the actions of PerFault.tla; the real ngap.Decoder runs each under a 3 s watchdog with wall time and allocation measured; Totality.tla demands outcome in {value, error} within 200 ms and 64 MiB. Seeded random strings, multi-byte corruptions and splices are added on the Go side."),
 "C18": ("TLA+ trace validation with TLC (TraceConfig.tla: 24-key identity, Cli!Mode) plus TLC-as-AMF online runs for the on-the-wire part",
         "Generated assignments of the 24 documented keys go through the real YAML loader and are compared key by key in TLC; argument vectors of length 0..3 are run against the real binary and judged by Cli!Mode (banner, usage, N2 traffic); complete runs with random configurations are judged on the wire by the specification's AMF (every configured value that reaches the N2 interface, and the ConnectToAmf arguments via hook H1)."),
 "C20": ("TLC enumerates every interleaving of the gate-point segments (Conc.tla: atomic spec vs shared / locked / local implementation models); schedules replayed into the real code through gate hooks; stress under the race detector judged by TLC (TraceConc)",
         "Conc.tla is model-checked (the shared-state model violates ResultsSequential, the locked and local ones satisfy it); every interleaving TLC enumerates is replayed deterministically through hook H4 with each result compared to the same call executed alone (and to NasAlg); free-running stress over all codec / security families with 2, 8, 64 goroutines under -race; any race report is an event the trace spec rejects."),
 "C08": ("TLC-generated encodings from the TS 24.501 tables (Nas24501.tla: canonical and permuted IE order) replayed into the library codec; decoded content, re-encoding and decode(encode(m)) judged by TLC (TraceNas)",
         "For every message type TLC's table-driven encoder produces byte strings for optional-IE subsets, IE lengths at the capacity limits and permuted IE order; the library must decode them to the same abstract content, re-encode the canonical octets, be stable under decode(encode(m)), and report unknown message types as errors."),
 "C09": ("TLA+ transcription of the TS 24.501 clause 8.2/8.3 tables (Nas24501.tla) as independent encoder and parser; trace validation with TLC",
         "The library must decode the standard's encoding of each of the 44 message types (message type octet, mandatory order/widths, IEI, format and length width of every optional IE) to the intended values; the plain messages the emulator's constructors build are parsed by the independent parser Nas24501!NasDecode to the intended field values; the downlink messages of the TLC AMF (C01/C02) are built by the same tables and consumed by the real emulator."),
}
NA = {}
def main():
    hooks = subprocess.run(["git", "-C", "/repo", "log", "--format=%h", "--grep=verif hook"], capture_output=True, text=True).stdout.split()
    m = {"version": 1, "setup_cmd": "bin/setup",
         "hooks": {"guard": "verif", "enable": "go build -tags verif (every check builds a scratch copy of /repo's working tree with the tag on)",
                   "baseline_off_cmd": "cd /repo/src/free5gclib && env -u GOFLAGS go test -vet=off -count=1 ./...",
                   "source_commits": hooks, "add_only": True},
         "engines": [{"name": "tlc", "path": "bin/check", "serves_properties": sorted(CHECKS),
                      "kind_free_text": "explicit TLA+ specification (spec/*.tla) checked and evaluated by TLC; bound to the code by trace validation (Go recorders log real-code calls; trace specs must explain every line) and by replay of TLC-generated cases"}],
         "checks": [], "not_applicable": [{"property_id": k, "reason": v} for k, v in sorted(NA.items())],
         "notes": "See DESIGN.md. known_findings.jsonl lists recorded findings and fixed defects."}
    allp = [json.loads(l)["id"] for l in open(os.path.join(V, "properties.jsonl"))]
    for pid in allp:
        if pid not in CHECKS and pid not in NA:
            m["not_applicable"].append({"property_id": pid, "reason": "check under construction in this session (planned in DESIGN.md section 5); not claimed until it runs green"})
    for pid in sorted(CHECKS):
        tech, text = CHECKS[pid]
        m["checks"].append({"property_id": pid, "quick_cmd": "bin/check %s --tier quick" % pid,
                            "thorough_cmd": "bin/check %s --tier thorough" % pid,
                            "evidence_file": "evidence/%s.json" % pid,
                            "replay_cmd_template": "bin/check %s --replay {path}" % pid, "engine": "tlc",
                            "level_claimed": {"category": "fault_enumeration" if pid == "C14" else "model_checking", "text": text, "design_ref": "DESIGN.md section 5, " + pid},
                            "level_note": TRUST, "technique": tech})
    json.dump(m, open(os.path.join(V, "MANIFEST.json"), "w"), indent=1)
if __name__ == "__main__":
    main()
