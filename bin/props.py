"""Per-property checks.  Each function records real-code behaviour with a Go recorder and lets TLC
judge it against the TLA+ specification (or lets TLC generate cases that are replayed)."""
import json
import os

import vlib
from vlib import HarnessError, canon


def _reject_to_violation(v, rejects, keyfn):
    for r in rejects:
        e = r.get("event") or {}
        if e.get("ev") == "Held":
            v.violation("Held:" + ",".join(e.get("changed", []))[:70], r["why"], {"event": e, "why": r["why"], "line": r["line"]})
            continue
        v.violation(keyfn(r, e), r["why"], {"event": e, "why": r["why"], "line": r["line"]})


# ------------------------------------------------------------------------------------------------
# C07  NEA/NIA are the 3GPP algorithms
# ------------------------------------------------------------------------------------------------
def check_C07(sc, v, tier, seed, replay):
    sc.build(["rec-crypto"])
    trace = os.path.join(sc.work, "crypto.ndjson")
    sc.run("rec-crypto", ["-seed", seed, "-tier", tier, "-out", trace])
    results, rejects, lines = vlib.validate_trace(sc, "TraceCrypto", trace)
    v.add_tlc(results)
    v.traces = len(results)
    evs = [json.loads(l) for l in lines]
    v.evaluations = len(evs)
    for e in evs:
        if e["ev"] in ("Enc", "Mac") and len(e["in"]) > 0:
            v.distinct.add(canon([e["ev"], e["alg"], e["key"], e["count"], e["bearer"], e["dir"], e["in"]]))
    v.samples = [e for e in evs if e["ev"] in ("Enc", "Mac")][:3]
    v.rule = ("seeded grid: algorithm x message length 1..N (every residue mod 4/8/16) x BEARER x DIRECTION x COUNT corners x "
              "random/corner keys, shuffled with repeats; long messages for all four algorithms (2048, 4112 and 8208 octets: more than 256 / 2000 keystream "
              "words and 2^16 bits; thorough: up to 65552 octets); SNOW 3G tables exhaustively; distinct = distinct argument tuple, "
              "non-trivial = non-empty message")
    v.assumptions = ["TLA+ transcriptions of AES/CMAC/SNOW 3G/f8/f9 (SelfTest vectors: FIPS-197, RFC 4493, SNOW 3G test set 1)"]

    def key(r, e):
        if e.get("ev") in ("Enc", "Mac"):
            return "%s:alg%d:len%%4=%d" % (e["ev"], e["alg"], len(e["in"]) % 4)
        return str(e.get("ev"))
    _reject_to_violation(v, rejects, key)


def _stateless(sc, v, rec, module, trace_name, seed, tier, extra_args=(), timeout=1200):
    sc.build([rec])
    trace = os.path.join(sc.work, trace_name)
    sc.run(rec, ["-seed", seed, "-tier", tier, "-out", trace] + list(extra_args))
    results, rejects, lines = vlib.validate_trace(sc, module, trace, timeout=timeout)
    v.add_tlc(results)
    v.traces += len(results)
    evs = [json.loads(l) for l in lines]
    v.evaluations += len(evs)
    return evs, rejects


# ------------------------------------------------------------------------------------------------
# C15  Milenage library and AUTN acceptance
# ------------------------------------------------------------------------------------------------
def check_C15(sc, v, tier, seed, replay):
    evs, rejects = _stateless(sc, v, "rec-milenage", "TraceMilenage", "milenage.ndjson", seed, tier)
    for e in evs:
        d = dict(e)
        d.pop("id", None)
        v.distinct.add(canon(d))
    v.samples = [e for e in evs if e["ev"] == "Check"][:2] + [e for e in evs if e["ev"] == "F"][:1]
    v.rule = ("base vectors (TS 35.207 set 1 inputs + seeded random/corner K, OP, RAND, AMF, SQN) x UE SQN {equal, +-1, differing only "
              "in octet i (i=0..5), random, zero} x every single-bit and single-octet corruption of AUTN (fresh and stale UE SQN) "
              "and of AUTS; distinct = distinct event, all non-trivial")
    v.assumptions = ["TLA+ transcription of TS 35.206 (SelfTest: TS 35.207 test set 1)",
                     "a check with wrong MAC-A and stale SQN may answer -1 or -2 (the property does not fix the order of the two tests)"]

    def key(r, e):
        return "%s:%s:ret=%s" % (e.get("ev"), e.get("cls", ""), e.get("ret", ""))
    _reject_to_violation(v, rejects, key)


# ------------------------------------------------------------------------------------------------
# C05  5G-AKA key hierarchy
# ------------------------------------------------------------------------------------------------
def check_C05(sc, v, tier, seed, replay):
    evs, rejects = _stateless(sc, v, "rec-aka", "TraceAka", "aka.ndjson", seed, tier)
    for e in evs:
        v.distinct.add(canon([e[k] for k in ("k", "op", "opc", "rand", "autn", "mcc", "mnc", "supi", "enc", "int")]))
    v.samples = evs[:2]
    v.extra["classes_covered"] = len(set((len(e["mnc"]), len(e["supi"]), e["enc"], e["int"], len(e["opc"]) == 0) for e in evs))
    v.rule = ("structural grid MNC length 2|3 x SUPI length 5..15 x ciphering id 0..3 x integrity id 0..3 x {OP only, OPc} (704 classes; "
              "quick: 64 classes covering every value of every factor, thorough: all) with seeded random / all-zero / all-one K, OP, RAND, "
              "SQN xor AK; every third subscriber re-authenticates twice on the same UE context with a fresh challenge (the keys of a round must not "
              "depend on the previous one); subscribers sharing an OP with different K; distinct = distinct input tuple, all non-trivial")
    v.assumptions = ["TLA+ transcriptions of Milenage, HMAC-SHA-256, TS 33.220 KDF (SelfTest: TS 35.207 set 1, FIPS 180 'abc', RFC 4231 #1)",
                     "serving network name as built by the caller (5G:mnc<3 digits>.mcc<mcc>.3gppnetwork.org)"]

    def key(r, e):
        return "Derive:%s:%s" % (e.get("cls", ""), r["why"].split(" differs")[0])
    _reject_to_violation(v, rejects, key)
    # the serving network name is put together by the registration procedure itself (stgutg.RegisterUE), outside the derivation entry
    # point: complete registrations of the real process, judged by the specification's AMF (RES* = XRES*, MACs under the keys the
    # network derives from the configured MCC/MNC), for PLMNs whose digits punish a name built from numbers or from swapped arguments
    import random
    import online
    emu = online.prepare(sc)
    rnd = random.Random(seed * 1031 + 5)
    plmns = [("310", "260"), ("262", "08"), ("722", "070")] if tier == "quick" else \
            [("310", "260"), ("262", "08"), ("722", "070"), ("208", "09"), ("405", "025"), ("001", "012"), ("999", "99"), ("440", "100")]
    jobs = []
    for i, (mcc, mnc) in enumerate(plmns):
        scn, text = online.make_scenario(rnd, {"reg": 1, "pdu": 0, "svc": 0, "rel": 0, "dereg": 0},
                                         opts={"det": i, "mcc": mcc, "mnc": mnc, "use_opc": i % 2 == 0, "imsi_len": [15, 14, 13][i % 3]})
        jobs.append(("aka%02d" % i, scn, text))
    runs = online.run_many(sc, emu, jobs, parallel=8)
    _online_collect(v, runs, "C05", sc)


def _count_lemmas(sc, v):
    """the NAS COUNT arithmetic at its real widths, for all 2^24 counter values x 256 gaps, discharged symbolically by Apalache"""
    d = sc.specdir()
    ok, txt = vlib.run_apalache(d, "NasCountLemma", "Lemmas")
    if not ok:
        raise HarnessError("NasCountLemma: the specification's own COUNT arithmetic violates its lemmas:\n" + txt[-1500:])
    v.extra["apalache_NasCountLemma"] = "EstimateExact, EstimateFailsBeyond, AddOneIsSuccessor, FieldsRoundTrip hold for all 2^24 x 256 (COUNT, gap) pairs (SMT)"


def _clamp_lemmas(sc, v):
    """the repetition-count clamps of the test-mode main program (Stg!Limit) for all counts, discharged symbolically by Apalache"""
    d = sc.specdir()
    ok, txt = vlib.run_apalache(d, "StgClampLemma", "Lemmas")
    if not ok:
        raise HarnessError("StgClampLemma: the specification's own clamps violate their lemmas:\n" + txt[-1500:])
    v.extra["apalache_StgClampLemma"] = "PrereqForAllCounts, NothingDropped hold for all repetition counts (SMT over unbounded integers)"


def _group_chunks(path, outdir, prefix, nchunks, start_ev="Start"):
    """Split a trace of several histories (each beginning with a Start event) into chunk files of whole histories."""
    hists, cur, curh = [], [], None
    for l in open(path).read().splitlines():
        e = json.loads(l)
        # a history may begin with several Start events (one per UE context of that history)
        if e["ev"] == start_ev and cur and (e.get("hist") != curh or "hist" not in e):
            hists.append(cur)
            cur = []
        curh = e.get("hist", curh)
        cur.append(l)
    if cur:
        hists.append(cur)
    hists.sort(key=len, reverse=True)
    n = max(1, min(nchunks, len(hists)))
    bins = [[] for _ in range(n)]
    for h in hists:
        min(bins, key=lambda b: sum(len(x) for x in b)).append(h)
    out = []
    for i, b in enumerate(bins):
        p = os.path.join(outdir, "%s-%03d.ndjson" % (prefix, i))
        lines = [l for h in b for l in h]
        open(p, "w").write("\n".join(lines) + "\n")
        out.append((p, lines))
    return out


def _validate_chunks(sc, v, module, chunks, timeout=1500):
    import concurrent.futures as cf
    import shutil

    def one(c):
        d = sc.specdir()
        r = vlib.run_tlc(d, module, vlib.cfg_text({"TracePath": c[0]}, post="Consumed"), timeout=timeout)
        shutil.rmtree(d, ignore_errors=True)
        return r
    with cf.ThreadPoolExecutor(max_workers=vlib.NCPU) as ex:
        results = list(ex.map(one, chunks))
    rejects = []
    for r, c in zip(results, chunks):
        if not r.ok:
            raise HarnessError("trace validation did not complete for %s: %s" % (module, r.error))
        for rj in r.rejects:
            a = dict(rj)
            a["event"] = json.loads(c[1][rj["line"] - 1])
            rejects.append(a)
    v.add_tlc(results)
    v.traces += sum(1 for c in chunks for l in c[1] if '"ev":"Start"' in l)
    return rejects


# ------------------------------------------------------------------------------------------------
# C06  uplink NAS protection over histories
# ------------------------------------------------------------------------------------------------
def check_C06(sc, v, tier, seed, replay):
    # (1) design level: exhaustive model checking of the envelope with small counter widths
    d = sc.specdir()
    cfg = open(os.path.join(vlib.SPEC, "MCNasSec.cfg")).read()
    r = vlib.run_tlc(d, "MCNasSec", cfg, timeout=900, workers=vlib.NCPU, heap="8g")
    if not r.ok:
        raise HarnessError("MCNasSec: the specification itself violates its invariants or TLC failed: " + r.error)
    v.add_tlc([r])
    v.extra["mc_nassec_distinct_states"] = r.distinct
    _count_lemmas(sc, v)
    # (2) binding: recorded uplink histories
    sc.build(["rec-nassec"])
    trace = os.path.join(sc.work, "nassec.ndjson")
    sc.run("rec-nassec", ["-seed", seed, "-tier", tier, "-out", trace])
    chunks = _group_chunks(trace, sc.work, "nassec", vlib.NCPU)
    rejects = _validate_chunks(sc, v, "TraceNasSec", chunks)
    # (3) binding of the counter type itself (security.Count): every overflow value (thorough) x boundary sequence numbers, full rows sampled
    ctrace = os.path.join(sc.work, "counts.ndjson")
    sc.run("rec-nassec", ["-counts", "-seed", seed, "-tier", tier, "-out", ctrace])
    cres, crej, clines = vlib.validate_trace(sc, "TraceNasSec", ctrace)
    v.add_tlc(cres)
    cevs = [json.loads(l) for l in clines]
    v.extra["counter_values_checked"] = sum(len(e["sqns"]) for e in cevs)
    v.evaluations += v.extra["counter_values_checked"]
    for e in cevs:
        v.distinct.add(canon(["count", e["ovf"], len(e["sqns"])]))
    _reject_to_violation(v, crej, lambda r, e: "Count:ovf%d" % (e.get("ovf", -1) >> 8))
    evs = [json.loads(l) for c in chunks for l in c[1]]
    encs = [e for e in evs if e["ev"] == "Enc"]
    v.evaluations += len(encs)
    for e in encs:
        v.distinct.add(canon([e["hist"], e["step"]]))
    v.samples = encs[:2]
    v.rule = ("seeded send histories through the real protection entry point: algorithm pairs {NIA1,NIA2}x{NEA0,NEA1,NEA2}, start COUNTs 0 / "
              "near the sequence-number wrap / near 2^16 / 2^24-5, new-context resets at chosen positions, header types 1..4, "
              "no-context sends interleaved, plain messages from the real 5GMM/5GSM constructors; the counter type security.Count over all 65536 overflow "
              "values (quick: 417) x boundary sequence numbers (full rows of 256 sampled): Set/Get/SQN/Overflow/AddOne/SetSQN/SetOverflow; "
              "distinct = (history, step) or counter row")
    v.assumptions = ["NasSec.tla is the TS 24.501 4.4.3-4.4.5 envelope; MCNasSec checks it exhaustively for small widths",
                     "NasAlg.tla as in C07"]

    def key(r, e):
        return "Enc:hdr%s:enc%s:%s" % (e.get("hdr"), _alg_of(evs, e), r["why"].split(":")[0][:60])
    _reject_to_violation(v, rejects, key)


def _alg_of(evs, e):
    for s in evs:
        if s["ev"] == "Start" and s["hist"] == e.get("hist"):
            return "%d/int%d" % (s["enc"], s["int"])
    return "?"


# ------------------------------------------------------------------------------------------------
# C10  downlink NAS recovered exactly (generate -> replay -> validate)
# ------------------------------------------------------------------------------------------------
def check_C10(sc, v, tier, seed, replay):
    import concurrent.futures as cf
    import random
    import shutil
    rnd = random.Random(seed * 7919 + 10)
    _count_lemmas(sc, v)
    sc.build(["rec-nassec"])
    r = sc.run("rec-nassec", ["dlmsgs", seed, 60])
    msgs = json.loads(r.stdout.strip().splitlines()[-1])
    longs, msgs = msgs[:7], msgs[7:]
    pairs = [(0, 2), (1, 2), (2, 2), (0, 1), (1, 1), (2, 1)]
    W = (1 << 24) - 6
    # (algorithm pair, start COUNT) fixed per history: every ciphering algorithm crosses 2^24, 2^16 and 2^8 under both integrity
    # algorithms' histories in every seed
    plan = [((0, 2), 0), ((1, 2), W), ((2, 2), W), ((0, 1), 65530), ((1, 1), W), ((2, 1), W), ((1, 2), 250), ((2, 2), 65530),
            ((1, 1), 0), ((2, 1), 250), ((0, 2), W), ((2, 2), rnd.randrange(1 << 24))]
    nh, steps = (12, 24) if tier == "quick" else (48, 400)
    lines, idn = [], 0
    for h in range(nh):
        (enc, integ), dl0 = plan[h % 12]
        if h >= 12:
            enc, integ = pairs[(h + seed) % 6]
            dl0 = rnd.choice([0, 0, 250, 65530, W, rnd.randrange(1 << 24)])
        lines.append({"ev": "Start", "id": idn, "hist": h, "enc": enc, "int": integ,
                      "kenc": [rnd.randrange(256) for _ in range(16)], "kint": [rnd.randrange(256) for _ in range(16)], "dl": dl0, "ul": 0})
        idn += 1
        for s in range(steps):
            x = rnd.random()
            hdr = 2 if x < 0.6 else 1 if x < 0.75 else 0 if x < 0.85 else 3 if x < 0.93 else 4
            if s == 0 and dl0 == 0:
                hdr = 3      # Security Mode Command opens a fresh context
            skip = rnd.choice([0, 0, 0, 1, 16, 254, 126, 127, 128])
            if s == 12:
                hdr = [3, 4][h % 2]       # a new security context in the middle of every history, integrity-only and ciphered in turn
            if s in (5, 6, 7):
                skip = [126, 127, 128][s - 5]
            plain = rnd.choice(msgs)
            if s == 15:
                hdr, plain = 0, [0x7e, 0x00, [0x46, 0x54][h % 2]]     # a plain message that is nothing but its three header octets
            if s in (2, 9):
                # long messages (more than 255 octets, several keystream blocks, up to 8300 octets: a bit length above 2^16 and more than
                # 2048 keystream words) at fixed steps
                plain = longs[(h + (0 if s == 2 else 3)) % 7]
                if tier == "quick" and s == 9 and h in (2, 5):
                    plain, hdr = longs[5], 2      # more than 4096 octets (over 256 cipher blocks) once under NEA2 with each integrity algorithm
            lines.append({"ev": "Msg", "id": idn, "hist": h, "hdr": hdr, "skip": skip, "plain": plain})
            idn += 1
    skel = os.path.join(sc.work, "dlskel.ndjson")
    open(skel, "w").write("\n".join(json.dumps(x) for x in lines) + "\n")
    chunks = _group_chunks(skel, sc.work, "dlskel", vlib.NCPU)

    def gen(c):
        d = sc.specdir()
        outp = c[0].replace("dlskel", "dlcases")
        r = vlib.run_tlc(d, "GenNasDl", vlib.cfg_text({"TracePath": c[0], "OutPath": outp}, post="Consumed"), timeout=1500)
        shutil.rmtree(d, ignore_errors=True)
        if not r.ok:
            raise HarnessError("GenNasDl failed: " + r.error)
        return outp, r
    with cf.ThreadPoolExecutor(max_workers=vlib.NCPU) as ex:
        gens = list(ex.map(gen, chunks))
    v.add_tlc([g[1] for g in gens])
    obs_chunks = []
    for outp, _ in gens:
        obsp = outp.replace("dlcases", "dlobs")
        sc.run("rec-nassec", ["-replay", outp, "-out", obsp])
        obs_chunks.append((obsp, open(obsp).read().splitlines()))
    rejects = _validate_chunks(sc, v, "TraceNasSec", obs_chunks)
    evs = [json.loads(l) for c in obs_chunks for l in c[1]]
    decs = [e for e in evs if e["ev"] == "Dec"]
    v.evaluations += len(decs)
    for e in decs:
        v.distinct.add(canon([e["hist"], e["id"]]))
    v.samples = decs[:2]
    v.rule = ("downlink histories generated by the specification's AMF (GenNasDl: NasSec!Protect with DIRECTION=downlink): header types 0..4, "
              "sequence-number steps {1,2,17,255}, start COUNTs 0 / near the SQN wrap / near 2^16 / near 2^24, new-context resets (types 3/4), "
              "algorithm pairs {NIA1,NIA2}x{NEA0,NEA1,NEA2}; replayed through tglib.NASDecode; distinct = (history, message)")
    v.assumptions = ["plain downlink messages are hand-written TS 24.501 encodings that the library codec round-trips (C08 covers the codec)"]

    def key(r, e):
        return "Dec:hdr%s:enc%s:%s" % (e.get("hdr"), _alg_of(evs, e), r["why"][:50])
    _reject_to_violation(v, rejects, key)


# ------------------------------------------------------------------------------------------------
# C03 / C04  NGAP encoding is X.691; decode inverts encode
# ------------------------------------------------------------------------------------------------
def _tree_features(t, out):
    k = t.get("k")
    if k in ("octstr", "seqof") and len(t.get("v", [])) >= 16000:
        out.add("len")
    if k == "bitstr" and t.get("nbits", 0) >= 16000:
        out.add("len")
    if k == "seqof":
        n = len(t["v"])
        lb, ub = t["lb"], t["ub"]
        if t.get("ext") and ub.get("has") and (n > ub.get("n", 1 << 40) or (lb.get("has") and n < lb.get("n", 0))):
            out.add("seqof-ext")
        for x in t["v"]:
            _tree_features(x, out)
    elif k == "seq":
        for f in t["fields"]:
            if f.get("present"):
                _tree_features(f["v"], out)
    elif k in ("choice", "open"):
        _tree_features(t["v"], out)


def _per_key(r, e):
    """violation key = call site / input class"""
    feats = set()
    _tree_features(e.get("tree", {}), feats)
    why = r["why"]
    short = why.split(":")[1].strip()[:60] if ":" in why else why[:60]
    if "len" in feats:
        return "aper:length>=16384:" + short
    if "seqof-ext" in feats:
        return "aper:sequence-of-size-extension:" + short
    return "%s:%s:%s" % (e.get("cls", ""), e.get("name", ""), short)


def _per_run(sc, v, tier, seed, which):
    sc.build(["rec-per"])
    trace = os.path.join(sc.work, "per.ndjson")
    sc.run("rec-per", ["-seed", seed, "-tier", tier, "-out", trace], timeout=1800)
    results, rejects, lines = vlib.validate_trace(sc, "TracePer", trace, timeout=2400)
    v.add_tlc(results)
    v.traces = len(results)
    v.evaluations = len(lines)
    # second pass (C04, second sentence): where the library's encoding is not the reference encoder's, the reference bytes are decoded
    import re
    spec = {}
    for r in results:
        for pl in r.prints:
            m = re.match(r'^"?SPECBYTES (\d+) <<([0-9, ]*)>>"?$', pl.strip())
            if m:
                spec[m.group(1)] = [int(x) for x in m.group(2).split(",") if x.strip()]
    v.extra["reference_encodings_fed_to_the_decoder"] = len(spec)
    if spec:
        sp = os.path.join(sc.work, "specbytes.json")
        json.dump(spec, open(sp, "w"))
        trace2 = os.path.join(sc.work, "per2.ndjson")
        sc.run("rec-per", ["-seed", seed, "-tier", tier, "-out", trace2, "-specbytes", sp], timeout=1800)
        if os.path.getsize(trace2) > 0:
            res2, rej2, lines2 = vlib.validate_trace(sc, "TracePer", trace2, timeout=2400)
            v.add_tlc(res2)
            v.evaluations += len(lines2)
            rejects = rejects + rej2
            if len(lines2) != len(spec):
                raise HarnessError("second pass: %d reference encodings requested, %d decoded (generation not deterministic?)" % (len(spec), len(lines2)))
    names = set()
    for l in lines:
        e = json.loads(l)
        names.add(e["name"])
        if e["tree"].get("k") != "invalid":
            v.distinct.add(hash(canon(e["tree"])))
    v.extra["message_and_schema_kinds"] = len(names)
    v.samples = [{"name": json.loads(l)["name"], "bytes": json.loads(l)["bytes"][:64]} for l in lines[:3]]
    mine = [r for r in rejects if r["why"].startswith(which + ":") or (r.get("event") or {}).get("ev") == "Held"]
    other = [r for r in rejects if r not in mine]
    if other:
        vlib.log("note: %d reject(s) belong to the sibling property (%s)" % (len(other), "C04" if which == "C03" else "C03"))
    _reject_to_violation(v, mine, _per_key)


def _tag_check(sc, v):
    """(c) the constraints in the struct tags against the hand transcription of TS 38.413 9.4.5 (Ngap38413Types.tla)"""
    sc.build(["rec-build"])
    schema = os.path.join(sc.work, "schema-tags.json")
    sc.run("rec-build", ["-tier", "quick", "-out", os.path.join(sc.work, "b0.ndjson"), "-schema", schema])
    d = sc.specdir()
    r = vlib.run_tlc(d, "Ngap38413Types", vlib.cfg_text({"SchemaPath": schema}, post="Consumed"), timeout=600)
    if not r.ok:
        raise HarnessError("Ngap38413Types did not complete: " + r.error)
    v.add_tlc([r])
    absent = [p for p in r.prints if "ABSENT" in p]
    fam = [int(p.strip().strip('"').split()[1]) for p in r.prints if "FAMILY" in p]
    v.extra["types_compared_with_TS38413"] = max(r.distinct - 1, 0) - len(absent) + (fam[0] if fam else 0)
    v.evaluations += v.extra["types_compared_with_TS38413"]
    for rj in r.rejects:
        v.violation("tag:" + rj["id"], rj["why"], {"type": rj["id"], "why": rj["why"]})


def check_C03(sc, v, tier, seed, replay):
    _per_run(sc, v, tier, seed, "C03")
    _tag_check(sc, v)
    v.rule = ("(a) primitive schemas built with reflect.StructOf: INTEGER ranges lb in -3..3 x width 0..N exhaustively with values at/around "
              "both ends, ranges of size 2^k-1, 2^k, 2^k+1 for k <= 40, semi-/unconstrained, ENUMERATED 1..300, BIT/OCTET STRING bound pairs x "
              "ext x lengths at bounds and 127/128/129/300, SEQUENCE presence maps, SEQUENCE OF sizes, CHOICE 1..9 (and unset), each at "
              "several bit offsets; (b) every one of the 78 NGAP message types and 24 transfer containers with random in-constraint "
              "values generated by reflection (every 7th with deliberate violations); open types of length 0..16380; "
              "(c) the struct tags against a hand transcription of TS 38.413 (Ngap38413Types.tla): constraints of about 470 named simple types "
              "and lists, SEQUENCE/CHOICE definitions of 225 structured types, all 153 IE identifiers and 78 messages "
              "against every referenceFieldValue of the 267 open-type containers, generic rules (every ENUMERATED bounded, every SEQUENCE with "
              "iE-Extensions/protocolIEs extensible at every use site, every CHOICE non-extensible over exactly its alternatives); "
              "distinct = distinct value tree")
    v.assumptions = ["Per.tla is X.691 ALIGNED BASIC-PER; constraints are those of the struct tags, themselves compared with TS 38.413 for the types of Ngap38413Types.tla (others are tag-trusted)",
                     "a value using an extension of an extensible constraint may be refused, but must be encoded per X.691 if encoded"]


def check_C04(sc, v, tier, seed, replay):
    _per_run(sc, v, tier, seed, "C04")
    v.rule = ("same generated values as C03: real encode -> real decode -> tree equality -> real re-encode -> byte equality; the cases in which "
              "the real bytes equal the reference encoder's bytes are at the same time canonical encodings of an independent encoder; "
              "distinct = distinct value tree")
    v.assumptions = ["tree equality is on the Go representation including the unused bits of a BIT STRING's last octet"]


# ------------------------------------------------------------------------------------------------
# C13  gNB-side builders
# ------------------------------------------------------------------------------------------------
def check_C13(sc, v, tier, seed, replay):
    sc.build(["rec-build"])
    trace = os.path.join(sc.work, "build.ndjson")
    schema = os.path.join(sc.work, "schema.json")
    sc.run("rec-build", ["-seed", seed, "-tier", tier, "-out", trace, "-schema", schema])
    results, rejects, lines = vlib.validate_trace(sc, "TraceBuild", trace, constants={"SchemaPath": schema})
    v.add_tlc(results)
    v.traces = len(results)
    evs = [json.loads(l) for l in lines]
    v.evaluations = len(evs)
    for e in evs:
        v.distinct.add(canon([e["fn"], e["args"]]))
    v.extra["builders_covered"] = len(set(e["fn"] for e in evs))
    v.samples = [{"fn": e["fn"], "args": e["args"], "bytes": e["bytes"][:48]} for e in evs[:3]]
    v.rule = ("the 14 build-and-encode wrappers and every implemented Build* function x identifiers in and just outside their ASN.1 ranges "
              "(0, 1, 255, 256, 65535, 65536, 2^32-1, 2^32, 2^40-1, 2^40, -1) x NAS-PDU lengths 0..5000 x IPv4 addresses x gNB id 22..32 bits x "
              "names 1..150 x PLMN re-announced by NG Setup; distinct = (builder, arguments)")
    v.assumptions = ["decoding inside TLC uses the type dictionary exported from the struct tags; the constraints of the IE types the emulator "
                     "fills in and the clause 9.2 IE tables are hand transcriptions of TS 38.413 (Ngap.tla) checked against it"]

    def key(r, e):
        return "%s:%s" % (e.get("fn"), r["why"][:80])
    _reject_to_violation(v, rejects, key)


# ------------------------------------------------------------------------------------------------
# C01 / C02 / C19: the real emulator process against the specification's AMF run by TLC
# ------------------------------------------------------------------------------------------------
def _online_collect(v, runs, pid, sc=None):
    if sc is not None:
        _stg_conformance(sc, v, runs)
    for r in runs:
        t = r["tlc"]
        if not t.ok:
            raise HarnessError("online run %s: TLC did not complete: %s\n%s" % (r["name"], t.error, t.out[-1500:]))
        if r["verdict"] is None:
            raise HarnessError("online run %s produced no verdict" % r["name"])
        for rj in t.rejects:
            if rj["why"].startswith("HARNESS"):
                raise HarnessError("online run %s: %s" % (r["name"], rj["why"]))
        v.add_tlc([t])
        v.traces += 1
        v.evaluations += r["verdict"]["k"]
        for n in r["verdict"]["notes"]:
            v.distinct.add((r["name"], n["k"]))
        for rj in t.rejects:
            key = "%s:%s" % (rj["ev"], rj["why"].split(":")[-2].strip()[:50] if rj["why"].count(":") >= 2 else rj["why"][:50])
            v.violation(key, rj["why"], {"run": r["name"], "message_index": rj["line"], "why": rj["why"], "scenario": r["scn"],
                                         "pump_log": open(os.path.join(r["dir"], "pump.ndjson")).read().splitlines()[:200]})


def _stg_conformance(sc, v, runs):
    """every recorded run must be a behaviour of the abstract system specification that MCStg checks exhaustively"""
    import online
    # (runs in which the AMF sends a message of its own accord in front of the fault are outside the AMF family of Stg.tla, whose AMF only
    # answers: they are judged by StgOnline's final verdict alone)
    clean = [r for r in runs if r["verdict"] is not None and r["tlc"].ok and not r["tlc"].rejects and not r["scn"]["fault"].get("ins")]
    n = 0
    for r, t in online.validate_stg(sc, clean):
        if not t.ok:
            raise HarnessError("TraceStg did not complete for run %s: %s\n%s" % (r["name"], t.error, t.out[-1500:]))
        v.add_tlc([t])
        n += 1
        for rj in t.rejects:
            lines = online.stg_trace(r)
            v.violation("Stg:%s" % lines[rj["line"] - 1].get("t", lines[rj["line"] - 1]["ev"]), rj["why"],
                        {"run": r["name"], "trace_line": rj["line"], "why": rj["why"], "scenario": r["scn"], "stg_trace": lines})
    v.extra["runs_validated_against_Stg"] = v.extra.get("runs_validated_against_Stg", 0) + n


def _mc_stg(sc, v, tier="quick"):
    """design level: exhaustive model checking of the abstract system specification (quick: counts <= 2, 200 k states;
    thorough: counts <= 3; the three fault kinds close / closeafter / garbage at every point)"""
    for cfgname in (("MCStg",) if tier == "quick" else ("MCStg", "MCStg3")):
        p = os.path.join(vlib.SPEC, cfgname + ".cfg")
        if not os.path.exists(p):
            continue
        d = sc.specdir()
        r = vlib.run_tlc(d, "Stg", open(p).read(), name=cfgname, timeout=1200, workers=vlib.NCPU, heap="12g")
        if not r.ok:
            raise HarnessError("%s: the system specification violates its own properties or TLC failed: %s" % (cfgname, r.error))
        v.add_tlc([r])
        v.extra["mc_" + cfgname + "_distinct_states"] = r.distinct


def check_C01(sc, v, tier, seed, replay):
    import random
    import online
    _mc_stg(sc, v, tier)
    emu = online.prepare(sc)
    rnd = random.Random(seed * 1009 + 1)
    n = 3 if tier == "quick" else 24
    jobs = []
    for i in range(n):
        nue = 1 + (i % 3 if tier != "quick" else (2 if i == 2 else 0))      # quick: 1, 1 and 3 UEs
        counts = {"reg": nue, "pdu": 0, "svc": 0, "rel": 0, "dereg": 0}
        opts = {"det": i, "mnc_len": 2 + i % 2, "use_opc": i in (0, 1, 4, 5) or i % 4 == 3, "gnb_bits": 22 + (seed + 4 * i) % 11,
                "name_len": [7, 126, 150, 82, 75, 1, 2][i % 7],      # 82 / 126 characters: an open type / the whole message of exactly 128 octets "mcc": "001" if i % 3 == 1 else None,
                "imsi_len": [15, 15, 13, 14, 12, 11][i % 6],      # MSIN lengths 10, 9, 8, 8, 7, 5: odd and even digit counts
                "big_amf_id": i % 3 == 0,                         # an AMF-UE-NGAP-ID that needs five octets
                "free_msin": i % 2 == 0,                          # subscriber blocks that cross a multiple of 10^4
                "lead0": i % 3 == 1}                              # K / OP / OPc whose text begins with zero digits
        if i % 2 == 1:
            opts["mnc"] = ["410", "070", "260", "100"][(i // 2 + seed) % 4]    # a three-digit MNC whose last digit is 0 (310/410, 722/070, ...)
        scn, text = online.make_scenario(rnd, counts, opts=opts)
        jobs.append(("reg%02d" % i, scn, text))
    runs = online.run_many(sc, emu, jobs, parallel=8)
    _online_collect(v, runs, "C01", sc)
    v.samples = [{"scenario_cfg": runs[0]["scn"]["cfg"], "amf_choices_ue1": runs[0]["scn"]["ues"][0], "notes": runs[0]["verdict"]["notes"]}]
    v.rule = ("scenarios = configuration (IMSI length 11..15, MNC length 2|3, K, OP or OPc, gNB id 22..32 bits, names 1..150) x AMF choices "
              "(RAND, SQN, AMF field, AMF-UE-NGAP-ID over 0..2^40-1 boundaries, ngKSI, optional IEs) x 1..3 UEs; every uplink message of the "
              "real process is judged by Amf!AmfHandle in TLC; distinct = (run, uplink message)")
    v.assumptions = ["AMF family A1-A4 of Amf.tla", "PDU session identity derived by the emulator lies in 1..15 for the chosen IMSIs"]


def check_C02(sc, v, tier, seed, replay):
    import random
    import online
    _mc_stg(sc, v, tier)
    _clamp_lemmas(sc, v)
    emu = online.prepare(sc)
    rnd = random.Random(seed * 1013 + 2)
    # (reg, pdu, svc, rel, dereg): the third shape asks for more services / releases than sessions and more sessions than ... each clamp of
    # the main program is exercised by a count larger than its prerequisite, separately for pdu < rel and reg < pdu
    shapes = [(1, 1, 1, 1, 1), (2, 1, 3, 2, 3), (2, 3, 1, 3, 1), (2, 2, 0, 1, 2)]     # the last: a session still active at deregistration, no service
    # "any number of UEs": one run with more UEs than a PDU session identity has values (17 register and deregister, two hold a session)
    shapes.append((17, 2, 1, 1, 17) if tier == "quick" else (33, 3, 2, 1, 33))
    if tier != "quick":
        shapes += [(3, 3, 3, 3, 3), (3, 2, 1, 0, 3), (2, 0, 3, 3, 1), (1, 3, 0, 2, 0), (3, 1, 2, 1, 2), (2, 2, 0, 2, 2), (2, 2, 2, 0, 0),
                   (1, 1, 0, 0, 1), (3, 3, 0, 3, 0), (2, 1, 3, 3, 3), (1, 0, 0, 0, 1), (3, 2, 2, 2, 1), (2, 2, 2, 1, 1)]
    jobs = []
    for i, s in enumerate(shapes):
        counts = dict(zip(("reg", "pdu", "svc", "rel", "dereg"), s))
        scn, text = online.make_scenario(rnd, counts, opts={"det": i, "mnc_len": 2 + i % 2, "imsi_len": [15, 14, 13, 15][i % 4],
                                                            "gnb_bits": 22 + (seed + 4 * (i + 3)) % 11,
                                                            "slow": 2 if s == (2, 2, 0, 1, 2) else 0})     # one run with a slow network
        jobs.append(("life%02d" % i, scn, text))
    runs = online.run_many(sc, emu, jobs, parallel=8, timeout=1500)
    _online_collect(v, runs, "C02", sc)
    v.samples = [{"counts": runs[-1]["scn"]["cfg"]["counts"], "notes": runs[-1]["verdict"]["notes"]}]
    v.rule = ("complete test-mode runs of the real process (all five loops) for 1..3 UEs and repetition vectors including counts larger than "
              "their prerequisites, network-assigned UE IP / TEID / UPF address, QoS rule lengths 0..1000, optional IEs of the Accept and of "
              "the transfer on/off, aggregate bit rates up to 4e12; every uplink message judged by Amf!AmfHandle in TLC, session reports "
              "(hook H2) and procedure counts judged at the end; distinct = (run, uplink message)")
    v.assumptions = ["AMF family A1-A4 of Amf.tla", "PDU session identity derived by the emulator lies in 1..15 for the chosen IMSIs"]


def _fault_points(counts):
    """downlink indices the emulator consumes, and those whose content it ignores (4th read of each registration)"""
    reads = 1 + 4 * counts["reg"] + min(counts["reg"], counts["pdu"]) + min(counts["reg"], counts["pdu"], counts["svc"]) + 2 * min(counts["reg"], counts["dereg"])
    ignored = {4 + 4 * i for i in range(counts["reg"])}
    ndl = reads + min(counts["reg"], counts["pdu"], counts["rel"])
    return reads, ignored, ndl


def check_C19(sc, v, tier, seed, replay):
    import random
    import online
    # design level: the abstract system specification with both fault kinds (FailStopSafe, Terminates)
    _mc_stg(sc, v, tier)
    emu = online.prepare(sc)
    rnd = random.Random(seed * 1019 + 19)
    # quick: the full lifecycle of one UE at every fault point, and a second shape faulted only while the *second* UE registers
    # (a fault tolerated for later UEs only, or state left by the first UE, shows there)
    shapes = [(1, 1, 1, 1, 1), (2, 0, 0, 0, 1)] if tier == "quick" else [(1, 1, 1, 1, 1), (2, 2, 1, 2, 2), (3, 2, 2, 1, 3), (2, 0, 0, 0, 1)]
    jobs = []
    for si, s in enumerate(shapes):
        counts = dict(zip(("reg", "pdu", "svc", "rel", "dereg"), s))
        reads, ignored, ndl = _fault_points(counts)
        # the peer closes instead of sending message a: for a < reads the emulator's read number a meets the end of the association.
        # Indices reads..ndl-1 are messages the emulator never reads (every PDU session release leaves its release command unread and
        # shifts the later reads by one, so the last messages of the conversation are still queued when the emulator finishes): a close
        # there races with the emulator's normal termination and is not observable by it - not a fault point (a multi-seed sweep met
        # exit status 0 there once; that alarm was the check's, not the emulator's)
        pts = [("close", a) for a in range(reads)] + [("garbage", a) for a in range(reads) if a not in ignored]
        if s == (2, 0, 0, 0, 1):
            pts = [(k, a) for (k, a) in pts if 5 <= a <= 8]       # reads 5..8: the second UE's registration
        if tier == "quick":
            pass
        elif si > 0:
            pts = rnd.sample(pts, min(len(pts), 24))
        # undecodable answers: all-ones, a truncated but well-started PDU, a single octet, random octets, more octets than the emulator's
        # read buffer holds; in the quick tier every consumed answer gets the first two, the other classes rotate over the fault points
        classes = [[255] * 12, [0, 21, 0, 50, 0, 0, 4, 0, 27], [0x20], [rnd.randrange(256) for _ in range(40)] + [255, 255],
                   [0x20, 0x15, 0x00, 0x80], [255] * 2100]
        for pi, (kind, at) in enumerate(pts):
            gs = [[]]
            if kind == "garbage":
                # every consumed answer: all-ones, a truncated well-started PDU, and more octets than the read buffer holds (a reader
                # that waits for "the rest" of an oversized message hangs); the single octet / random classes rotate
                gs = [classes[0], classes[1 + pi % 2 * 3], classes[5]] if si == 0 else [classes[[0, 5, 4, 1, 2, 3][pi % len(classes)]]]
                gs.append(classes[2 + pi % 2]) if tier == "quick" and si == 0 and pi % 3 == 0 else None
            if kind == "garbage":
                gs.append(("cut", [3, 2, 12, 5][pi % 4]))      # the genuine answer without its last octets
            if kind == "garbage" and (si == 0 or tier != "quick"):
                # the genuine answer with one information element whose value is no value of its type (the frame around it intact), the
                # IE marked "ignore" (criticality says what to do with an IE that is not comprehended, not with one that cannot be decoded)
                gs.append(("ie", 1 + pi % 4, True))
                if pi % 2 == 0:
                    gs.append(("ie", 2 + pi % 3, False))
            for gi, g in enumerate(gs):
                # one scenario for all fault runs of a shape; the AMF's optional-IE choices rotate with the seed (seed % 3 = 2: the
                # five-IE DownlinkNASTransport and the long InitialContextSetupRequest are the messages replaced by garbage)
                # (the registration-only shape lets the subscriber block end on ...0000: the second UE's RAN-UE-NGAP-ID is 0)
                fl = {"kind": kind, "at": at, "bytes": g}
                if isinstance(g, tuple) and g[0] == "cut":
                    fl = {"kind": kind, "at": at, "bytes": [], "cut": g[1]}
                elif isinstance(g, tuple):
                    fl = {"kind": kind, "at": at, "bytes": [255, 255, 255], "ie": g[1], "ignore": g[2]}
                scn, text = online.make_scenario(random.Random(seed * 7 + si), counts,
                                                 opts={"det": si + seed % 3, "gnb_bits": 22 + (seed + 4 * 9) % 11, "free_msin": s[1] == 0, "imsi_len": 15, "low": 9999},
                                                 fault=fl)
                jobs.append(("f%d-%s%02d%s" % (si, kind, at, "abcdefgh"[gi] if kind == "garbage" else ""), scn, text))
        # the peer answers and is gone at once: the answer is read, the emulator's next write fails (every read of the conversation is followed
        # by a write, the last one by the UE CONTEXT RELEASE COMPLETE / the response that ends the last procedure)
        if si == 0 or tier != "quick":
            for a in list(range(reads))[(0 if si == 0 else si % 3)::(1 if si == 0 else 3)]:
                scn, text = online.make_scenario(random.Random(seed * 7 + si), counts,
                                                 opts={"det": si + seed % 3, "gnb_bits": 22 + (seed + 4 * 9) % 11, "free_msin": s[1] == 0, "imsi_len": 15, "low": 9999},
                                                 fault={"kind": "closeafter", "at": a, "bytes": []})
                jobs.append(("f%d-closeafter%02d" % (si, a), scn, text))
        # a well-formed interface management message of the AMF's own accord (OVERLOAD STOP, AMF STATUS INDICATION) in front of the fault:
        # the emulator takes it for the answer it waits for and meets the fault one read later (not where that read is the ignored one)
        mgmt = [[0, 23, 0, 3, 0, 0, 0], [0, 1, 64, 15, 0, 0, 1, 0, 120, 0, 8, 0, 0, 2, 248, 57, 1, 0, 65]]
        if si == 0 or tier != "quick":
            for a in [a for a in range(reads - 1) if a + 1 not in ignored][(0 if si == 0 else si % 3)::(1 if si == 0 else 3)]:
                for kind in (["garbage"] if a % 2 == 0 or tier == "quick" else ["garbage", "close"]):
                    fl = {"kind": kind, "at": a, "bytes": classes[a % 2] if kind == "garbage" else [], "ins": mgmt[a % 2]}
                    scn, text = online.make_scenario(random.Random(seed * 7 + si), counts,
                                                     opts={"det": si + seed % 3, "gnb_bits": 22 + (seed + 4 * 9) % 11, "free_msin": s[1] == 0, "imsi_len": 15, "low": 9999},
                                                     fault=fl)
                    jobs.append(("f%d-ins-%s%02d" % (si, kind, a), scn, text))
        # two events in one run: the message whose content the emulator ignores (what follows a Registration Complete) is undecodable,
        # which it may shrug off, and a later consumed answer is undecodable too (whatever made it shrug must not outlive that message)
        pre = 4 if s[0] == 1 or s[1] == 0 else 8
        later = [a for a in range(pre + 1, reads) if a not in ignored]
        if tier != "quick" and si > 0:
            later = later[si % 2::2]
        for a in later:
            fl = {"kind": "garbage", "at": a, "bytes": classes[(a + si) % 2], "pre": pre, "prebytes": classes[(a + si + 1) % 2]}
            scn, text = online.make_scenario(random.Random(seed * 7 + si), counts,
                                             opts={"det": si + seed % 3, "gnb_bits": 22 + (seed + 4 * 9) % 11, "free_msin": s[1] == 0, "imsi_len": 15, "low": 9999},
                                             fault=fl)
            jobs.append(("f%d-pre%02d-garbage%02d" % (si, pre, a), scn, text))
    # conversations that end with each of the procedures (registration, session establishment, service request, session release,
    # deregistration as the last phase): the peer answers the last request of the run and is gone before the emulator writes the message
    # that completes it - the last write of a run is a write like any other
    for ei, s in enumerate([(1, 0, 0, 0, 0), (1, 1, 0, 0, 0), (1, 1, 1, 0, 0), (1, 1, 0, 1, 0), (2, 1, 1, 0, 0)]):
        if tier == "quick" and ei == 4:
            continue
        counts = dict(zip(("reg", "pdu", "svc", "rel", "dereg"), s))
        reads, ignored, ndl = _fault_points(counts)
        last = reads - 1
        if last in ignored:
            continue          # (registration only: the last read is the ignored one and no write follows it)
        scn, text = online.make_scenario(random.Random(seed * 7 + 40 + ei), counts,
                                         opts={"det": ei + seed % 3, "gnb_bits": 22 + (seed + ei) % 11, "imsi_len": 15},
                                         fault={"kind": "closeafter", "at": last, "bytes": []})
        jobs.append(("end%d-closeafter%02d" % (ei, last), scn, text))
    runs = online.run_many(sc, emu, jobs, parallel=16, timeout=900)
    for r in runs:
        for rj in r["tlc"].rejects:
            if rj["why"].startswith("HARNESS"):
                raise HarnessError("fault run %s is inconclusive: %s" % (r["name"], rj["why"]))
    _online_collect(v, runs, "C19", sc)
    v.samples = [{"fault": r["scn"]["fault"], "exit": r["verdict"]["result"].get("code"), "banner": r["verdict"]["result"].get("banner"),
                  "messages_before_exit": r["verdict"]["k"]} for r in runs[:4]]
    v.extra["fault_runs"] = len(runs)
    v.rule = ("complete test-mode conversations of the real process; for every downlink message index: the peer closes the association "
              "instead of sending it; for every downlink message whose content the emulator consumes: undecodable bytes instead "
              "(all-0xFF, random, truncated PDUs; Per!PerDecode must reject them); TLC judges exit status, banner and session reports; "
              "distinct = (run, uplink message)")
    v.assumptions = ["AMF family A1-A4 of Amf.tla", "a run that does not exit within 30 s of the last event counts as a hang"]


# ------------------------------------------------------------------------------------------------
# C11 / C17: identities and conversion helpers
# ------------------------------------------------------------------------------------------------
def _convert_run(sc, v, tier, seed, which):
    sc.build(["rec-convert", "rec-build"])
    schema = os.path.join(sc.work, "schema.json")
    sc.run("rec-build", ["-tier", "quick", "-out", os.path.join(sc.work, "b.ndjson"), "-schema", schema])
    trace = os.path.join(sc.work, "convert.ndjson")
    sc.run("rec-convert", ["-seed", seed, "-tier", tier, "-out", trace, "-which", which], timeout=1800)
    results, rejects, lines = vlib.validate_trace(sc, "TraceConvert", trace, constants={"SchemaPath": schema}, timeout=2400)
    v.add_tlc(results)
    v.traces = len(results)
    evs = [json.loads(l) for l in lines]
    return evs, rejects


def check_C11(sc, v, tier, seed, replay):
    evs, rejects = _convert_run(sc, v, tier, seed, "ident")
    n = 0
    for e in evs:
        if e["ev"] == "PlmnRow":
            for i, m in enumerate(e["mncs"]):
                v.distinct.add((tuple(e["mcc"]), tuple(m), tuple(e["msins"][i])))
            n += len(e["mncs"])
        else:
            n += 1
            v.distinct.add((tuple(e["mcc"]), tuple(e["mnc"]), "wire"))
    v.evaluations = n
    v.exhaustive = tier == "thorough"
    v.samples = [{"mcc": evs[7]["mcc"], "mnc": evs[7]["mncs"][0], "msin": evs[7]["msins"][0], "suci": evs[7]["sucis"][0]}]
    v.rule = ("every MCC 000..999 x (thorough: every 2- and 3-digit MNC = 1.1 M PLMNs; quick: 16 MNCs per MCC and all 1100 MNCs for 3 MCCs) x a random "
              "MSIN of 1..10 digits: SUCI decoded by Identity!SuciDecode, compared with Identity!SuciEncode, PLMN against Identity!PlmnOctets and the "
              "library's PlmnIDToNas; NG Setup / user-location PLMN on the wire decoded with Per; distinct = (MCC, MNC, MSIN)")
    v.assumptions = ["Identity.tla transcribes TS 24.501 9.11.3.4 (SUCI, PLMN) and TS 38.413 9.3.3.5"]
    _reject_to_violation(v, rejects, lambda r, e: "%s:%s" % (e.get("ev"), r["why"].split(": ")[-1][:60]))
    # the identities as the procedures place them: complete runs of the real process in which several UEs register and every one of
    # them deregisters afterwards (the identity of an earlier UE is used again after later UEs were created), judged by the
    # specification's AMF (SUCI of UE u = configured IMSI + u, PLMN of NG Setup and of every user location)
    import random
    import online
    emu = online.prepare(sc)
    rnd = random.Random(seed * 1033 + 11)
    shapes = [(2, 3, 14), (3, 2, 15)] if tier == "quick" else [(2, 3, 14), (3, 2, 15), (3, 3, 13), (2, 2, 12), (3, 3, 15), (2, 2, 11)]
    jobs = []
    for i, (nue, mnc_len, imsi_len) in enumerate(shapes):
        scn, text = online.make_scenario(rnd, {"reg": nue, "pdu": 0, "svc": 0, "rel": 0, "dereg": nue},
                                         opts={"det": i + seed % 3, "mnc_len": mnc_len, "imsi_len": imsi_len, "free_msin": i % 2 == 1,
                                               "other_plmn": [1, 2, 0][i % 3],       # the first run: another PLMN in front of the gNB's
                                               "msin_has_plmn": i % 2 == 0})
        jobs.append(("ident%02d" % i, scn, text))
    runs = online.run_many(sc, emu, jobs, parallel=8)
    _online_collect(v, runs, "C11", sc)


def check_C17(sc, v, tier, seed, replay):
    evs, rejects = _convert_run(sc, v, tier, seed, "convert")
    v.evaluations = sum(256 if e["ev"] == "AmfIdRow" else len(e["mncs"]) if e["ev"] == "PlmnRow" else 1 for e in evs)
    for e in evs:
        d = dict(e)
        d.pop("id")
        v.distinct.add(hash(canon(d)))
    v.samples = [e for e in evs if e["ev"] in ("Tla", "Pco")][:2]
    v.rule = ("all SST x {no SD, boundary SDs, random}; AMF ids in rows of 256 (quick 3 x 2^16, thorough 32 x 2^16 of the 2^24); IPv4 / IPv6 / dual-stack "
              "addresses incl. boundary values, both directions; PCO lists of 0..8 containers with contents 0..255 octets, marshalled and parsed back "
              "(parser state machine ReadingID/Length/Content in TLA+) and the option list built by the helper constructors; DNN; three complete rows "
              "(all 1100 MNCs) of the PLMN conversion, the full table being C11's; distinct = distinct event")
    v.assumptions = ["TS 24.501 9.11.2.8, TS 23.003 2.10.1, TS 38.414 5.1, TS 24.008 10.5.6.3 as transcribed in TraceConvert.tla"]

    def key(r, e):
        if e.get("ev") == "Tla":
            return "Tla:mode%s:%s" % (e.get("mode"), r["why"][:50])
        return "%s:%s" % (e.get("ev"), r["why"][:50])
    _reject_to_violation(v, rejects, key)


# ------------------------------------------------------------------------------------------------
# C16  UE population
# ------------------------------------------------------------------------------------------------
def check_C16(sc, v, tier, seed, replay):
    d = sc.specdir()
    r = vlib.run_tlc(d, "MCUePop", open(os.path.join(vlib.SPEC, "MCUePop.cfg")).read(), name="MCUePop", timeout=600, workers=4)
    if not r.ok:
        raise HarnessError("MCUePop failed: " + r.error)
    v.add_tlc([r])
    evs, rejects = _stateless(sc, v, "rec-ue", "UePop", "ue.ndjson", seed, tier)
    v.evaluations = sum(e.get("n", 1) for e in evs)
    for e in evs:
        for s in e.get("supis", []):
            v.distinct.add(tuple(s))
    evs = [e for e in evs if e["ev"] == "Population"]
    v.samples = [{"imsi": e["imsi"], "n": e["n"], "first_supis": e["supis"][:2], "first_ran_ids": e["rans"][:2]} for e in evs[:2]]
    v.rule = ("populations created by CreateUE as the UE loops do: initial IMSIs with leading zeros, 2- and 3-digit MNC, MSIN near exhaustion, "
              "n in {1, 2, 10, 300 | 9999, 10000}; set-level invariants judged by UePop.tla; distinct = distinct SUPI")
    v.assumptions = ["a population larger than the MSIN digits can accommodate is outside the claim"]
    _reject_to_violation(v, rejects, lambda r, e: "Population:%s" % r["why"][:60])
    # the population as the main program creates it (its own call of CreateUE, with the keys of the configuration file): complete runs of
    # the real process with three UEs, K / OPc / OP all different (and one run with OP alone), judged by the specification's AMF - SUCI of UE u,
    # RES* under the configured keys, distinct RAN-UE-NGAP-IDs
    import random
    import online
    emu = online.prepare(sc)
    rnd = random.Random(seed * 1039 + 16)
    jobs = []
    for i in range(2 if tier == "quick" else 6):
        nue16 = 3 if i % 2 == 0 else 2
        scn, text = online.make_scenario(rnd, {"reg": nue16, "pdu": 0, "svc": 0, "rel": 0, "dereg": nue16},
                                         opts={"det": i + seed % 3, "use_opc": i % 2 == 0, "free_msin": True, "lead0": i % 2 == 1,
                                               "mnc_len": 2 + i % 2, "imsi_len": [15, 14, 13, 12][i % 4]})      # run 1: three-digit MNC with an even number of MSIN digits
        jobs.append(("pop%02d" % i, scn, text))
    runs = online.run_many(sc, emu, jobs, parallel=8)
    _online_collect(v, runs, "C16", sc)


# ------------------------------------------------------------------------------------------------
# C12  extraction of UE address / TEID / UPF address
# ------------------------------------------------------------------------------------------------
def _run_with_restarts(sc, cmd, args, outp, limit=400):
    """run a watchdog-protected replayer; it exits 3 after recording a hang and is restarted behind that case"""
    start, n = 0, 0
    while True:
        r = sc.run(cmd, list(args) + ["-out", outp, "-from", start], check=False, timeout=3600)
        if r.returncode == 0:
            return
        if r.returncode != 3:
            raise HarnessError("%s failed (%d): %s" % (cmd, r.returncode, (r.stdout + r.stderr)[-2000:]))
        start = len(open(outp).read().splitlines())
        n += 1
        if n >= 25:
            vlib.log("note: %s recorded %d hangs; the rest of its sweep is skipped" % (cmd, n))
            return


def check_C12(sc, v, tier, seed, replay):
    import concurrent.futures as cf
    import random
    import re
    import shutil
    rnd = random.Random(seed * 1021 + 12)
    sc.build(["rec-extract", "rec-build"])
    schema = os.path.join(sc.work, "schema.json")
    sc.run("rec-build", ["-tier", "quick", "-out", os.path.join(sc.work, "b.ndjson"), "-schema", schema])
    # (1) termination model: the walk as the code performs it; a counterexample is a lead
    leads = []
    for policy in ("noAdvanceOnUnknown", "stopOnUnknown"):
        d = sc.specdir()
        cfg = ("CONSTANTS MaxLen = 4 Policy = \"%s\"\nSPECIFICATION Spec\nPROPERTY Terminates\nPROPERTY Progress\nINVARIANT Bounded\nCHECK_DEADLOCK FALSE\n" % policy)
        r = vlib.run_tlc(d, "PduExtract", cfg, name="MCExtract-" + policy, timeout=900, workers=vlib.NCPU, heap="8g")
        v.add_tlc([r])
        if policy == "stopOnUnknown" and not r.ok:
            raise HarnessError("PduExtract with the terminating policy violates its own properties: " + r.error)
        if policy == "noAdvanceOnUnknown" and not r.ok:
            m = re.findall(r"input = <<([0-9, ]*)>>", r.out)
            for s in m[-1:]:
                leads.append([int(x) for x in s.split(",") if x.strip()])
        shutil.rmtree(d, ignore_errors=True)
    v.extra["model_leads"] = leads
    leadp = os.path.join(sc.work, "leads.json")
    json.dump(leads, open(leadp, "w"))
    # (2) exactness on spec-generated well-formed inputs
    n = 160 if tier == "quick" else 12000
    opt_ieis = [89, 86, 34, 128, 117, 120, 121, 123, 37]
    skel = []
    for i in range(n):
        ies = [x for x in opt_ieis if rnd.random() < (0.5 if i % 3 else (0.0 if i % 6 == 0 else 1.0))]
        if i % 8 == 0:
            # the long QoS rule cases: all optional IEs (the 5GSM cause in front of the address among them), none, and a random subset, in turn
            ies = [list(opt_ieis), [], ies][(i // 8) % 3]
        big = lambda x: online_num(x)
        skel.append({"id": i, "psi": rnd.randrange(1, 16), "pti": rnd.randrange(1, 255), "hdr": rnd.choice([2, 4]), "dlCount": rnd.randrange(1 << 24),
                     "ies": ies, "ip": [rnd.choice([0, 10, 255, rnd.randrange(256)]) for _ in range(4)],
                     "teid": rnd.choice([[0, 0, 0, 0], [0, 0, 0, 1], [128, 0, 0, 0], [255, 255, 255, 255], [rnd.randrange(256) for _ in range(4)]]),
                     "upf": [rnd.randrange(256) for _ in range(4)],
                     "qosRules": [rnd.randrange(256) for _ in range([4000, 256, 255, 1, 0][(i // 8) % 5] if i % 8 == 0 else rnd.choice([0, 1, 9, 31, 127, 128]))],
                     "qosFlows": [rnd.randrange(256) for _ in range(rnd.choice([3, 6, 60, 300]))],
                     "withAmbr": rnd.random() < 0.6,
                     # values of the fixed part and of the leading optional IEs that look like later element identifiers (29 PDU address, 59 cause,
                     # 8x / Cx half-octet ids): a walk keyed on octet values instead of the element structure trips over them
                     "cause": [36, 0x29, 0x59, 0x80, 0xC0, rnd.randrange(256)][i % 6],
                     "rq": [32, 0x29, 0x59, rnd.randrange(256)][i % 4],
                     "sel": [0x11, 0x21, 0x31][i % 3],
                     # (session AMBR: unit octets 0 = "value is not used", 1..25 defined, above that "multiples of 256 Pbps": all valid encodings)
                     "ambr": [[6, 0, 1, 6, 0, 1], [0x29, 0x29, 0x29, 0x59, 0x59, 0x29], [rnd.randrange(256) for _ in range(6)],
                              [0, 0, 1, 6, 0, 1], [1, 255, 255, 0, 0, 0], [25, 0, 1, 26, 0, 1], [255, 255, 255, 255, 255, 255]][i % 7],
                     "ambrDl": big(rnd.choice([0, 1, 255, 256, 65535, 65536, 1 << 32, 4000000000000, rnd.randrange(4000000000001)])),
                     "ambrUl": big(rnd.choice([0, 1, 1 << 16, 1 << 24, 1 << 40, 4000000000000]))})
        # every fourth Accept also carries information elements of later releases behind the tabulated ones, with values that look like
        # element identifiers of this table (29 PDU address, 22 S-NSSAI, 25 DNN, 7B extended PCO)
        if i % 4 == 1:
            later = [[0x17, 1, [0x01, 0x29][i % 2]], [0x18, 2, 0x00, [0x29, 0x22, 0x64][i % 3]], [0x77, 0x00, 0x05, 0x29, 0x05, 0x01, 0x22, 0x09],
                     [0x66, 3, 0x29, 0x7B, 0x00], [0x1F, 1, [0x25, 0x29][i % 2]]]
            pick = [later[j] for j in range(5) if (i // 4 + j) % 2 == 0 or i % 12 == 1]
            skel[-1]["tail"] = [x for t in pick for x in t]
    # dense sweeps through the transfer extractor alone: every aggregate bit rate 0..300 (DL and UL), every 256^k - 1, 256^k, 256^k + 1
    # up to 4e12, rates whose octets contain the identifier of a later IE (00 8B, 00 86, 00 88), TEID / address corners
    rates = list(range(0, 301)) + [x for k in range(1, 6) for x in (256 ** k - 1, 256 ** k, 256 ** k + 1)] + [4000000000000, 0x8B00, 0x8B0000, 0x01008B, 0x8600, 0x018800, 0x008B008B]
    sweep = [(r, 7) for r in rates] + [(9, r) for r in rates]
    for (dl, ul) in sweep:
        skel.append({"id": len(skel), "transferOnly": True, "withAmbr": True, "ambrDl": big(dl), "ambrUl": big(ul),
                     "teid": rnd.choice([[0, 0, 0, 0], [0, 139, 0, 139], [255, 255, 255, 255], [rnd.randrange(256) for _ in range(4)]]),
                     "upf": rnd.choice([[0, 139, 0, 1], [10, 0, 0, 139], [rnd.randrange(256) for _ in range(4)]]),
                     "psi": 1, "pti": 1, "hdr": 2, "dlCount": 0, "ies": [], "ip": [0, 0, 0, 0], "qosRules": [], "qosFlows": [1, 2, 3]})
    scnp = os.path.join(sc.work, "scn.json")
    json.dump({"cfg": {"sst": rnd.choice([1, 2, 255]), "sd": rnd.choice([[], [1, 2, 3]]), "k": [0] * 16, "op": [0] * 16, "opc": [0] * 16,
                       "mcc": [48, 48, 49], "mnc": [48, 49], "imsi": [48] * 10, "gnbId": [0, 0, 0], "gnbBits": 24, "gnbName": [65],
                       "gtpIp": [1, 2, 3, 4], "counts": {"reg": 0, "pdu": 0, "svc": 0, "rel": 0, "dereg": 0}},
               "ues": [], "fault": {"kind": "none", "at": -1, "bytes": []}}, open(scnp, "w"))
    skp = os.path.join(sc.work, "exskel.ndjson")
    open(skp, "w").write("\n".join(json.dumps(x) for x in skel) + "\n")
    chunks, _ = vlib.split_lines(skp, vlib.NCPU, sc.work, "exskel")

    def gen(c):
        d = sc.specdir()
        outp = c[0].replace("exskel", "excases")
        r = vlib.run_tlc(d, "GenExtract", vlib.cfg_text({"TracePath": c[0], "OutPath": outp, "ScenarioPath": scnp, "SchemaPath": schema},
                                                       post="Consumed"), timeout=1500)
        shutil.rmtree(d, ignore_errors=True)
        if not r.ok:
            raise HarnessError("GenExtract failed: " + r.error)
        return outp, r
    with cf.ThreadPoolExecutor(max_workers=vlib.NCPU) as ex:
        gens = list(ex.map(gen, chunks))
    v.add_tlc([g[1] for g in gens])
    obsp = os.path.join(sc.work, "exobs.ndjson")
    for outp, _ in gens:
        _run_with_restarts(sc, "rec-extract", ["-replay", outp], obsp)
    # (3) termination sweep on the real functions
    _run_with_restarts(sc, "rec-extract", ["-term", "-seed", seed, "-tier", tier, "-leads", leadp], obsp)
    results, rejects, lines = vlib.validate_trace(sc, "TraceExtract", obsp)
    v.add_tlc(results)
    v.traces = len(results)
    evs = [json.loads(l) for l in lines]
    v.evaluations = len(evs)
    for e in evs:
        v.distinct.add(hash(canon(e.get("nas", e.get("input")))))
    v.samples = [{"exp": evs[0]["exp"], "obs": evs[0]["obs"], "nas": evs[0]["nas"][:60]}, [e for e in evs if e["ev"] == "Term"][0]]
    v.rule = ("(G) PDU SESSION ESTABLISHMENT ACCEPTs built by the spec's SMF (random subsets of the optional IEs of table 8.3.2.1.1 in table order, "
              "QoS rules 0..4000 octets, flow descriptions, S-NSSAI with/without SD, DNN) inside DL NAS TRANSPORT inside a protected message "
              "(header types 2, 4) and setup request transfers PER-encoded by Per.tla (aggregate bit rates 0..4e12, TEID / address corners) replayed "
              "through the real extractors, plus dense transfer-only sweeps (every aggregate bit rate 0..300 and 256^k +- 1, octet patterns that "
              "look like a later IE identifier); termination: adversarial announced lengths for every element id, PduExtract.tla model-checked (leads replayed), every octet-class sequence up to length 3|4 "
              "and random byte strings up to 4 KiB under a 2 s watchdog; distinct = distinct input")
    v.assumptions = ["the PDU address IE carries an IPv4 address; the UL NG-U tunnel is an IPv4 GTP tunnel (as the property states)"]

    def key(r, e):
        if e.get("ev") == "Term":
            return "Term:%s:%s" % (e.get("fn"), e.get("cls"))
        return "Extract:%s" % r["why"][:40]
    _reject_to_violation(v, rejects, key)
    # what the procedure reports: the extractors are fed by EstablishPDU, which picks the list item and its NAS-PDU out of the setup
    # request; complete runs of the real process in which the request carries every optional element (RAN paging priority, a
    # message-level NAS-PDU next to the item's own, the aggregate bit rate), judged by the specification's AMF (reported = assigned)
    import online
    emu = online.prepare(sc)
    jobs = []
    for i in range(2 if tier == "quick" else 6):
        scn, text = online.make_scenario(random.Random(seed * 1049 + i), {"reg": 2, "pdu": 2, "svc": 0, "rel": 0, "dereg": 0},
                                         opts={"det": i + seed % 2, "mnc_len": 2 + i % 2, "fill": 1 + i % 2, "tail_ie": 2 - i % 2})
        jobs.append(("est%02d" % i, scn, text))
    runs = online.run_many(sc, emu, jobs, parallel=8)
    _online_collect(v, runs, "C12", sc)


def online_num(i):
    import online
    return online.num(i)


# ------------------------------------------------------------------------------------------------
# C14  NGAP decoding is total
# ------------------------------------------------------------------------------------------------
def check_C14(sc, v, tier, seed, replay):
    import concurrent.futures as cf
    import glob
    import shutil
    sc.build(["rec-total"])
    seeds = os.path.join(sc.work, "seeds.ndjson")
    sc.run("rec-total", ["-seed", seed, "-seeds", seeds, "-per", 1 if tier == "quick" else 4])
    chunks, seedlines = vlib.split_lines(seeds, vlib.NCPU, sc.work, "seeds")
    budget = 24 if tier == "quick" else 400

    def gen(c):
        d = sc.specdir()
        outp = c[0].replace("seeds-", "cases-")
        r = vlib.run_tlc(d, "PerFault", vlib.cfg_text({"TracePath": c[0], "OutPath": outp, "Budget": budget}, post="Consumed"), timeout=2400, heap="4g")
        shutil.rmtree(d, ignore_errors=True)
        if not r.ok:
            raise HarnessError("PerFault failed: " + r.error)
        return outp, r
    with cf.ThreadPoolExecutor(max_workers=vlib.NCPU) as ex:
        gens = list(ex.map(gen, chunks))
    v.add_tlc([g[1] for g in gens])
    casefiles = sorted(f for outp, _ in gens for f in glob.glob(outp + ".*"))
    allcases = os.path.join(sc.work, "allcases.ndjson")
    with open(allcases, "w") as o:
        for f in casefiles:
            o.write(open(f).read())
    obsp = os.path.join(sc.work, "total.ndjson")
    _run_with_restarts(sc, "rec-total", ["-replay", allcases], obsp)
    nrand = 6000 if tier == "quick" else 600000
    obsr = os.path.join(sc.work, "total-random.ndjson")
    _run_with_restarts(sc, "rec-total", ["-seed", seed, "-random", nrand], obsr)
    with open(obsp, "a") as o:
        o.write(open(obsr).read())
    results, rejects, lines = vlib.validate_trace(sc, "Totality", obsp, constants={"MaxMs": 200, "MaxAllocKiB": 65536}, timeout=2400)
    v.add_tlc(results)
    v.traces = len(results)
    v.evaluations = len(lines)
    kinds = {}
    outcomes = {}
    for l in lines:
        e = json.loads(l)
        v.distinct.add(e["id"])
        kinds[e["kind"]] = kinds.get(e["kind"], 0) + 1
        outcomes[e["outcome"]] = outcomes.get(e["outcome"], 0) + 1
    v.level_override = "fault_enumeration"
    v.extra["fault_kinds"] = kinds
    v.extra["outcomes"] = outcomes
    v.extra["seed_messages"] = len(seedlines)
    v.samples = [json.loads(lines[0]), json.loads(lines[len(lines) // 2])]
    v.rule = ("faults generated by PerFault.tla from one|four valid encodings of every NGAP message type: prefixes, single-bit flips, octets set to "
              "00/7F/80/FF/C1/C4/C5, adjacent octets set to FFFF, one-octet insertions and deletions (evenly spaced positions, budget per kind), "
              "plus seeded random strings up to 4 KiB, multi-byte corruptions and splices; each run under a 3 s watchdog with wall time and "
              "allocation measured; distinct = distinct case id (all non-trivial: every case differs from a valid encoding or is random)")
    v.assumptions = ["bounds judged by Totality.tla: 200 ms and 64 MiB per call (the decoder allocates a list of the claimed size before reading it: up to 65535 elements of about 176 octets = 11 MiB for a 7-octet input, which is the schema's own list-size limit, not unbounded)", "coverage-guided fuzzing is not used (DESIGN section 9)"]

    def key(r, e):
        return "Decode:%s:%s" % (e.get("kind", "")[:8], r["why"].split(" a ")[0][:40])
    _reject_to_violation(v, rejects, key)


# ------------------------------------------------------------------------------------------------
# C18  configuration file and command line
# ------------------------------------------------------------------------------------------------
def _cli_run(sc, emu, name, argv, scn, text):
    import subprocess
    import time
    import online
    d = os.path.join(sc.work, name)
    os.makedirs(d)
    online.write_config(os.path.join(d, "config.yaml"), scn, text)
    sock = os.path.join(d, "ctl.sock")
    pump = os.path.join(sc.bin, "pump")
    pp = subprocess.Popen([pump, "serve", "-sock", sock, "-dir", d, "-emu", emu, "-log", os.path.join(d, "pump.ndjson"), "--"] + list(argv),
                          stdout=subprocess.DEVNULL, stderr=subprocess.DEVNULL)
    try:
        for _ in range(100):
            if os.path.exists(sock):
                break
            time.sleep(0.05)
        subprocess.run([pump, "ctl", "-sock", sock, "recv", "0", os.path.join(d, "ul0.json"), "2500"], capture_output=True, timeout=30)
        r = subprocess.run([pump, "ctl", "-sock", sock, "stdout"], capture_output=True, text=True, timeout=30)
        st = json.loads(r.stdout.strip().splitlines()[-1])
    finally:
        try:
            subprocess.run([pump, "ctl", "-sock", sock, "quit"], capture_output=True, timeout=10)
            pp.wait(timeout=5)
        except Exception:
            pp.kill()
    return {"ev": "Cli", "id": name, "argv": list(argv), "trafficMode": st["trafficMode"], "testMode": st["testMode"], "usage": st["usage"],
            "nul": st["nul"], "exited": st["exited"], "code": st["code"]}


def check_C18(sc, v, tier, seed, replay):
    import concurrent.futures as cf
    import itertools
    import random
    import online
    rnd = random.Random(seed * 1031 + 18)
    # (a) key by key through the real loader
    sc.build(["rec-config"])
    trace = os.path.join(sc.work, "config.ndjson")
    sc.run("rec-config", ["-seed", seed, "-tier", tier, "-out", trace, "-shipped", os.path.join(sc.repo, "config.yaml")])
    # (c) argument vectors of length 0..3
    emu = online.prepare(sc)
    words = ["-t", "-x", "", "-t -t"]
    # spellings a flag-parsing library would also accept: only the exact argument "-t" selects test mode
    odd = ["--t", "-t=true", "-t=false", "-t=1", "-t=0", "--", "-T", "t", "-tt", "-h", "--help", " -t", "-t ", "--t=true"]
    argvs = [()] + [(a,) for a in words + odd] + list(itertools.product(words, repeat=2))
    argvs += [("-t", "--"), ("--", "-t"), ("-t", "extra"), ("--t", "-t"), ("-t=true", "-t")]
    triples = list(itertools.product(words, repeat=3))
    argvs += triples if tier != "quick" else [t for k, t in enumerate(triples) if (k + seed) % 2 == 0 or t[0] == "-t"]
    scn, text = online.make_scenario(rnd, {"reg": 1, "pdu": 0, "svc": 0, "rel": 0, "dereg": 0})
    with cf.ThreadPoolExecutor(max_workers=12) as ex:
        clis = list(ex.map(lambda x: _cli_run(sc, emu, "cli%03d" % x[0], x[1], scn, text), enumerate(argvs)))
    with open(trace, "a") as f:
        for c in clis:
            f.write(json.dumps(c) + "\n")
    results, rejects, lines = vlib.validate_trace(sc, "TraceConfig", trace)
    v.add_tlc(results)
    v.traces = len(results)
    evs = [json.loads(l) for l in lines]
    v.evaluations = len(evs)
    for e in evs:
        v.distinct.add(hash(canon(e.get("assignS", e.get("argv"))) + canon(e.get("assignI", ""))))
    # (b) on the wire: complete runs with random configurations judged by the TLC AMF (same machinery as C01/C02)
    jobs = []
    for i in range(2 if tier == "quick" else 12):
        # run 1: more service requests and releases asked for than sessions, more sessions than ... every clamp of the main program bites
        counts = {"reg": 1, "pdu": 1, "svc": 0, "rel": 1, "dereg": 1} if i % 2 == 0 else {"reg": 2, "pdu": 1, "svc": 3, "rel": 3, "dereg": 2}
        # run 0: two-digit MNC "0x", OP only; run 1: three-digit MNC "0xy" (numeric value below 100), OPc and OP both given and different
        s2, t2 = online.make_scenario(rnd, counts, opts={"lead0": i % 2 == 0, "det": [2, 1][i % 2] + 3 * (i // 2), "mnc_len": [2, 3][i % 2],
                                                         "use_opc": i % 2 == 1, "gnb_bits": 32 if i % 2 == 1 else 22 + (seed + 4 * (i + 7)) % 11,
                                                         "gid_hex": i % 2 == 1, "imsi_len": [15, 14, 13, 12][i % 4]})
        jobs.append(("wire%02d" % i, s2, t2))
    # the configured IMSI is a number to which the UE index is added: a block of three subscribers that crosses a multiple of 10^9
    # (15 digits, the third UE carries into the tenth digit from the right) and, in the thorough tier, of 10^6 / 10^12
    for i, mv in enumerate([999999998] if tier == "quick" else [999999998, 1999999999, 999998, 8999999999]):
        s2, t2 = online.make_scenario(rnd, {"reg": 3, "pdu": 0, "svc": 0, "rel": 0, "dereg": 3},
                                      opts={"det": i, "mnc_len": 2, "imsi_len": 15, "free_msin": True, "msin_val": mv})
        jobs.append(("carry%02d" % i, s2, t2))
    runs = online.run_many(sc, emu, jobs, parallel=8)
    _online_collect(v, runs, "C18", sc)
    v.samples = [{k: evs[0][k] for k in ("assignS", "assignI")}, clis[1], {"wire_run_cfg": runs[0]["scn"]["cfg"]}]
    v.rule = ("(a) seeded assignments of all 24 documented keys (leading zeros, upper/lower-case hex, empty strings, escapes in gnb_id, 150-char names, "
              "ports 0/65535, counts 0/1/large; keys written in random order) loaded by the real GetConfiguration and compared key by key; "
              "(b) complete runs of the real process with random configurations judged on the wire by the TLC AMF (SUCI, PLMN, gNB id/name, RES*, "
              "S-NSSAI, GTP address, procedure counts, N2 addresses and ports via hook H1); (c) argument vectors of length 0..3 over "
              "{-t, -x, '', '-t -t'} (all of length <= 2, sampled|all of length 3) plus the spellings a flag parser would accept (--t, -t=true, -t=false, --, -T, ...): "
              "banner / usage / N2 traffic; distinct = distinct assignment or argv")
    v.assumptions = ["YAML is written by the harness's own emitter (double-quoted scalars)", "interface names are only checked at structure level (traffic mode cannot start in the sandbox)"]
    _reject_to_violation(v, rejects, lambda r, e: "%s:%s" % (e.get("ev"), r["why"][:60]))


# ------------------------------------------------------------------------------------------------
# C20  concurrency
# ------------------------------------------------------------------------------------------------
def check_C20(sc, v, tier, seed, replay):
    import re
    import subprocess
    # (1) design level + schedule generation: every interleaving of the gate-point segments
    shapes = [(2, 2), (3, 1)] if tier == "quick" else [(2, 2), (3, 1), (2, 3), (3, 2)]
    scheds = []
    for (g, n) in shapes:
        for impl, emit in (("shared", False), ("locked", False), ("local", True)):
            d = sc.specdir()
            cfg = "CONSTANTS G = %d NCalls = %d Impl = \"%s\" Emit = %s\nSPECIFICATION Spec\nINVARIANT ResultsSequential\nCHECK_DEADLOCK FALSE\n" % (
                g, n, impl, "TRUE" if emit else "FALSE")
            r = vlib.run_tlc(d, "Conc", cfg, name="MCConc-%s-%d-%d" % (impl, g, n), timeout=1200, workers=1 if emit else vlib.NCPU, heap="8g")
            v.add_tlc([r])
            if impl == "shared":
                if r.ok:
                    raise HarnessError("Conc: the shared-state model does not violate ResultsSequential (model is vacuous)")
            else:
                if not r.ok:
                    raise HarnessError("Conc (%s) failed: %s" % (impl, r.error))
            if emit:
                for line in r.out.splitlines():
                    m = re.match(r'^"?SCHED <<([0-9, ]*)>>"?$', line.strip())
                    if m:
                        scheds.append([int(x) for x in m.group(1).split(",")])
    if tier == "quick" and len(scheds) > 1500:
        import random
        rnd = random.Random(seed)
        scheds = rnd.sample(scheds, 1500)
    v.extra["schedules"] = len(scheds)
    sp = os.path.join(sc.work, "schedules.ndjson")
    open(sp, "w").write("\n".join(json.dumps(s) for s in scheds) + "\n")
    # (2) replay through the gate hooks, (3) free-running stress under the race detector
    sc.build(["rec-conc"], race=True)
    trace = os.path.join(sc.work, "conc.ndjson")
    env = {"GORACE": "halt_on_error=0 exitcode=0 log_path=" + os.path.join(sc.work, "race")}
    sc.run("rec-conc", ["-seed", seed, "-out", trace, "-schedules", sp], env=env, timeout=1800)
    evs = open(trace).read().splitlines()
    for gcount in ([2, 8] if tier == "quick" else [2, 8, 64]):
        t2 = os.path.join(sc.work, "stress%d.ndjson" % gcount)
        sc.run("rec-conc", ["-seed", seed, "-out", t2, "-stress", gcount, "-rounds", 12 if tier == "quick" else 40], env=env, timeout=1800)
        evs += open(t2).read().splitlines()
    # tight variant: primitives and codecs only, each goroutine under its own keys, many closely spaced calls
    for gcount, iters in ([(8, 500), (64, 48), (2, 400)] if tier == "quick" else [(3, 1500), (8, 1500), (64, 300), (2, 1500)]):
        t3 = os.path.join(sc.work, "tight%d.ndjson" % gcount)
        sc.run("rec-conc", ["-seed", seed, "-out", t3, "-stress", gcount, "-rounds", 1000 + iters], env=env, timeout=1800)
        evs += open(t3).read().splitlines()
    # the same on one processor (GOMAXPROCS=1): goroutines are still preempted in the middle of a call, and whatever serialises them on
    # many processors has to serialise them there too
    for gcount, iters in ([(16, 120)] if tier == "quick" else [(16, 600), (5, 1500)]):
        t4 = os.path.join(sc.work, "onep%d.ndjson" % gcount)
        sc.run("rec-conc", ["-seed", seed, "-out", t4, "-stress", gcount, "-rounds", 1000 + iters], env=dict(env, GOMAXPROCS="1"), timeout=1800)
        evs += open(t4).read().splitlines()
    import glob
    races = 0
    where = set()
    for f in glob.glob(os.path.join(sc.work, "race.*")):
        txt = open(f).read()
        races += txt.count("WARNING: DATA RACE")
        for m in re.finditer(r"^\s+((?:free5gclib|tglib|stgutg)[^\s(]*)\(", txt, re.M):
            where.add(m.group(1))
    if races:
        evs.append(json.dumps({"ev": "Race", "id": "race", "count": races, "where": ", ".join(sorted(where))[:400]}))
    full = os.path.join(sc.work, "conc-all.ndjson")
    open(full, "w").write("\n".join(evs) + "\n")
    results, rejects, lines = vlib.validate_trace(sc, "TraceConc", full)
    v.add_tlc(results)
    v.traces = len(scheds) + 3
    ops = [json.loads(l) for l in lines]
    v.evaluations = len([e for e in ops if e["ev"] == "Op"])
    for e in ops:
        if e["ev"] == "Sched":
            v.distinct.add(tuple(e["order"]))
        elif e["ev"] == "Op" and e["op"] == "workload":
            v.distinct.add(e["id"])
    v.extra["infeasible_schedules"] = len([e for e in ops if e["ev"] == "Sched" and not e["feasible"]])
    v.samples = [e for e in ops if e["ev"] == "Sched"][:2] + [e for e in ops if e["ev"] == "Op"][:1]
    v.rule = ("every interleaving of the gate-point segments (InitSnow3g | gap | GenerateKeystream) of G goroutines x N calls enumerated by TLC from "
              "Conc.tla (G x N in {2x2, 3x1} quick, plus {2x3, 3x2} thorough; quick samples 1500) replayed through hook H4 with results compared to "
              "the same call executed alone (and to NasAlg for a sample); free-running stress with 2, 8 (, 64) goroutines over NGAP / NAS codec, "
              "NAS protection, NEA/NIA 1 and 2 and key derivation under the race detector; distinct = distinct schedule or stress worker")
    v.assumptions = ["gate points exist only in the SNOW 3G routines; other shared state is only seen by the stress run and the race detector"]

    def key(r, e):
        if e.get("ev") == "Race":
            return "Race:" + e.get("where", "")[:80]
        return "Op:%s:%s" % (e.get("op"), "stress" if str(e.get("id", "")).startswith("stress") else "schedule")
    _reject_to_violation(v, rejects, key)


# ------------------------------------------------------------------------------------------------
# C08 / C09  NAS codec and TS 24.501 wire layout
# ------------------------------------------------------------------------------------------------
def _nas_isolated():
    """(message, IEI) pairs listed as known findings: generated only in dedicated single-IE cases so that they do not mask the other IEs"""
    import re
    out = set()
    for pid in ("C08", "C09"):
        for k in vlib.load_known(pid):
            m = re.match(r"NAS:(\w+):IEI ([0-9A-Fa-f]+)", k["key"].replace("\\", ""))
            if m:
                out.add((m.group(1), int(m.group(2), 16)))
    return out


def _nas_cases(rnd, table, shapes, tier):
    """abstract messages for GenNas: per message type optional-IE subsets x per-IE lengths x random contents, plus a permutation"""
    import itertools
    byname = {s["name"]: s for s in shapes}
    cases = []
    idn = 0

    def arr_allowed(iei, cap):
        return {16: [1, 2, 12, 13], 34: [1, 2, 4, 5, 8], 41: [5, 9, 13], 23: [2, 3, 13], 0x21: [1, 2, 3], 0x4A: [3, 6, 42, 45],
                0x28: [1, 2, 12, 13], 0x2D: [4, 8, 16]}.get(iei, [cap])

    def val_len(fmt, fixed, sh, mode, iei=-1):
        cap = sh["cap"] if sh else 8
        if fmt == "V":
            return fixed
        if fmt == "TV":
            return fixed - 1
        if fmt == "TV1":
            return 1
        big = fmt in ("LVE", "TLVE")
        if sh and sh["kind"] == "octet":
            return 1                      # a single octet behind a length field: the only well-formed length is 1
        if sh and sh["kind"] in ("lv-array", "lve-array"):
            # array-backed IEs are sized to the standard's maximum; most of them have a fixed length in TS 24.501, so only the
            # capacity is used unless the IE is known to be variable (5GMM capability 1..13, S-NSSAI 1|2|4|5|8, PDU address 5|9|13,
            # S1 UE network capability 2..13)
            # S1 UE network capability 2..13, 5GS network feature support 1..3, equivalent PLMNs 3..45 in threes, 5GSM capability 1..13,
            # authentication response parameter 4..16)
            allowed = arr_allowed(iei, cap)
            return allowed[mode % len(allowed)]
        if big:
            return [0, 1, 255, 256, 700, rnd.randrange(40)][mode % 6]
        return [0, 1, 17, 255, rnd.randrange(30)][mode % 5]

    isolated = _nas_isolated()
    for name in sorted(table):
        t = table[name]
        sh = byname.get(name)
        sm = (sh or {}).get("mand") or []
        so = (sh or {}).get("opt") or []
        mshapes = sm if len(sm) == len(t["mand"]) else [None] * len(t["mand"])
        oshapes = so if len(so) == len(t["opt"]) else [None] * len(t["opt"])
        k = len(t["opt"])
        if k <= (10 if tier != "quick" else 4):
            subsets = [list(c) for r in range(k + 1) for c in itertools.combinations(range(k), r)]
        else:
            subsets = [[], list(range(k))] + [[i] for i in range(k)]
            for _ in range(400 if tier != "quick" else 12):
                subsets.append([i for i in range(k) if rnd.random() < 0.5])
        reps = 1 if tier == "quick" else 6
        iso_idx = [i for i in range(k) if (name, t["opt"][i][0]) in isolated]
        subsets = [[i for i in sub if i not in iso_idx] for sub in subsets] + [[i] for i in iso_idx for _ in range(3)]
        for sub in subsets:
            for rep in range(reps):
                mode = rnd.randrange(12)
                hdr = [0] if t["epd"] == 126 else [rnd.randrange(256), rnd.randrange(256)]
                mand = []
                for (row, s2) in zip(t["mand"], mshapes):
                    n = val_len(row[1], row[2], s2, mode + len(mand))
                    mand.append([rnd.randrange(256) for _ in range(n)])
                opt = []
                for i in sub:
                    row = t["opt"][i]
                    if row[1] == "TV1":
                        v = [rnd.randrange(16)]
                    else:
                        n = val_len(row[1], row[2], oshapes[i], mode + i + rep, row[0])
                        v = [rnd.randrange(256) for _ in range(n)]
                    opt.append({"iei": row[0], "v": v})
                perm = list(range(1, len(opt) + 1))
                if len(opt) > 1:
                    choice = idn % 4
                    if choice == 0:
                        perm.reverse()
                    elif choice == 1:
                        perm = perm[1:] + perm[:1]
                    elif choice == 2:
                        rnd.shuffle(perm)
                cases.append({"id": idn, "kind": "msg", "name": name, "hdr": hdr, "mand": mand, "opt": opt, "perm": perm})
                idn += 1
    # dense sweep of one variable-length IE across the one-octet boundary (246..261 octets; up to 255 for one-octet lengths) with every other
    # optional IE of the message present: a length or a remaining-octets count kept in 8 bits shows here
    for name in sorted(table):
        t = table[name]
        sh = byname.get(name)
        so = (sh or {}).get("opt") or []
        oshapes = so if len(so) == len(t["opt"]) else [None] * len(t["opt"])
        k = len(t["opt"])
        iso_idx = [i for i in range(k) if (name, t["opt"][i][0]) in isolated]
        sm = (sh or {}).get("mand") or []
        mshapes = sm if len(sm) == len(t["mand"]) else [None] * len(t["mand"])
        for i in range(k):
            row = t["opt"][i]
            if row[1] not in ("TLVE", "LVE", "TLV", "LV") or i in iso_idx:
                continue
            if oshapes[i] and oshapes[i]["kind"] == "octet":
                continue
            top = 262 if row[1] in ("TLVE", "LVE") else 256
            lengths = [0, 1, 2] + list(range(246, top))
            if oshapes[i] and oshapes[i]["kind"] in ("lv-array", "lve-array"):
                # array-backed: every length the standard allows for this IE, with all other optional IEs behind it
                lengths = arr_allowed(row[0], oshapes[i]["cap"])
                if len(lengths) < 2:
                    continue
            arr = bool(oshapes[i] and oshapes[i]["kind"] in ("lv-array", "lve-array"))
            for L in (lengths if not arr else [x for x in lengths for _ in range(3)]):
                hdr = [0] if t["epd"] == 126 else [rnd.randrange(256), rnd.randrange(256)]
                mand = [[rnd.randrange(256) for _ in range(val_len(r2[1], r2[2], s2, 1))] for (r2, s2) in zip(t["mand"], mshapes)]
                opt = []
                for j in range(k):
                    if j in iso_idx:
                        continue
                    rj = t["opt"][j]
                    if j == i:
                        v = [rnd.randrange(256) for _ in range(L)]
                        if arr:
                            # array-backed elements: all-ones, all-zero and random contents in turn (values with a reserved meaning, such
                            # as the SD FFFFFF of an S-NSSAI, are octets like any others on the wire)
                            v = [[255] * L, [0] * L, v][len(cases) % 3]
                    elif rj[1] == "TV1":
                        v = [[0, 15, rnd.randrange(16)][(L + j) % 3]]
                    else:
                        v = [rnd.randrange(256) for _ in range(val_len(rj[1], rj[2], oshapes[j], 1 + j, rj[0]))]
                    opt.append({"iei": rj[0], "v": v})
                cases.append({"id": idn, "kind": "msg", "name": name, "hdr": hdr, "mand": mand, "opt": opt, "perm": list(range(1, len(opt) + 1))})
                idn += 1
                if L in (256, 261) and len(opt) > 1:
                    # the same message with its optional IEs in reverse order: a long two-octet-length IE now precedes the one-octet-length ones
                    cases.append({"id": idn, "kind": "msg", "name": name, "hdr": hdr, "mand": mand, "opt": opt, "perm": list(range(len(opt), 0, -1))})
                    idn += 1
                    # ... and with the long IE moved to the front, everything else behind it in table order
                    pos = 1 + [x["iei"] for x in opt].index(row[0])
                    cases.append({"id": idn, "kind": "msg", "name": name, "hdr": hdr, "mand": mand, "opt": opt,
                                  "perm": [pos] + [q for q in range(1, len(opt) + 1) if q != pos]})
                    idn += 1
    # N1 SM containers that hold a real 5GSM message (PDU SESSION ESTABLISHMENT REQUEST with its two half-octet IEs in table order and
    # swapped): the transport message carries the container octets as they are, whatever a 5GSM codec would make of them
    for name in ("ULNASTransport", "DLNASTransport"):
        if name not in table:
            continue
        t = table[name]
        for inner in ([0x2e, 5, 1, 0xc1, 0xff, 0xff, 0x91, 0xa1], [0x2e, 5, 1, 0xc1, 0xff, 0xff, 0xa1, 0x91], [0x2e, 5, 1, 0xc1, 0xff, 0xff, 0xa1, 0x91, 0x7b, 0, 1, 0x80]):
            mand = [[1] if len(row) > 2 and row[2] == 1 else list(inner) for row in t["mand"]]
            if len(mand) == 2:
                mand = [[1], list(inner)]
            cases.append({"id": idn, "kind": "msg", "name": name, "hdr": [0], "mand": mand, "opt": [], "perm": []})
            idn += 1
    # the same sweep for the mandatory LV / LV-E information elements (5GS mobile identity, ABBA, EAP message, payload container ...)
    for name in sorted(table):
        t = table[name]
        sh = byname.get(name)
        sm = (sh or {}).get("mand") or []
        mshapes = sm if len(sm) == len(t["mand"]) else [None] * len(t["mand"])
        for i, (row, s2) in enumerate(zip(t["mand"], mshapes)):
            if row[1] not in ("LV", "LVE") or (s2 and s2["kind"] in ("lv-array", "lve-array", "octet")):
                continue
            top = 262 if row[1] == "LVE" else 256
            for L in [0, 1, 2] + list(range(246, top)):
                hdr = [0] if t["epd"] == 126 else [rnd.randrange(256), rnd.randrange(256)]
                mand = []
                for j, (r2, s3) in enumerate(zip(t["mand"], mshapes)):
                    n = L if j == i else val_len(r2[1], r2[2], s3, 1)
                    mand.append([rnd.randrange(256) for _ in range(n)])
                cases.append({"id": idn, "kind": "msg", "name": name, "hdr": hdr, "mand": mand, "opt": [], "perm": []})
                idn += 1
    # contents that have a structure of their own - the shape of an EAP packet (code, identifier, two-octet length, data; RFC 3748) and of
    # nested type-length-value units, with inner lengths shorter than, equal to and longer than the information element: for NAS every
    # variable-length IE is a string of octets, none of which says anything about where the IE ends
    for name in sorted(table):
        t = table[name]
        sh = byname.get(name)
        so = (sh or {}).get("opt") or []
        oshapes = so if len(so) == len(t["opt"]) else [None] * len(t["opt"])
        sm = (sh or {}).get("mand") or []
        mshapes = sm if len(sm) == len(t["mand"]) else [None] * len(t["mand"])

        def inner(L, q):
            code = 1 + q % 4
            il = [4, max(4, L // 2), L - 1, L + 3, L][q % 5]
            return ([code, 7 + q, il >> 8, il & 255] + [rnd.randrange(256) for _ in range(L)])[:L]

        def mand_default():
            return [[rnd.randrange(256) for _ in range(val_len(r2[1], r2[2], s2, 1))] for (r2, s2) in zip(t["mand"], mshapes)]
        q = 0
        for i, row in enumerate(t["opt"]):
            if row[1] not in ("TLVE", "LVE", "TLV", "LV") or (name, row[0]) in isolated or (oshapes[i] and oshapes[i]["kind"] not in ("lv-buffer", "lve-buffer")):
                continue
            for L in (12, 40):
                for _ in range(5):
                    hdr = [0] if t["epd"] == 126 else [rnd.randrange(256), rnd.randrange(256)]
                    cases.append({"id": idn, "kind": "msg", "name": name, "hdr": hdr, "mand": mand_default(),
                                  "opt": [{"iei": row[0], "v": inner(L, q)}], "perm": [1]})
                    idn += 1
                    q += 1
        for i, (row, s2) in enumerate(zip(t["mand"], mshapes)):
            if row[1] not in ("LV", "LVE") or (s2 and s2["kind"] not in ("lv-buffer", "lve-buffer")):
                continue
            for L in (12, 40):
                for _ in range(5):
                    hdr = [0] if t["epd"] == 126 else [rnd.randrange(256), rnd.randrange(256)]
                    mand = mand_default()
                    mand[i] = inner(L, q)
                    cases.append({"id": idn, "kind": "msg", "name": name, "hdr": hdr, "mand": mand, "opt": [], "perm": []})
                    idn += 1
                    q += 1
    # twins: two information elements of one message with the same contents (the additional GUTI equal to the 5GS mobile identity, two
    # containers holding the same octets), and containers whose contents are a complete NAS message (a REGISTRATION REQUEST / SERVICE
    # REQUEST repeated inside a SECURITY MODE COMPLETE) in table order, reversed and rotated: no IE says anything about another one
    for name in sorted(table):
        t = table[name]
        sh = byname.get(name)
        so = (sh or {}).get("opt") or []
        oshapes = so if len(so) == len(t["opt"]) else [None] * len(t["opt"])
        sm = (sh or {}).get("mand") or []
        mshapes = sm if len(sm) == len(t["mand"]) else [None] * len(t["mand"])
        var_opt = [i for i, row in enumerate(t["opt"]) if row[1] in ("TLVE", "LVE", "TLV", "LV") and (name, row[0]) not in isolated
                   and not (oshapes[i] and oshapes[i]["kind"] not in ("lv-buffer", "lve-buffer"))]
        var_mand = [i for i, (row, s2) in enumerate(zip(t["mand"], mshapes)) if row[1] in ("LV", "LVE") and not (s2 and s2["kind"] not in ("lv-buffer", "lve-buffer"))]
        # array-backed elements take part where the standard allows them the length of the shared contents
        arr_opt = [i for i, row in enumerate(t["opt"]) if row[1] in ("TLVE", "LVE", "TLV", "LV") and (name, row[0]) not in isolated
                   and oshapes[i] and oshapes[i]["kind"] in ("lv-array", "lve-array")]
        if len(var_opt) + len(var_mand) + len(arr_opt) < 1 or len(t["opt"]) + len(var_mand) < 2:
            continue
        for shape in range(3):
            content = [[0xf2, 0x02, 0xf8, 0x39, 0xca, 0xfe, 0x00, 0x00, 0x00, 0x00, 0x01],
                       [0x7e, 0x00, 0x41, 0x79, 0x00, 0x0d, 0x01, 0x02, 0xf8, 0x39, 0xf0, 0xff, 0x00, 0x00, 0x00, 0x00, 0x47, 0x78, 0x2e, 0x02, 0x80, 0x20],
                       [0x7e, 0x00, 0x4c, 0x10, 0x00, 0x07, 0xf4, 0x00, 0x40, 0x00, 0x00, 0x00, 0x01]][shape]
            hdr = [0] if t["epd"] == 126 else [rnd.randrange(256), rnd.randrange(256)]
            mand = [[rnd.randrange(256) for _ in range(val_len(r2[1], r2[2], s2, 1))] for (r2, s2) in zip(t["mand"], mshapes)]
            for i in var_mand:
                mand[i] = list(content)
            opt = []
            for j, rj in enumerate(t["opt"]):
                if (name, rj[0]) in isolated:
                    continue
                if j in var_opt or (j in arr_opt and len(content) in arr_allowed(rj[0], oshapes[j]["cap"])):
                    v = list(content)
                elif rj[1] == "TV1":
                    v = [rnd.randrange(16)]
                else:
                    v = [rnd.randrange(256) for _ in range(val_len(rj[1], rj[2], oshapes[j], 1 + j, rj[0]))]
                opt.append({"iei": rj[0], "v": v})
            k2 = len(opt)
            perms = [list(range(1, k2 + 1))]
            if k2 > 1:
                perms += [list(range(k2, 0, -1)), list(range(2, k2 + 1)) + [1]]
            for perm in perms:
                cases.append({"id": idn, "kind": "msg", "name": name, "hdr": hdr, "mand": mand, "opt": opt, "perm": perm})
                idn += 1
    known5gmm = {t["mt"] for t in table.values() if t["epd"] == 126}
    known5gsm = {t["mt"] for t in table.values() if t["epd"] == 46}
    for mt in range(256):
        if mt not in known5gmm:
            cases.append({"id": idn, "kind": "unknown", "bytes": [126, 0, mt, 0, 0, 0]})
            idn += 1
        if mt not in known5gsm:
            cases.append({"id": idn, "kind": "unknown", "bytes": [46, 5, 1, mt, 0, 0]})
            idn += 1
    return cases


def _nas_run(sc, v, tier, seed, which):
    import concurrent.futures as cf
    import random
    import shutil
    rnd = random.Random(seed * 1033 + 8)
    sc.build(["rec-nas"])
    shp = os.path.join(sc.work, "shapes.json")
    pathp = os.path.join(sc.work, "path.ndjson")
    sc.run("rec-nas", ["-shapes", shp, "-path", pathp])
    shapes = json.load(open(shp))
    d = sc.specdir()
    tablep = os.path.join(sc.work, "nastable.json")
    empty = os.path.join(sc.work, "empty.ndjson")
    open(empty, "w").close()
    r = vlib.run_tlc(d, "GenNas", vlib.cfg_text({"TracePath": empty, "OutPath": tablep}, init="DumpInit", nxt="DumpNext", post="Dumped"), name="DumpNas", timeout=300)
    if not r.ok:
        raise HarnessError("dumping the TS 24.501 tables failed: " + r.error)
    table = json.load(open(tablep))
    cases = _nas_cases(rnd, table, shapes, tier)
    skp = os.path.join(sc.work, "nasskel.ndjson")
    open(skp, "w").write("\n".join(json.dumps(c) for c in cases) + "\n")
    chunks, _ = vlib.split_lines(skp, vlib.NCPU, sc.work, "nasskel")

    def gen(c):
        d2 = sc.specdir()
        outp = c[0].replace("nasskel", "nascases")
        r2 = vlib.run_tlc(d2, "GenNas", vlib.cfg_text({"TracePath": c[0], "OutPath": outp}, post="Consumed"), timeout=2400, heap="4g")
        shutil.rmtree(d2, ignore_errors=True)
        if not r2.ok:
            raise HarnessError("GenNas failed: " + r2.error)
        return outp, r2
    with cf.ThreadPoolExecutor(max_workers=vlib.NCPU) as ex:
        gens = list(ex.map(gen, chunks))
    v.add_tlc([g[1] for g in gens])
    obsp = os.path.join(sc.work, "nasobs.ndjson")
    with open(obsp, "w") as o:
        for outp, _ in gens:
            t = outp.replace("nascases", "nasobs1")
            sc.run("rec-nas", ["-replay", outp, "-out", t])
            o.write(open(t).read())
        o.write(open(pathp).read())
    results, rejects, lines = vlib.validate_trace(sc, "TraceNas", obsp, timeout=2400)
    v.add_tlc(results)
    v.traces = len(results)
    evs = [json.loads(l) for l in lines]
    v.evaluations = len(evs)
    names = set()
    pairs = set()
    for e in evs:
        if e["ev"] == "Nas" and e["kind"] == "msg":
            names.add(e["abs"]["name"])
            for o in e["abs"]["opt"]:
                pairs.add((e["abs"]["name"], o["iei"]))
            v.distinct.add(hash(canon(e["abs"])))
        else:
            v.distinct.add(hash(canon(e.get("canon", e.get("bytes")))))
    v.extra["message_types"] = len(names)
    v.extra["message_optional_ie_pairs"] = len(pairs)
    # library tables vs the transcription (number of optional IEs per message)
    tnames = {n: len(table[n]["opt"]) for n in table}
    lnames = {s["name"]: len(s["opt"] or []) for s in shapes}
    v.extra["messages_only_in_library"] = sorted(set(lnames) - set(tnames))
    v.samples = [{k: evs[0][k] for k in ("abs", "canon")}, [e for e in evs if e["ev"] == "Path"][0]]
    mine = [r for r in rejects if r["why"].startswith(which + ":") or (r.get("event") or {}).get("ev") == "Held"]
    other = [r for r in rejects if r not in mine]
    if other:
        vlib.log("note: %d reject(s) belong to the sibling property" % len(other))

    def key(r, e):
        if e.get("ev") == "Path":
            return "PATH:%s:%s" % (e.get("fn"), r["why"].split(": ")[-1][:50])
        if e.get("kind") == "unknown":
            return "NAS:unknown-message-type"
        m, o = e["abs"], e["obs"]
        if len(m["opt"]) == 1 and (m["name"], m["opt"][0]["iei"]) in _nas_isolated():
            return "NAS:%s:IEI %02X" % (m["name"], m["opt"][0]["iei"])     # dedicated single-IE case of an IE with a recorded finding
        if o.get("err"):
            ieis = [x["iei"] for x in m["opt"]]
            return "NAS:%s:IEI %02X" % (m["name"], ieis[0]) if len(ieis) == 1 else "NAS:%s:rejected" % m["name"]
        a = o["abs"]
        if a["mand"] != m["mand"] or a["hdr"] != m["hdr"] or a["name"] != m["name"]:
            return "NAS:%s:mandatory" % m["name"]
        for w, g in zip(m["opt"], a["opt"]):
            if w != g:
                return "NAS:%s:IEI %02X" % (m["name"], w["iei"])
        if len(m["opt"]) != len(a["opt"]):
            return "NAS:%s:IEI %02X" % (m["name"], (m["opt"] + a["opt"])[min(len(m["opt"]), len(a["opt"]))]["iei"])
        return "NAS:%s:%s" % (m["name"], r["why"][5:50])
    _reject_to_violation(v, mine, key)
    return table, shapes


def check_C08(sc, v, tier, seed, replay):
    _nas_run(sc, v, tier, seed, "C08")
    v.rule = ("44 plain message types (28 5GMM + 16 5GSM) x optional-IE subsets (all 2^k for k <= 4|10, else empty/full/singletons/random) x IE lengths "
              "{0, 1, capacity-1, capacity} for array-backed LV/TLV, {0,1,17,255} / {0,1,255,256,700} for buffers, both nibbles of half-octet IEs, random "
              "contents; encoded by the TS 24.501 encoder of Nas24501.tla in canonical and permuted IE order, decoded / re-encoded by the library; "
              "every message type octet not in the tables as unknown; distinct = distinct abstract message")
    v.assumptions = ["the security protected 5GS NAS message (8.2.28) is covered by C06/C10, not here",
                     "well-formed = every length field equals the length of its contents"]


def _nas_fields(sc, v):
    """bit-field accessors of the information elements on the emulator's path against the positions of TS 24.501 9.11 (NasFields.tla)"""
    trace = os.path.join(sc.work, "fields.ndjson")
    sc.run("rec-nas", ["-fields", trace])
    results, rejects, lines = vlib.validate_trace(sc, "NasFields", trace, parallel=4)
    v.add_tlc(results)
    covered = set(pl.strip().strip('"').split(" ", 1)[1] for r in results for pl in r.prints if "COVERED" in pl)
    v.extra["field_accessors_checked"] = len(covered)
    v.evaluations += len(covered)
    if len(covered) < 100:
        raise HarnessError("NasFields: only %d accessors were found by reflection (table has 119 rows)" % len(covered))
    _reject_to_violation(v, rejects, lambda r, e: "Field:%s.%s" % (e.get("type"), e.get("acc")))


def check_C09(sc, v, tier, seed, replay):
    _nas_run(sc, v, tier, seed, "C09")
    _nas_fields(sc, v)
    v.rule = ("the same generated encodings as C08 judged against the tables: the library must decode the TS 24.501 encoding of every message to the "
              "intended message type, mandatory values in order and optional [IEI, value] list (message type octets, IEIs, formats, length widths); "
              "the 10 constructor calls on the emulator's path are parsed by the independent parser Nas24501!NasDecode to the intended values; "
              "the 119 bit-field / octet-string accessors of the 27 information element types on the emulator's path against the positions of TS 24.501 9.11 (NasFields.tla); "
              "distinct = distinct abstract message")
    v.assumptions = ["Nas24501.tla is my transcription of TS 24.501 Release 15 clauses 8.2/8.3 (rows adjudicated from the standard's text; see DESIGN)"]
