"""Per-property checks.  Each function records real-code behaviour with a Go recorder and lets TLC
judge it against the TLA+ specification (or lets TLC generate cases that are replayed)."""
import json
import os

import vlib
from vlib import HarnessError, canon


def _reject_to_violation(v, rejects, keyfn):
    for r in rejects:
        e = r.get("event") or {}
        v.violation(keyfn(r, e), r["why"], {"event": e, "why": r["why"], "line": r["line"]})


# ------------------------------------------------------------------------------------------------
# C07  NEA/NIA are the 3GPP algorithms
# ------------------------------------------------------------------------------------------------
def check_C07(sc, v, tier, seed, replay):
    sc.build(["rec-crypto"])
    trace = os.path.join(sc.work, "crypto.ndjson")
    sc.run("rec-crypto", ["-seed", seed, "-tier", tier, "-out", trace])
    results, rejects, lines = vlib.validate_trace(sc, "TraceCrypto", trace)
    v.add_tlc(results)
    v.traces = len(results)
    evs = [json.loads(l) for l in lines]
    v.evaluations = len(evs)
    for e in evs:
        if e["ev"] in ("Enc", "Mac") and len(e["in"]) > 0:
            v.distinct.add(canon([e["ev"], e["alg"], e["key"], e["count"], e["bearer"], e["dir"], e["in"]]))
    v.samples = [e for e in evs if e["ev"] in ("Enc", "Mac")][:3]
    v.rule = ("seeded grid: algorithm x message length 1..N (every residue mod 4/8/16) x BEARER x DIRECTION x COUNT corners x "
              "random/corner keys, shuffled with repeats; SNOW 3G tables exhaustively; distinct = distinct argument tuple, "
              "non-trivial = non-empty message")
    v.assumptions = ["TLA+ transcriptions of AES/CMAC/SNOW 3G/f8/f9 (SelfTest vectors: FIPS-197, RFC 4493, SNOW 3G test set 1)"]

    def key(r, e):
        if e.get("ev") in ("Enc", "Mac"):
            return "%s:alg%d:len%%4=%d" % (e["ev"], e["alg"], len(e["in"]) % 4)
        return str(e.get("ev"))
    _reject_to_violation(v, rejects, key)
