"""Per-property checks.  Each function records real-code behaviour with a Go recorder and lets TLC
judge it against the TLA+ specification (or lets TLC generate cases that are replayed)."""
import json
import os

import vlib
from vlib import HarnessError, canon


def _reject_to_violation(v, rejects, keyfn):
    for r in rejects:
        e = r.get("event") or {}
        v.violation(keyfn(r, e), r["why"], {"event": e, "why": r["why"], "line": r["line"]})


# ------------------------------------------------------------------------------------------------
# C07  NEA/NIA are the 3GPP algorithms
# ------------------------------------------------------------------------------------------------
def check_C07(sc, v, tier, seed, replay):
    sc.build(["rec-crypto"])
    trace = os.path.join(sc.work, "crypto.ndjson")
    sc.run("rec-crypto", ["-seed", seed, "-tier", tier, "-out", trace])
    results, rejects, lines = vlib.validate_trace(sc, "TraceCrypto", trace)
    v.add_tlc(results)
    v.traces = len(results)
    evs = [json.loads(l) for l in lines]
    v.evaluations = len(evs)
    for e in evs:
        if e["ev"] in ("Enc", "Mac") and len(e["in"]) > 0:
            v.distinct.add(canon([e["ev"], e["alg"], e["key"], e["count"], e["bearer"], e["dir"], e["in"]]))
    v.samples = [e for e in evs if e["ev"] in ("Enc", "Mac")][:3]
    v.rule = ("seeded grid: algorithm x message length 1..N (every residue mod 4/8/16) x BEARER x DIRECTION x COUNT corners x "
              "random/corner keys, shuffled with repeats; SNOW 3G tables exhaustively; distinct = distinct argument tuple, "
              "non-trivial = non-empty message")
    v.assumptions = ["TLA+ transcriptions of AES/CMAC/SNOW 3G/f8/f9 (SelfTest vectors: FIPS-197, RFC 4493, SNOW 3G test set 1)"]

    def key(r, e):
        if e.get("ev") in ("Enc", "Mac"):
            return "%s:alg%d:len%%4=%d" % (e["ev"], e["alg"], len(e["in"]) % 4)
        return str(e.get("ev"))
    _reject_to_violation(v, rejects, key)


def _stateless(sc, v, rec, module, trace_name, seed, tier, extra_args=(), timeout=1200):
    sc.build([rec])
    trace = os.path.join(sc.work, trace_name)
    sc.run(rec, ["-seed", seed, "-tier", tier, "-out", trace] + list(extra_args))
    results, rejects, lines = vlib.validate_trace(sc, module, trace, timeout=timeout)
    v.add_tlc(results)
    v.traces += len(results)
    evs = [json.loads(l) for l in lines]
    v.evaluations += len(evs)
    return evs, rejects


# ------------------------------------------------------------------------------------------------
# C15  Milenage library and AUTN acceptance
# ------------------------------------------------------------------------------------------------
def check_C15(sc, v, tier, seed, replay):
    evs, rejects = _stateless(sc, v, "rec-milenage", "TraceMilenage", "milenage.ndjson", seed, tier)
    for e in evs:
        d = dict(e)
        d.pop("id", None)
        v.distinct.add(canon(d))
    v.samples = [e for e in evs if e["ev"] == "Check"][:2] + [e for e in evs if e["ev"] == "F"][:1]
    v.rule = ("base vectors (TS 35.207 set 1 inputs + seeded random/corner K, OP, RAND, AMF, SQN) x UE SQN {equal, +-1, differing only "
              "in octet i (i=0..5), random, zero} x every single-bit and single-octet corruption of AUTN (fresh and stale UE SQN) "
              "and of AUTS; distinct = distinct event, all non-trivial")
    v.assumptions = ["TLA+ transcription of TS 35.206 (SelfTest: TS 35.207 test set 1)",
                     "a check with wrong MAC-A and stale SQN may answer -1 or -2 (the property does not fix the order of the two tests)"]

    def key(r, e):
        return "%s:%s:ret=%s" % (e.get("ev"), e.get("cls", ""), e.get("ret", ""))
    _reject_to_violation(v, rejects, key)


# ------------------------------------------------------------------------------------------------
# C05  5G-AKA key hierarchy
# ------------------------------------------------------------------------------------------------
def check_C05(sc, v, tier, seed, replay):
    evs, rejects = _stateless(sc, v, "rec-aka", "TraceAka", "aka.ndjson", seed, tier)
    for e in evs:
        v.distinct.add(canon([e[k] for k in ("k", "op", "opc", "rand", "autn", "mcc", "mnc", "supi", "enc", "int")]))
    v.samples = evs[:2]
    v.extra["classes_covered"] = len(set((len(e["mnc"]), len(e["supi"]), e["enc"], e["int"], len(e["opc"]) == 0) for e in evs))
    v.rule = ("structural grid MNC length 2|3 x SUPI length 5..15 x ciphering id 0..3 x integrity id 0..3 x {OP only, OPc} (704 classes; "
              "quick: 64 classes covering every value of every factor, thorough: all) with seeded random / all-zero / all-one K, OP, RAND, "
              "SQN xor AK; distinct = distinct input tuple, all non-trivial")
    v.assumptions = ["TLA+ transcriptions of Milenage, HMAC-SHA-256, TS 33.220 KDF (SelfTest: TS 35.207 set 1, FIPS 180 'abc', RFC 4231 #1)",
                     "serving network name as built by the caller (5G:mnc<3 digits>.mcc<mcc>.3gppnetwork.org)"]

    def key(r, e):
        return "Derive:%s:%s" % (e.get("cls", ""), r["why"].split(" differs")[0])
    _reject_to_violation(v, rejects, key)
